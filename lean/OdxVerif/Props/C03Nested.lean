import OdxVerif.Props.C02Nested
import OdxVerif.Proofs.CompBitsRe
/-! # C03, nested tier — decode → re-encode reproduces the PDU for arbitrarily NESTED descriptions
    (structures ∘ fields ∘ multiplexers).  (Separate file; imported nowhere.) -/
namespace OdxVerif.Codec
open OdxVerif.Bits OdxVerif.OdxM

/- Full statement of C03 (not a theorem for the whole model): for every description and every PDU that strict `decode`
   accepts and whose bits are all described in canonical form, strict `encode` of the decoded values returns the PDU.
   Proved here: the instance where the decoded value tree is a well-formed, fully supplied `Desc` (`Proofs/CompBitsDesc.lean`:
   the syntactic mirror of `Described`; "fully supplied" = the decoder returns an entry for every parameter).  The shape of
   the value tree (number of items of every field, selected case of every multiplexer) is part of `ds`; that the PDU is
   "described in canonical form" is `hbits` + `hdisj` + `hcover` + `hext`, construct by construct:
     * leaf (VALUE, CODED-CONST, PHYS-CONST): its bits in the PDU are the representation `Obj.specRepr` of the leaf's value
       (for the kinds with two wire forms of one value — one's complement / sign-magnitude zero — this picks the canonical one;
       constants carry their constant),
     * DYNAMIC-LENGTH-FIELD: the count object reads as the number of items,
     * MULTIPLEXER: the switch key reads as the lower limit of the selected CASE (`defaultCaseKey` for the DEFAULT-CASE),
     * STATIC-FIELD: the bytes between an item's content and ITEM-BYTE-SIZE are zero,
     * no two entries share a bit, every bit of the PDU belongs to an entry, nothing is encoded beyond the end of the PDU
       (an empty DYNAMIC-LENGTH-FIELD's OFFSET included), an END-OF-PDU-FIELD ends where the PDU ends.
   Missing relative to the full statement: what `Described` lacks (see `Props/C02Nested.lean`), and the *completeness* direction
   "every PDU the decoder accepts in canonical form arises from such a `ds`" (the struct tier has it: `Trees.redecode`). -/

/-- a parameter containing an END-OF-PDU-FIELD is present (then necessarily in last position) -/
def Descs.endsWithEop (ds : List Desc) : Bool := Comps.anyEop (Descs.comps ds)

/-- **C03, nested tier.**  `ds`: a well-formed request/response description with a fully supplied value tree
    `V = Descs.decoded ds`; `pdu`: a PDU whose bits are exactly the canonical layout of `ds` (`hbits`: every entry — leaf,
    constant, item count, switch key, item padding — reads as its prescribed pattern; `hdisj`: the entries are pairwise
    disjoint; `hcover`: every bit of the PDU is claimed by an entry; `hext`: nothing is encoded beyond the PDU; `hend`: an
    END-OF-PDU-FIELD ends at the end of the PDU).  Then strict `Request.decode` of the PDU returns exactly `V`, and strict
    `Request.encode` of exactly that `V` returns the PDU byte for byte, without an overlap warning. -/
theorem C03_reencode_nested (ds : List Desc) (hok : Descs.ok ds) (hfull : Descs.full ds) (pdu : Bytes) (hall : AllBytes pdu)
    (hbits : ∀ e ∈ Descs.layout ds, ∀ j, j < e.bl → getBit pdu (absBit e.pos e.k e.hl (j + e.bp)) = e.raw.testBit j)
    (hdisj : LDisj (Descs.layout ds))
    (hcover : ∀ a, a < 8 * pdu.length → ∃ e ∈ Descs.layout ds, e.claims a)
    (hext : Descs.extent ds ≤ pdu.length)
    (hend : Descs.endsWithEop ds = true → Descs.endCursor ds = pdu.length) (trig : Option Bytes) :
    ∃ cursor, decodeMessage none (Descs.params ds) pdu true = .ok (.dict (Descs.decoded ds), cursor) ∧
      encodeMessage none (Descs.params ds) (.dict (Descs.decoded ds)) trig true = .ok (pdu, 0) := by
  obtain ⟨hm, hw⟩ := descs_reencode_pure ds hok.1 pdu hall hbits hdisj hcover hext
  have henc : encodeMessage none (Descs.params ds) (.dict (Descs.supplied ds)) trig true = .ok (pdu, 0) := by
    rw [descs_encodeMessage ds hok trig, hm, hw]
  obtain ⟨cursor, hdec⟩ := described_roundtrip_msg (Descs.comps ds) (Descs.described ds hok.1) hok.2.2.2 hok.2.1 hok.2.2.1 trig pdu
    (fun h => by rw [descs_pure_cursor ds hok.1]; exact hend h) henc
  refine ⟨cursor, hdec, ?_⟩
  rw [← Descs.supplied_eq_decoded ds hfull]
  exact henc

/-- the converse reading of `hdisj`/`hbits`: the PDU that strict `encode` makes of a fully supplied value tree satisfies all
    the canonicity hypotheses of `C03_reencode_nested` except coverage (which is a property of the description: no gaps) -/
theorem C03_encoded_is_canonical (ds : List Desc) (hok : Descs.ok ds) (trig : Option Bytes) (pdu : Bytes)
    (henc : encodeMessage none (Descs.params ds) (.dict (Descs.supplied ds)) trig true = .ok (pdu, 0)) :
    (∀ e ∈ Descs.layout ds, ∀ j, j < e.bl → getBit pdu (absBit e.pos e.k e.hl (j + e.bp)) = e.raw.testBit j) ∧
    LDisj (Descs.layout ds) ∧ Descs.extent ds ≤ pdu.length := by
  obtain ⟨h1, _, h3, h4⟩ := C02_bit_exact_nested ds hok trig pdu henc
  exact ⟨h1, h3, by omega⟩

/-! ### non-vacuity: the example of `Props/C02Nested.lean` as a decoded value tree (constant and default present) -/
def bStFull : Desc :=
  .struct "st" none [.value (bU8 "a") (.int 7), .valueDefault (bU8 "dv") (.int 0x55) (some (.int 0x55)), bSf]
def exRe : List Desc := [.const (bU8 "sid") (.int 0x2E) true, bStFull, bDf, bRec]
def exRePdu : Bytes :=
  [0x2E, 0x07, 0x55, 0x01, 0x02, 0x09, 0x00, 0x02, 0x08, 0x12, 0x34, 0x02, 0xA1, 0xA2, 0x01, 0xFF, 0xFE, 0x02, 0x01, 0x2C]

theorem wf_bStFull : bStFull.wf := by
  simp only [bStFull, Desc.wf, Descs.wf]
  refine ⟨⟨wfU8 _ _ (by decide) (by decide), ⟨bU8_ok _, bU8_range _ _ (by decide) (by decide)⟩, wf_bSf, trivial⟩, ?_, ⟨rfl, rfl, trivial⟩⟩
  refine ⟨?_, ?_, bNames1 _⟩
  · intro u hu
    simp only [Descs.comps, List.mem_cons, List.mem_nil_iff, or_false] at hu
    rcases hu with rfl | rfl <;> decide
  · intro u hu
    simp only [Descs.comps, List.mem_cons, List.mem_nil_iff, or_false] at hu
    subst hu
    decide

theorem exRe_ok : Descs.ok exRe := by
  refine ⟨?_, ?_, ⟨rfl, rfl, rfl, trivial⟩, by decide⟩
  · simp only [exRe, Descs.wf, Desc.wf]
    exact ⟨⟨bU8_ok _, bU8_range _ _ (by decide) (by decide)⟩, wf_bStFull, wf_bDf, wf_bRec, trivial⟩
  · simp [Comps.namesOk, exRe, Descs.comps, Desc.comp, Comp.name, Param.name, Comp.ofObjConst, Obj.toConstParam, bStFull, bDf, bRec,
      Comp.ofValue, bU8]

theorem exRe_full : Descs.full exRe := by
  simp [exRe, bStFull, bSf, bSfItem, bDf, bRec, bRecItem, Descs.full, Desc.full, Descss.full]

instance (e : Ent) (a : Nat) : Decidable (e.claims a) := by unfold Ent.claims; infer_instance

/-- the decoded value tree has an entry for every parameter -/
example : Descs.decoded exRe =
    [("sid", .atom (.int 0x2E)),
     ("st", .dict [("a", .atom (.int 7)), ("dv", .atom (.int 0x55)),
       ("sf", .list [.dict [("id", .atom (.int 1)), ("m", .pair "lo" (.dict [("p", .atom (.int 9))]))],
                     .dict [("id", .atom (.int 2)), ("m", .pair "hi" (.dict [("q", .atom (.int 0x1234))]))]])]),
     ("df", .list [.dict [("x", .atom (.int 0xA1))], .dict [("x", .atom (.int 0xA2))]]),
     ("rec", .list [.dict [("id", .atom (.int 1)), ("v", .atom (.int (-2)))], .dict [("id", .atom (.int 2)), ("v", .atom (.int 300))]])] := rfl

/-- the PDU's bits are the canonical layout: every entry reads as prescribed (count = 2, keys = 2 / 8, padding 0, …) -/
theorem exRe_bits : ∀ e ∈ Descs.layout exRe, ∀ j, j < e.bl → getBit exRePdu (absBit e.pos e.k e.hl (j + e.bp)) = e.raw.testBit j := by
  decide +kernel
/-- every bit of the 20 bytes belongs to an entry -/
theorem exRe_cover : ∀ a, a < 8 * exRePdu.length → ∃ e ∈ Descs.layout exRe, e.claims a := by
  decide +kernel
/-- pairwise disjoint: by the overlap clause of C02 (the model's encoder issues no warning on it) -/
theorem exRe_disj : LDisj (Descs.layout exRe) := by
  obtain ⟨pdu, w, h, hiff⟩ := C02_overlap_iff_nested exRe exRe_ok none
  have h0 : encodeMessage none (Descs.params exRe) (.dict (Descs.supplied exRe)) none true = .ok (exRePdu, 0) :=
    Except.eq_ok_of_toOption' (by decide +kernel)
  rw [h0] at h
  simp only [Except.ok.injEq, Prod.mk.injEq] at h
  exact hiff.mp h.2.symm

/-- the theorem applies: the model's strict decoder returns the value tree, and strict encode of it returns the PDU -/
example : ∃ cursor, decodeMessage none (Descs.params exRe) exRePdu true = .ok (.dict (Descs.decoded exRe), cursor) ∧
    encodeMessage none (Descs.params exRe) (.dict (Descs.decoded exRe)) none true = .ok (exRePdu, 0) :=
  C03_reencode_nested exRe exRe_ok exRe_full exRePdu (by unfold AllBytes exRePdu; decide) exRe_bits exRe_disj exRe_cover (by decide +kernel)
    (fun _ => by decide +kernel) none

/-- a PDU in NON-canonical form is outside the theorem: switch key 3 also selects case `lo` (limits 2..3), but the encoder
    writes the lower limit 2 — `hbits` fails at the switch-key entry, and indeed decode → encode changes that byte -/
example : ((decodeMessage none (Descs.params exRe)
      [0x2E, 0x07, 0x55, 0x01, 0x03, 0x09, 0x00, 0x02, 0x08, 0x12, 0x34, 0x02, 0xA1, 0xA2, 0x01, 0xFF, 0xFE, 0x02, 0x01, 0x2C] true).toOption.map
        fun r => pvalEq r.1 (.dict (Descs.decoded exRe))) = some true := by decide +kernel

/-! ### `hext` is necessary (and odxtools behaves like the model there: design_notes/C03.md, "finding")
    request = [df : DYNAMIC-LENGTH-FIELD, count 8 bits at byte 0, OFFSET 2, items {x}], value tree: no items -/
def exShort : List Desc :=
  [.dynLenField "df" none { offset := 2, cntBp := 0, cnt := bU8 "" } (Descs.params [.value (bU8 "x") (.int 0)]) []]

theorem exShort_ok : Descs.ok exShort := by
  refine ⟨?_, bNames1 _, trivial, by decide⟩
  refine ⟨?_, trivial⟩
  refine ⟨trivial, by intro k hk; simp [Descss.comps] at hk, ?_⟩
  unfold DynLayout.ok
  refine ⟨?_, ?_, by decide⟩
  · simp [DynLayout.cntObj, bU8, Obj.ok, Obj.encOk, Obj.sizeOk]
  · simp [DynLayout.cntObj, bU8, Obj.inRange]

/-- **Counterexample to C03 without `hext`.**  The one-byte PDU `00` is fully described in canonical form — its 8 bits are
    the count object, which reads 0 = the number of items (`hbits`, `hcover`; `hdisj` trivially) — and strict decode accepts it
    (value tree: no items; the decoder's cursor ends at OFFSET = 2, behind the end of the message).  But strict encode of that
    value tree returns `00 00`: an empty dynamic-length field extends the message to OFFSET (`emplace_bytes(b"")`).  The only
    hypothesis of `C03_reencode_nested` that fails is `hext` (extent 2 > 1). -/
theorem C03_empty_dynlen_before_offset_counterexample :
    Descs.ok exShort ∧ Descs.full exShort ∧
    (∀ e ∈ Descs.layout exShort, ∀ j, j < e.bl → getBit [0x00] (absBit e.pos e.k e.hl (j + e.bp)) = e.raw.testBit j) ∧
    (∀ a, a < 8 * ([0x00] : Bytes).length → ∃ e ∈ Descs.layout exShort, e.claims a) ∧
    Descs.extent exShort = 2 ∧
    ((decodeMessage none (Descs.params exShort) [0x00] true).toOption.map
      fun r => (pvalEq r.1 (.dict (Descs.decoded exShort)), r.2)) = some (true, 2) ∧
    (encodeMessage none (Descs.params exShort) (.dict (Descs.decoded exShort)) none true).toOption = some ([0x00, 0x00], 0) :=
  ⟨exShort_ok, by simp [exShort, Descs.full, Desc.full, Descss.full], by decide +kernel, by decide +kernel, by decide +kernel,
    by decide +kernel, by decide +kernel⟩

/-- request = [sf : STATIC-FIELD, 1 item of {x}, ITEM-BYTE-SIZE 2], value tree: x = 5 -/
def exShortSf : List Desc :=
  [.staticField "sf" none 2 (Descs.params [.value (bU8 "x") (.int 0)]) [[.value (bU8 "x") (.int 5)]]]

theorem exShortSf_ok : Descs.ok exShortSf := by
  refine ⟨?_, bNames1 _, trivial, by decide⟩
  refine ⟨?_, trivial⟩
  simp only [exShortSf, Desc.wf, Descss.wf, Descs.wf, Descss.comps]
  refine ⟨⟨⟨wfU8 _ _ (by decide) (by decide), trivial⟩, trivial⟩, ?_⟩
  intro k hk
  simp only [List.mem_cons, List.mem_nil_iff, or_false] at hk
  subst hk
  exact ⟨⟨rfl, bNames1 _, rfl⟩, by decide⟩

/-- **The same with static-field padding.**  The one-byte PDU `05` is fully described (its 8 bits are `x`; the padding entry
    lies behind the end of the PDU, where all bits read as zero) and strict decode accepts it (cursor 2), but strict encode
    of the decoded tree returns `05 00`: again only `hext` fails. -/
theorem C03_static_padding_behind_end_counterexample :
    Descs.ok exShortSf ∧ Descs.full exShortSf ∧
    (∀ e ∈ Descs.layout exShortSf, ∀ j, j < e.bl → getBit [0x05] (absBit e.pos e.k e.hl (j + e.bp)) = e.raw.testBit j) ∧
    (∀ a, a < 8 * ([0x05] : Bytes).length → ∃ e ∈ Descs.layout exShortSf, e.claims a) ∧
    Descs.extent exShortSf = 2 ∧
    ((decodeMessage none (Descs.params exShortSf) [0x05] true).toOption.map
      fun r => (pvalEq r.1 (.dict (Descs.decoded exShortSf)), r.2)) = some (true, 2) ∧
    (encodeMessage none (Descs.params exShortSf) (.dict (Descs.decoded exShortSf)) none true).toOption = some ([0x05, 0x00], 0) :=
  ⟨exShortSf_ok, by simp [exShortSf, Descs.full, Desc.full, Descss.full], by decide +kernel, by decide +kernel, by decide +kernel,
    by decide +kernel, by decide +kernel⟩

end OdxVerif.Codec
