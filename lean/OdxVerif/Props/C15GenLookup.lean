import OdxVerif.Props.C15
import OdxVerif.Proofs.GetComparamGenEq
/-! # C15 — `get_comparam` through the function GENERATED from the source (task W28)

    `Gen.getComparamE` (`Gen/GetComparam.lean`) is regenerated from `HierarchyElement.get_comparam` of
    `odxtools/diaglayers/hierarchyelement.py` on every run of C15 (`harness/extract/py2lean.py`); the theorems below are re-checked
    against the current source. `refs` is `self.comparam_refs`; the property theorems instantiate it with the model's `available L`
    (what `_finalize_init` stores there — that link stays differential). -/
namespace OdxVerif.Comparam
open OdxVerif

/-- **Tie.** On every layer, for every short name and every `protocol` argument (None, a protocol name, a `Protocol` object) the
    rendered `get_comparam` raises nothing and returns what the model's `getComparam` returns for the normalised protocol name -/
theorem C15_gen_get_comparam (L : Layer) (n : String) (p : Option Gen.ProtoArg) :
    Gen.getComparamE (available L) n p = .ok (getComparam L n (protoName p)) :=
  gen_getComparam_eq (available L) n p

/-- a `Protocol` object and its short name are interchangeable as the `protocol` argument -/
theorem C15_gen_protocol_object (refs : List Inst) (n s : String) :
    Gen.getComparamE refs n (some (.layer s)) = Gen.getComparamE refs n (some (.name s)) := by
  rw [gen_getComparam_eq, gen_getComparam_eq]; rfl

/-- **Protocol-specific first, on the generated function**: its answer is one of the specification's candidates (the effective
    definitions of that name for the protocol if there are any, else the generic ones), and `None` only if there is no candidate -/
theorem C15_gen_protocol_first (L : Layer) (n : String) (p : Option Gen.ProtoArg) :
    ∃ r, Gen.getComparamE (available L) n p = .ok r
      ∧ (∀ c, r = some c → c ∈ candidates L n (protoName p))
      ∧ (r = none → candidates L n (protoName p) = []) :=
  ⟨_, C15_gen_get_comparam L n p, C15_protocol_first L n (protoName p)⟩

/-- if the layer has an effective definition of a parameter named `n` for protocol `q`, the generated `get_comparam(n, protocol=q)`
    returns an effective definition for protocol `q`, never a generic one -/
theorem C15_gen_protocol_first_specific (L : Layer) (n i q : String) (c : Inst)
    (hc : lookup L (i, some q) = some c) (hn : c.name = n) :
    ∃ r, Gen.getComparamE (available L) n (some (.name q)) = .ok (some r) ∧ r.name = n ∧ r.proto = some q ∧ IsEffective L r := by
  obtain ⟨r, h1, h2⟩ := C15_protocol_first_specific L n i q c hc hn
  exact ⟨r, by rw [C15_gen_get_comparam]; exact congrArg _ h1, h2⟩

/-! non-vacuity on the generated function itself (the layer of `Props/C15.lean`): protocol-specific, generic fall-back, a
    `Protocol` object, no protocol, an unknown name -/
example : (Gen.getComparamE (available exBv) "CP_Baudrate" (some (.name "P"))).map (·.map (·.tag)) = .ok (some 1) := by decide
example : (Gen.getComparamE (available exBv) "CP_Baudrate" (some (.layer "P"))).map (·.map (·.tag)) = .ok (some 1) := by decide
example : (Gen.getComparamE (available exBv) "CP_Baudrate" (some (.name "R"))).map (·.map (·.tag)) = .ok (some 0) := by decide
example : (Gen.getComparamE (available exBv) "CP_Baudrate" none).map (·.map (·.tag)) = .ok (some 0) := by decide
example : (Gen.getComparamE (available exBv) "CP_Nothing" (some (.name "P"))).map (·.map (·.tag)) = .ok none := by decide
example : (lookup exBv ("BR", some "P")).map (fun c => (c.tag, c.name)) = some (1, "CP_Baudrate") := by decide

end OdxVerif.Comparam
