import OdxVerif.Props.C04Struct
import OdxVerif.Proofs.CompRejectDescribed
/-! # C04 on the compositional nested tier — no silent misrepresentation, whatever is supplied
    `C04_struct_partial` (Props/C04Struct.lean) lifted from nested structures with integer leaves to the tier of
    `C01_roundtrip_nested`: requests / responses whose parameters are, at every nesting depth and in any combination,
    VALUE parameters (integer kinds) with or without PHYSICAL-DEFAULT-VALUE, CODED-CONST and PHYS-CONST parameters (all nine leaf
    kinds), and VALUE parameters typed by a STRUCTURE, a STATIC-FIELD, a DYNAMIC-LENGTH-FIELD, an END-OF-PDU-FIELD or a
    MULTIPLEXER — and **every** supplied value `pv : PVal` whatsoever.

    The description is a `List PDesc` (`Proofs/CompReject.lean`): parameter descriptions WITHOUT baked-in values, each with its
    acceptance function; the class of descriptions is the inductive predicate `DescribedP` (`Proofs/CompRejectDescribed.lean`),
    which mirrors `Described` constructor by constructor (a multiplexer description lists ALL its cases).  For a supplied
    value the acceptance function returns the *component* (`Comp`, the objects of `C01_roundtrip_nested`) with that value
    baked in — so acceptance is tied to the model's encoder by the component's own refinement lemma, and rejection by
    `PDesc.Ok.rej`.

    *What "agrees with the supplied value" means*: the decoder returns `PDescs.complete ps kvs`, parameter by parameter in
    description order: the supplied value of every VALUE leaf, the default of an omitted defaulted VALUE, the constant of every
    CODED-CONST / PHYS-CONST, the supplied item list of a field (each item completed), `(name of the selected case, completed
    content)` for a multiplexer however the case was selected (name, one-entry dictionary, switch key, `None` = default).

    **`_partial`**: VALUE leaves are restricted to the integer kinds (as on the struct tier: `float(int)` is unmodelled, byte
    fields / strings need a well-formedness hypothesis on the supplied atom); constants may be of every kind.  Not in the
    tier: BYTE-SIZE structures, DYNAMIC-ENDMARKER-FIELD, LENGTH-KEY, RESERVED / NRC-CONST / MATCHING-REQUEST-PARAM, multiplexer
    cases without a structure.
    **Hypothesis `typedForP`** (explicit, decidable): no atom of a Python type the model does not follow is supplied — a
    `float` for an integer constant (Python `!=` across numeric types), a `str` / `bytes` atom for a field (they are sequences
    too), a list for a multiplexer.  `C04_nested_never_foreign` shows these are the only `unmodelled` spots and that no
    supplied value at all produces a foreign exception.
    **Hypothesis `needFor`**: the size of description + value stays within the model's fuel.
    **Hypothesis of the round trip `endCursor … = pdu.length`** (only when an END-OF-PDU-FIELD is present): the encoder's cursor
    ends where the PDU ends, as in `C01_roundtrip_nested` (`hend`) — otherwise an explicitly positioned parameter lies behind
    the field and the decoder reads it as further items. -/
namespace OdxVerif.Codec
open OdxVerif.Bits OdxVerif.OdxM

/-- the strict encoder accepts the supplied value: a dictionary without unknown names in which every VALUE leaf has a
    representable integer atom (or is defaulted), every supplied constant equals its constant, every structure got a
    dictionary, every field a list of acceptable items (static: the right number, each within ITEM-BYTE-SIZE; dynamic: a
    number the count object can hold), every multiplexer a value that selects a case whose key the switch-key object can hold
    and whose content is acceptable — at every depth -/
def PVal.acceptedByP (ps : List PDesc) (pv : PVal) : Bool := ((DDesc.struct ps).fill pv).isSome

/-- no atom of a Python type the model does not follow -/
def PVal.typedForP (ps : List PDesc) (pv : PVal) : Bool := (DDesc.struct ps).typed pv

/-- fuel the model needs for description and value -/
def PVal.needFor (ps : List PDesc) (pv : PVal) : Nat := (DDesc.struct ps).need pv

/-- where the encoder's cursor ends -/
def PVal.endCursor (ps : List PDesc) (pv : PVal) : Nat :=
  match (DDesc.struct ps).fill pv with
  | .some c => c.size
  | .none => 0

theorem DDesc.struct_fill_dict (ps : List PDesc) (pv : PVal) (c : DComp) (h : (DDesc.struct ps).fill pv = some c) :
    ∃ kvs, pv = .dict kvs := by
  cases pv with
  | dict kvs => exact ⟨kvs, rfl⟩
  | _ => simp [DDesc.struct] at h

/-- **C04, nested tier.** Strict `encode` of the model on described parameters and an arbitrary supplied value either raises
    `EncodeError` / plain `OdxError`, or returns a PDU — and then the value was a dictionary the description accepts
    (`acceptedByP`), and unless an overlap was reported strict `decode` of the PDU returns exactly the completion of the
    supplied value. -/
theorem C04_nested_partial (ps : List PDesc) (hd : ∀ p ∈ ps, DescribedP p) (hn : PDescs.namesOk ps) (hl : PDescs.eopLast ps)
    (pv : PVal) (trig : Option Bytes) (hneed : pv.needFor ps ≤ modelFuel) (hty : pv.typedForP ps = true) :
    (∃ e, encodeMessage none (PDescs.toParams ps) pv trig true = .error e ∧ (e = .encode ∨ e = .odx)) ∨
    ∃ (kvs : List (String × PVal)) (pdu : Bytes) (w : Nat), pv = .dict kvs ∧ pv.acceptedByP ps = true ∧
      encodeMessage none (PDescs.toParams ps) pv trig true = .ok (pdu, w) ∧
      (w = 0 → (PDescs.anyEop ps = true → pv.endCursor ps = pdu.length) →
        ∃ cursor, decodeMessage none (PDescs.toParams ps) pdu true = .ok (.dict (PDescs.complete ps kvs), cursor)) := by
  rcases encodeMessage_nested_cases ps (fun p hp => (hd p hp).ok) hn hl pv trig hneed with
    ⟨_, e, hrun, he⟩ | ⟨c, hf, hc, pdu, w, hrun, hrt⟩
  · rcases he with he | ⟨_, hff⟩
    · exact Or.inl ⟨e, hrun, he⟩
    · rw [PVal.typedForP] at hty; rw [hty] at hff; cases hff
  · obtain ⟨kvs, rfl⟩ := DDesc.struct_fill_dict ps pv c hf
    refine Or.inr ⟨kvs, pdu, w, rfl, by simp [PVal.acceptedByP, hf], hrun, ?_⟩
    intro hw hend
    exact hrt hw (fun he => by
      have := hend (hc.eop he)
      simpa [PVal.endCursor, hf] using this)

/-- **No foreign exception, no other `unmodelled` spot** — without the `typedForP` hypothesis: every failure of the strict
    encoder on the nested tier is `EncodeError`, `OdxError`, or the model's `unmodelled` at an untyped atom. -/
theorem C04_nested_never_foreign (ps : List PDesc) (hd : ∀ p ∈ ps, DescribedP p) (hn : PDescs.namesOk ps)
    (hl : PDescs.eopLast ps) (pv : PVal) (trig : Option Bytes) (hneed : pv.needFor ps ≤ modelFuel) (e : Err)
    (h : encodeMessage none (PDescs.toParams ps) pv trig true = .error e) :
    e = .encode ∨ e = .odx ∨ (e = .unmodelled ∧ pv.typedForP ps = false) := by
  rcases encodeMessage_nested_cases ps (fun p hp => (hd p hp).ok) hn hl pv trig hneed with
    ⟨_, e', hrun, he⟩ | ⟨c, _, _, pdu, w, hrun, _⟩
  · rw [hrun] at h
    cases h
    rcases he with (he | he) | he
    · exact Or.inl he
    · exact Or.inr (Or.inl he)
    · exact Or.inr (Or.inr he)
  · rw [hrun] at h; cases h

/-- **accepted ⇔ acceptable**: the strict encoder returns a PDU exactly for the values `acceptedByP` describes. -/
theorem C04_nested_accepts_iff (ps : List PDesc) (hd : ∀ p ∈ ps, DescribedP p) (hn : PDescs.namesOk ps)
    (hl : PDescs.eopLast ps) (pv : PVal) (trig : Option Bytes) (hneed : pv.needFor ps ≤ modelFuel) :
    (∃ r, encodeMessage none (PDescs.toParams ps) pv trig true = .ok r) ↔ pv.acceptedByP ps = true := by
  rcases encodeMessage_nested_cases ps (fun p hp => (hd p hp).ok) hn hl pv trig hneed with
    ⟨hf, e, hrun, _⟩ | ⟨c, hf, _, pdu, w, hrun, _⟩
  · rw [hrun, PVal.acceptedByP, hf]
    constructor
    · rintro ⟨r, h⟩; cases h
    · intro h; cases h
  · rw [hrun, PVal.acceptedByP, hf]
    exact ⟨fun _ => rfl, fun _ => ⟨_, rfl⟩⟩

/-! ## non-vacuity
    request = [ sid (CODED-CONST 0x2E);
                st : STRUCTURE { a; dv (default 0x55);
                                 sf : STATIC-FIELD, 2 items of { id; m : MULTIPLEXER (cases lo 2..3 {p} / hi 8..15 {q:16}, default {}) },
                                      ITEM-BYTE-SIZE 4 };
                df : DYNAMIC-LENGTH-FIELD (count: 3 bits — at most 7 items) of { x };
                pc (PHYS-CONST 0x99);
                rec : END-OF-PDU-FIELD of { id; v:16 } ] -/
def pu8 (n : String) : PDesc := PDesc.ofObjValue ⟨n, none, none, none, true, 8, .uint32⟩ (fun _ => true)
def pi16 (n : String) : PDesc := PDesc.ofObjValue ⟨n, none, none, none, true, 16, .int32⟩ (fun _ => true)

def nMux : MuxShape :=
  { muxBp := 1, swBp := 0, key := ⟨"", none, none, none, true, 8, .uint32⟩,
    cases := [⟨"lo", 2, 3, [pu8 "p"]⟩, ⟨"hi", 8, 15, [pi16 "q"]⟩], dflt := some ("other", []) }
def nSfItem : List PDesc := [pu8 "id", PDesc.ofValue "m" none (DDesc.mux nMux.toDesc)]
def nSf : PDesc := PDesc.ofValue "sf" none (DDesc.staticField 2 4 (DDesc.struct nSfItem))
def nSt : PDesc :=
  PDesc.ofValue "st" none (DDesc.struct
    [pu8 "a", PDesc.ofObjDefault ⟨"dv", none, none, none, true, 8, .uint32⟩ (.int 0x55) (fun _ => true), nSf])
def nDf : PDesc :=
  PDesc.ofValue "df" none (DDesc.dynLenField { offset := 1, cntBp := 0, cnt := ⟨"", none, none, none, true, 3, .uint32⟩ }
    (DDesc.struct [pu8 "x"]))
def nRec : PDesc := PDesc.ofValue "rec" none (DDesc.eopField none none (DDesc.struct [pu8 "id", pi16 "v"]))
def nDesc : List PDesc :=
  [PDesc.ofObjConst ⟨"sid", none, none, none, true, 8, .uint32⟩ (.int 0x2E), nSt, nDf,
   PDesc.ofObjPhysConst ⟨"pc", none, none, none, true, 8, .uint32⟩ (.int 0x99), nRec]

theorem described_pu8 (n : String) : DescribedP (pu8 n) :=
  DescribedP.value _ (by simp [Obj.ok, Obj.encOk, Obj.sizeOk]) (Or.inr rfl)
theorem described_pi16 (n : String) : DescribedP (pi16 n) :=
  DescribedP.value _ (by simp [Obj.ok, Obj.encOk, Obj.sizeOk, int32Known]) (Or.inl rfl)

theorem pnamesOk1 (a : PDesc) : PDescs.namesOk [a] := ⟨(fun _ h => nomatch h), trivial⟩
theorem pnamesOk2 (a b : PDesc) (h : a.name ≠ b.name) : PDescs.namesOk [a, b] :=
  ⟨fun u hu => by simp only [List.mem_cons, List.mem_nil_iff, or_false] at hu; subst hu; exact fun e => h e.symm, pnamesOk1 b⟩
theorem pforall1 {P : PDesc → Prop} (a : PDesc) (h : P a) : ∀ g ∈ [a], P g := by
  intro g hg; simp only [List.mem_cons, List.mem_nil_iff, or_false] at hg; subst hg; exact h
theorem pforall2 {α : Type} {P : α → Prop} (a b : α) (ha : P a) (hb : P b) : ∀ g ∈ [a, b], P g := by
  intro g hg; simp only [List.mem_cons, List.mem_nil_iff, or_false] at hg; rcases hg with rfl | rfl <;> assumption

theorem nMux_casesOk : nMux.toDesc.casesOk := by
  intro n c h
  simp only [MuxShape.toDesc, nMux, List.map, findCaseName, MuxShapeCase.toDesc] at h
  split at h
  · cases h
    exact ⟨_, by simp [MuxShape.toDesc, nMux, findCaseKey, MuxShapeCase.toDesc], rfl, rfl⟩
  · split at h
    · cases h
      exact ⟨_, by simp [MuxShape.toDesc, nMux, findCaseKey, MuxShapeCase.toDesc], rfl, rfl⟩
    · cases h

theorem nMux_described : DescribedP (PDesc.ofValue "m" none (DDesc.mux nMux.toDesc)) := by
  refine DescribedP.mux "m" none nMux ?_ ?_ ?_ ?_ ?_ (Or.inr rfl) nMux_casesOk
  · exact pforall2 _ _ (pforall1 _ (described_pu8 _)) (pforall1 _ (described_pi16 _))
  · exact pforall2 _ _ ⟨pnamesOk1 _, trivial⟩ ⟨pnamesOk1 _, trivial⟩
  · intro dn kids h
    simp only [nMux, Option.some.injEq, Prod.mk.injEq] at h
    rw [← h.2]
    intro p hp; cases hp
  · intro dn kids h
    simp only [nMux, Option.some.injEq, Prod.mk.injEq] at h
    rw [← h.2]
    exact ⟨trivial, trivial⟩
  · simp [MuxShape.toDesc, nMux, MuxDesc.keyObj, MuxDesc.layout, MuxLayout.keyObj, Obj.ok, Obj.encOk, Obj.sizeOk]

theorem nSf_described : DescribedP nSf :=
  DescribedP.staticField "sf" none 2 4 nSfItem (pforall2 _ _ (described_pu8 _) nMux_described)
    (pnamesOk2 _ _ (by decide)) rfl

theorem nSt_described : DescribedP nSt := by
  refine DescribedP.struct "st" none _ ?_ ?_ ⟨rfl, rfl, trivial⟩
  · intro g hg
    simp only [List.mem_cons, List.mem_nil_iff, or_false] at hg
    rcases hg with rfl | rfl | rfl
    · exact described_pu8 _
    · exact DescribedP.valueDefault _ _ (by simp [Obj.ok, Obj.encOk, Obj.sizeOk]) (Or.inr rfl) (by simp [Obj.inRange])
    · exact nSf_described
  · refine ⟨?_, ?_, pnamesOk1 _⟩
    · intro u hu
      simp only [List.mem_cons, List.mem_nil_iff, or_false] at hu
      rcases hu with rfl | rfl <;> decide
    · intro u hu
      simp only [List.mem_cons, List.mem_nil_iff, or_false] at hu
      subst hu
      decide

theorem nDf_described : DescribedP nDf :=
  DescribedP.dynLenField "df" none _ [pu8 "x"] (pforall1 _ (described_pu8 _)) (pnamesOk1 _) rfl (Nat.le_refl 1)
    (by simp [DynLayout.cntObj, Obj.ok, Obj.encOk, Obj.sizeOk]) (Or.inr rfl) (by decide)

theorem nRec_described : DescribedP nRec :=
  DescribedP.eopField "rec" none none none [pu8 "id", pi16 "v"] (pforall2 _ _ (described_pu8 _) (described_pi16 _))
    (pnamesOk2 _ _ (by decide)) rfl (Nat.le_refl 1)

theorem nDesc_described : ∀ p ∈ nDesc, DescribedP p := by
  intro g hg
  simp only [nDesc, List.mem_cons, List.mem_nil_iff, or_false] at hg
  rcases hg with rfl | rfl | rfl | rfl | rfl
  · exact DescribedP.const _ _ (by simp [Obj.ok, Obj.encOk, Obj.sizeOk]) (by simp [Obj.inRange])
  · exact nSt_described
  · exact nDf_described
  · exact DescribedP.physConst _ _ (by simp [Obj.ok, Obj.encOk, Obj.sizeOk]) (by simp [Obj.inRange])
  · exact nRec_described

theorem nDesc_names : PDescs.namesOk nDesc ∧ PDescs.eopLast nDesc := by
  refine ⟨?_, ⟨rfl, rfl, rfl, rfl, trivial⟩⟩
  simp [PDescs.namesOk, nDesc, PDesc.name, Param.name, PDesc.ofObjConst, Obj.toConstParam, nSt, nDf, nRec, PDesc.ofValue,
    PDesc.ofObjPhysConst]

/-- an accepted value: `sid`, `dv`, `pc` omitted; the two multiplexers selected by name and by switch key -/
def nGoodKvs : List (String × PVal) :=
        [("rec", .list [.dict [("id", .atom (.int 1)), ("v", .atom (.int (-2)))], .dict [("v", .atom (.int 300)), ("id", .atom (.int 2))]]),
         ("st", .dict [("a", .atom (.int 7)),
            ("sf", .list [.dict [("id", .atom (.int 1)), ("m", .pair "lo" (.dict [("p", .atom (.int 9))]))],
                          .dict [("id", .atom (.int 2)), ("m", .keyed 9 (.dict [("q", .atom (.int 0x1234))]))]])]),
         ("df", .list [.dict [("x", .atom (.int 0xA1))], .dict [("x", .atom (.int 0xA2))]])]
def nGood : PVal := .dict nGoodKvs

example : nGood.typedForP nDesc = true ∧ nGood.acceptedByP nDesc = true ∧ nGood.needFor nDesc ≤ modelFuel := by decide +kernel
/-- the PDU: sid, a, dv = default, item 1 (id, key 2, p, padding), item 2 (id, key 9, q), count 2, two items, pc, two records -/
example : (encodeMessage none (PDescs.toParams nDesc) nGood none true).toOption
    = some ([0x2E, 0x07, 0x55, 0x01, 0x02, 0x09, 0x00, 0x02, 0x09, 0x12, 0x34, 0x02, 0xA1, 0xA2, 0x99,
             0x01, 0xFF, 0xFE, 0x02, 0x01, 0x2C], 0) := by decide +kernel
/-- `hend`: the encoder's cursor ends at the end of the PDU -/
example : nGood.endCursor nDesc = 21 := by decide +kernel
/-- the completion of `nGood`: description order, constants and the default filled in, the multiplexer values as
    `(case name, content)` -/
def nExpect : PVal :=
  .dict [("sid", .atom (.int 0x2E)),
         ("st", .dict [("a", .atom (.int 7)), ("dv", .atom (.int 0x55)),
            ("sf", .list [.dict [("id", .atom (.int 1)), ("m", .pair "lo" (.dict [("p", .atom (.int 9))]))],
                          .dict [("id", .atom (.int 2)), ("m", .pair "hi" (.dict [("q", .atom (.int 0x1234))]))]])]),
         ("df", .list [.dict [("x", .atom (.int 0xA1))], .dict [("x", .atom (.int 0xA2))]]),
         ("pc", .atom (.int 0x99)),
         ("rec", .list [.dict [("id", .atom (.int 1)), ("v", .atom (.int (-2)))], .dict [("id", .atom (.int 2)), ("v", .atom (.int 300))]])]
example : pvalEq (.dict (PDescs.complete nDesc nGoodKvs)) nExpect = true := by decide +kernel
/-- … and the model's decoder returns it -/
example : (match decodeMessage none (PDescs.toParams nDesc)
      [0x2E, 0x07, 0x55, 0x01, 0x02, 0x09, 0x00, 0x02, 0x09, 0x12, 0x34, 0x02, 0xA1, 0xA2, 0x99,
       0x01, 0xFF, 0xFE, 0x02, 0x01, 0x2C] true with
    | .ok (v, cursor) => pvalEq v nExpect && cursor == 21
    | .error _ => false) = true := by decide +kernel

/-- every kind of malformed value, at several depths, with its error class (each one satisfies `typedForP`) -/
def nBad : List (PVal × Err) :=
  let i (n : Int) : PVal := .atom (.int n)
  let item (id m : PVal) : PVal := .dict [("id", id), ("m", m)]
  let lo (p : PVal) : PVal := .pair "lo" (.dict [("p", p)])
  let st (sf : PVal) : PVal := .dict [("a", i 7), ("sf", sf)]
  let top (stv df rec : PVal) : PVal := .dict [("st", stv), ("df", df), ("rec", rec)]
  let okSt : PVal := st (.list [item (i 1) (lo (i 9)), item (i 2) (lo (i 8))])
  let okDf : PVal := .list [.dict [("x", i 1)]]
  let okRec : PVal := .list []
  [ (.list [], .encode),                                                                        -- not a dictionary at all
    (top (i 5) okDf okRec, .encode),                                                            -- an atom for a structure
    (top (st (i 5)) okDf okRec, .odx),                                                          -- an atom for a static field
    (top (st (.dict [])) okDf okRec, .odx),                                                     -- a dictionary for a static field
    (top (st (.list [item (i 1) (lo (i 9))])) okDf okRec, .odx),                                -- one item instead of two
    (top (st (.list [item (i 1) (lo (i 9)), i 3])) okDf okRec, .encode),                        -- an atom for an item
    (top (st (.list [item (i 1) (lo (i 9)), item (i 256) (lo (i 8))])) okDf okRec, .encode),    -- out of range, inside the 2nd item
    (top (st (.list [item (i 1) (lo (i 9)), item (i 2) (lo (i (-1)))])) okDf okRec, .odx),      -- negative, inside a case of the 2nd item
    (top (st (.list [item (i 1) (lo (i 9)), item (i 2) (.pair "nope" (.dict []))])) okDf okRec, .encode),   -- unknown case name
    (top (st (.list [item (i 1) (lo (i 9)), item (i 2) (.keyed 300 (.dict []))])) okDf okRec, .encode),     -- key the 8-bit key object cannot hold
    (top (st (.list [item (i 1) (lo (i 9)), item (i 2) (i 4)])) okDf okRec, .encode),           -- an atom for a multiplexer
    (top (st (.list [item (i 1) (lo (i 9)), item (i 2) (.pair "lo" (.dict []))])) okDf okRec, .encode),     -- missing inside a case
    (top (st (.list [item (i 1) (lo (i 9)), item (i 2) (.pair "lo" (.dict [("p", i 1), ("zz", i 0)]))])) okDf okRec, .odx),  -- unknown name inside a case
    (top okSt (i 1) okRec, .encode),                                                            -- an atom for a dynamic field
    (top okSt (.list (List.replicate 8 (.dict [("x", i 1)]))) okRec, .encode),                  -- 8 items, the count has 3 bits
    (top okSt (.list [.dict [("x", i 1)], .dict [("x", .atom (.str [0x41]))]]) okRec, .encode), -- wrong Python type in the 2nd item
    (top okSt okDf (.dict []), .encode),                                                        -- a dictionary for an END-OF-PDU-FIELD
    (top okSt okDf (.list [.dict [("id", i 1), ("v", i 32768)]]), .encode),                     -- out of range inside a record
    (top okSt okDf (.list [.dict [("id", i 1)]]), .encode),                                     -- missing inside a record
    (.dict [("st", okSt), ("df", okDf)], .encode),                                              -- missing END-OF-PDU-FIELD
    (.dict [("st", okSt), ("df", okDf), ("rec", okRec), ("pc", i 0x98)], .encode),              -- wrong PHYS-CONST
    (.dict [("st", okSt), ("df", okDf), ("rec", okRec), ("sid", .list [])], .encode),           -- a list for a constant
    (.dict [("st", .dict [("a", i 7), ("sf", .list [item (i 1) (lo (i 9)), item (i 2) (lo (i 8))]), ("dv", .atom (.str []))]),
            ("df", okDf), ("rec", okRec)], .encode) ]                                           -- wrong type for a defaulted VALUE

example : nBad.all (fun p => p.1.typedForP nDesc && decide (p.1.needFor nDesc ≤ modelFuel) && p.1.acceptedByP nDesc == false &&
    errClass (encodeMessage none (PDescs.toParams nDesc) p.1 none true) == some p.2) = true := by decide +kernel

/-- the `typedForP` hypothesis is what it excludes: a `str` atom for a field, a list for a multiplexer, a float for an integer
    constant are `unmodelled` -/
example : let i (n : Int) : PVal := .atom (.int n)
    let st : PVal := .dict [("a", i 7), ("sf", .list [.dict [("id", i 1), ("m", .list [i 2, .dict []])], .dict [("id", i 2), ("m", .nokey (.dict []))]])]
    let pv1 : PVal := .dict [("st", st), ("df", .list []), ("rec", .list [])]
    let pv2 : PVal := .dict [("st", i 0), ("df", .atom (.str [0x41])), ("rec", .list [])]
    pv1.typedForP nDesc = false ∧ errClass (encodeMessage none (PDescs.toParams nDesc) pv1 none true) = some .unmodelled ∧
    pv2.typedForP nDesc = false := by decide +kernel

/-- the theorem applies to the example -/
example : ∃ cursor, decodeMessage none (PDescs.toParams nDesc)
    [0x2E, 0x07, 0x55, 0x01, 0x02, 0x09, 0x00, 0x02, 0x09, 0x12, 0x34, 0x02, 0xA1, 0xA2, 0x99,
     0x01, 0xFF, 0xFE, 0x02, 0x01, 0x2C] true = .ok (.dict (PDescs.complete nDesc nGoodKvs), cursor) := by
  rcases C04_nested_partial nDesc nDesc_described nDesc_names.1 nDesc_names.2 nGood none (by decide +kernel) (by decide +kernel) with
    ⟨e, he, _⟩ | ⟨kvs, pdu, w, hkvs, _, henc, hrt⟩
  · have : (encodeMessage none (PDescs.toParams nDesc) nGood none true).toOption = none := by rw [he]; rfl
    exact absurd this (by decide +kernel)
  · have h2 : (encodeMessage none (PDescs.toParams nDesc) nGood none true).toOption = some (pdu, w) := by rw [henc]; rfl
    have h4 : (encodeMessage none (PDescs.toParams nDesc) nGood none true).toOption
        = some ([0x2E, 0x07, 0x55, 0x01, 0x02, 0x09, 0x00, 0x02, 0x09, 0x12, 0x34, 0x02, 0xA1, 0xA2, 0x99,
                 0x01, 0xFF, 0xFE, 0x02, 0x01, 0x2C], 0) := by decide +kernel
    rw [h2] at h4
    simp only [Option.some.injEq, Prod.mk.injEq] at h4
    obtain ⟨hp, hw⟩ := h4
    subst hp
    cases hkvs
    obtain ⟨cursor, hdec⟩ := hrt hw (fun _ => by decide +kernel)
    exact ⟨cursor, hdec⟩

end OdxVerif.Codec
