import OdxVerif.Proofs.AtomicRT
import OdxVerif.Spec.NumRepr
import OdxVerif.Proofs.FlatBits
import OdxVerif.Proofs.Flatten
/-! # C02 — encoded PDUs are bit-exact with the ODX wire format
    Tier proved here: **atomic objects** (every `A_INT32` encoding, every bit length 1…64, bit position,
    byte order, arbitrary surrounding message). The composite tiers (positions relative to the enclosing
    structure, keys, fields) are covered by the executable model `Model/Codec.lean` + correspondence and
    by the positional reference interpreter of the harness; they are not yet theorems — hence `_partial`
    in the names that would otherwise claim the full statement. -/
namespace OdxVerif.Codec
open OdxVerif.Bits OdxVerif.OdxM

theorem representable_iff (enc : Option Enc) (bl : Nat) (v : Int) :
    Spec.representable enc bl v ↔ int32InRange enc bl v := Iff.rfl

/-- the encoder's raw value is the ODX representation -/
theorem C02_numrepr (enc : Option Enc) (hk : int32Known enc = true) (bl : Nat) (hbl : 1 ≤ bl) (v : Int)
    (hr : Spec.representable enc bl v) : (int32Raw enc bl v).toNat = Spec.repr enc bl v := by
  have hp : (2:Int) ^ bl = 2 * 2 ^ (bl - 1) := pow_pred_double bl hbl
  have hpn : (2:Nat) ^ bl = 2 * 2 ^ (bl - 1) := by
    have : bl = (bl - 1) + 1 := by omega
    conv => lhs; rw [this, Nat.pow_succ]
    omega
  have hpos : (0:Int) < 2 ^ (bl - 1) := Int.pow_pos (by decide)
  have hc1 : ((2 ^ (bl - 1) : Nat) : Int) = (2:Int) ^ (bl - 1) := by simp
  have hc2 : ((2 ^ bl : Nat) : Int) = (2:Int) ^ bl := by simp
  have h1 : bl > 0 := by omega
  unfold int32Known at hk
  simp only [Bool.or_eq_true, decide_eq_true_eq] at hk
  rcases hk with ((rfl | rfl) | rfl) | rfl
  all_goals
    simp only [Spec.representable, Spec.repr, int32Raw, h1, if_true, Option.some.injEq, reduceCtorEq, or_true,
      or_false, if_false, true_or] at hr ⊢
  all_goals
    by_cases hv : v ≥ 0 <;> simp only [hv, if_true, if_false]
  · have : v % 2 ^ bl = v := Int.emod_eq_of_lt (by omega) (by omega)
    rw [this]
  · have : v % 2 ^ bl = v + 2 ^ bl := by
      rw [← Int.add_mul_emod_self_left v (2 ^ bl) 1, Int.mul_one]
      exact Int.emod_eq_of_lt (by omega) (by omega)
    rw [this]; omega
  · omega
  · have : v % 2 ^ bl = v := Int.emod_eq_of_lt (by omega) (by omega)
    rw [this]
  · have : v % 2 ^ bl = v + 2 ^ bl := by
      rw [← Int.add_mul_emod_self_left v (2 ^ bl) 1, Int.mul_one]
      exact Int.emod_eq_of_lt (by omega) (by omega)
    rw [this]; omega
  · omega

/-- **Bit-exact placement of an atomic object.** After the strict encoder has placed a representable
    `A_INT32` value at byte `pos = cursor`, bit position `bp`, in `k = ⌈(bl+bp)/8⌉` bytes:
    bit `j` of the ODX representation sits at absolute bit `absBit pos k hl (j+bp)` — byte
    `pos + k-1-(j+bp)/8` for high-low, `pos + (j+bp)/8` for low-high byte order, bit `(j+bp) % 8`;
    every other bit of those `k` bytes and every other byte of the message keeps its previous value
    (bytes beyond the old end are zero). -/
theorem C02_atomic_layout (enc : Option Enc) (hk : int32Known enc = true) (bl : Nat) (hbl : 1 ≤ bl) (hbl64 : bl ≤ 64) (v : Int)
    (hr : Spec.representable enc bl v) (hl : Bool) (s : EncState) :
    ∃ s', emplaceAtomic (.int v) bl .int32 enc hl none s true = .ok ((), s') ∧
      (∀ j, j < bl → getBit s'.msg (absBit s.cursorByte ((bl + s.cursorBit + 7) / 8) hl (j + s.cursorBit))
                      = (Spec.repr enc bl v).testBit j) ∧
      (∀ t, t < 8 * ((bl + s.cursorBit + 7) / 8) → ¬ (s.cursorBit ≤ t ∧ t < s.cursorBit + bl) →
          getBit s'.msg (absBit s.cursorByte ((bl + s.cursorBit + 7) / 8) hl t)
            = getBit s.msg (absBit s.cursorByte ((bl + s.cursorBit + 7) / 8) hl t)) ∧
      (∀ i, i < s.cursorByte ∨ s.cursorByte + (bl + s.cursorBit + 7) / 8 ≤ i → s'.msg.getD i 0 = s.msg.getD i 0) := by
  obtain ⟨s', he, hm, _, _⟩ := emplaceAtomic_int32 enc hk bl hbl hbl64 v hr hl s
  refine ⟨s', he, ?_, ?_, ?_⟩
  · intro j hj
    rw [hm, getBit_place_inside _ _ _ _ _ _ _ (by omega), Nat.testBit_mul_two_pow, Nat.testBit_mul_two_pow,
      Nat.testBit_two_pow_sub_one, C02_numrepr enc hk bl hbl v hr]
    simp [hj]
  · intro t ht hnot
    rw [hm, getBit_place_inside _ _ _ _ _ _ _ ht, Nat.testBit_mul_two_pow, Nat.testBit_two_pow_sub_one]
    by_cases h1 : s.cursorBit ≤ t
    · have : ¬ (t - s.cursorBit < bl) := by omega
      simp [h1, this]
    · simp [h1]
  · intro i hi
    rw [hm, getD_place_outside _ _ _ _ (by simp [ord_length, toBytesBE_length]) i
      (by rw [ord_length, toBytesBE_length]; exact hi)]

/-- decoding reads the same bits back (atomic tier): the strict decoder at the same position returns the value -/
theorem C02_decode_reads (enc : Option Enc) (hk : int32Known enc = true) (bl : Nat) (hbl : 1 ≤ bl) (hbl64 : bl ≤ 64) (v : Int)
    (hr : Spec.representable enc bl v) (hl : Bool) (s : EncState) (hmsg : AllBytes s.msg) :
    ∃ s', emplaceAtomic (.int v) bl .int32 enc hl none s true = .ok ((), s') ∧
      extractAtomic bl .int32 enc hl { msg := s'.msg, cursorByte := s.cursorByte, cursorBit := s.cursorBit } true =
        .ok (.int v, { msg := s'.msg, cursorByte := s'.cursorByte, cursorBit := 0 }) := by
  obtain ⟨s', h1, _, h3⟩ := atomic_int32_roundtrip enc hk bl hbl hbl64 v hr hl s hmsg
  exact ⟨s', h1, h3⟩

/-- the ODX representation of an internal value in the object's base type / encoding / bit length, as
    mathematics: `Spec.repr` for `A_INT32`, the plain binary numeral for `A_UINT32`, the IEEE-754 binary64 pattern
    for `A_FLOAT64` (values *are* their patterns in this model), the bytes read as one big-endian numeral for
    `A_BYTEFIELD` (first byte = most significant = lowest address); `A_FLOAT32`: the binary32 pattern of the same number
    (`Text.f64to32?`: sign, exponent re-biased by −896, the 23 leading fraction bits — exact on the kind's values, and inverted
    by the widening `Text.f32to64?`: `Text.f32to64_f64to32`); `A_UTF8STRING`: the UTF-8 encoding of the code points (RFC 3629
    shortest forms, `Text.utf8Enc1`; inverted by the strict decoder: `Text.utf8_decode_encode`) read as one big-endian numeral;
    `A_UNICODE2STRING`: likewise with UTF-16BE code units (surrogate pairs above U+FFFF; `Text.utf16_decode_encode`);
    `A_UINT32` with BCD-P / BCD-UP: decimal digit `i` of the value in bits `[s·i, s·i + 4)`, `s` = 4 / 8 (`bcdEnc_digit`) -/
def Obj.specRepr (o : Obj) (v : IVal) : Nat :=
  match o.kind, v with
  | .int32, .int i => Spec.repr o.enc o.bl i
  | .uint32, .int i => i.toNat
  | .float64, .flt b => b
  | .bytes, .bytes b => b.foldl (fun acc x => 256 * acc + x) 0
  | .ascii, .str cps => cps.foldl (fun acc x => 256 * acc + x) 0          -- ISO-8859-1: one byte per character
  | .float32, .flt b => (Text.f64to32? b).getD 0
  | .utf8, .str cps => ((Text.encode .utf8 cps).getD []).foldl (fun acc x => 256 * acc + x) 0
  | .unicode2, .str cps => ((Text.encode .utf16be cps).getD []).foldl (fun acc x => 256 * acc + x) 0
  | .bcd, .int i => bcdEnc o.bcdShift i.toNat i.toNat
  | _, _ => 0

theorem foldl_eq_ofBytesBE (b : Bytes) (acc : Nat) :
    b.foldl (fun acc x => 256 * acc + x) acc = acc * 256 ^ b.length + ofBytesBE b := by
  induction b generalizing acc with
  | nil => simp [ofBytesBE]
  | cons x xs ih =>
    simp only [List.foldl_cons, ih, ofBytesBE, List.length_cons, Nat.pow_succ]
    have e : (256 * acc + x) * 256 ^ xs.length = acc * (256 ^ xs.length * 256) + x * 256 ^ xs.length := by
      rw [Nat.add_mul, Nat.mul_comm 256 acc, Nat.mul_assoc, Nat.mul_comm 256]
    omega

theorem Obj.raw_eq_spec (o : Obj) (ho : o.ok) (v : IVal) (hr : o.inRange v) : o.raw v = o.specRepr v := by
  obtain ⟨hk, hbl, _⟩ := ho
  unfold Obj.inRange at hr
  unfold Obj.encOk at hk
  unfold Obj.raw Obj.specRepr
  cases hkind : o.kind <;> cases v <;> simp only [hkind] at hr hk ⊢
  · exact C02_numrepr o.enc hk o.bl hbl _ hr
  · rw [foldl_eq_ofBytesBE]; simp
  · rw [foldl_eq_ofBytesBE]; simp
  · rw [foldl_eq_ofBytesBE]; simp
  · rw [foldl_eq_ofBytesBE]; simp

/-- **Bit-exact PDUs, flat composite tier.** For a request/response/structure made of (≤ 4000) positioned
    VALUE parameters (`A_INT32` in any of its four encodings, `A_UINT32`, `A_FLOAT64`, `A_BYTEFIELD`, `A_ASCIISTRING`, `A_FLOAT32`, `A_UTF8STRING`, `A_UNICODE2STRING`, `A_UINT32` in BCD-P / BCD-UP) and an accepted assignment of representable values with no overlap warning:
    (1) bit `j` of the ODX representation of each value sits at the absolute position the positional rule gives —
    the object's byte position is the structure's origin (0) + BYTE-POSITION, or the byte behind the previous
    parameter (`cursorAfter`), its bit position is BIT-POSITION, its byte order as declared;
    (2) every bit no object claims is zero. Together: each bit of the PDU equals what the ODX rules prescribe. -/
theorem C02_bit_exact_flat (ovs : List (Obj × IVal)) (hlen : ovs.length ≤ 4000) (values : List (String × PVal))
    (trig : Option Bytes)
    (hok : ∀ ov ∈ ovs, ov.1.ok ∧ ov.1.inRange ov.2)
    (hlook : ∀ ov ∈ ovs, lookup ov.1.name values = some (.atom ov.2))
    (hknown : values.any (fun kv => !((ovs.map fun ov => ov.1.toParam).any fun p => p.name == kv.1)) = false)
    (pdu : Bytes)
    (henc : encodeMessage none (ovs.map fun ov => ov.1.toParam) (.dict values) trig true = .ok (pdu, 0)) :
    (∀ pre o v post, ovs = pre ++ (o, v) :: post → ∀ j, j < o.bl →
        getBit pdu (absBit (o.pos 0 (cursorAfter 0 (pre.map (·.1)) 0)) o.k o.hl (j + o.bp)) = (o.specRepr v).testBit j) ∧
    (∀ a, (∀ pre o v post, ovs = pre ++ (o, v) :: post → ¬ o.claims (o.pos 0 (cursorAfter 0 (pre.map (·.1)) 0)) a) →
        getBit pdu a = false) := by
  obtain ⟨s0, hm, _, hw, hc, ho, hrun⟩ := encodeMessage_flat ovs hlen values trig hok hlook hknown
  rw [hrun] at henc
  simp only [Except.ok.injEq, Prod.mk.injEq] at henc
  obtain ⟨hpdu, hwarn⟩ := henc
  constructor
  · intro pre o v post heq j hj
    have hmem : (o, v) ∈ ovs := by rw [heq]; simp
    obtain ⟨hoo, hr⟩ := hok (o, v) hmem
    have := flat_described pre post o v s0 (by rw [← heq, hwarn, hw]) j hj
    rw [← heq, hpdu, ho, hc] at this
    rw [this, o.raw_eq_spec hoo v hr]
  · intro a ha
    have := flat_undescribed ovs s0 a (by rw [ho, hc]; exact ha)
    rw [hpdu, hm] at this
    rw [this]
    simp [getBit]

/-- membership in the flattening keeps the leaf's well-formedness and value range -/
theorem Obj.at_ok (o : Obj) (p : Nat) (h : o.ok) : (o.at p).ok := h
theorem Obj.at_inRange (o : Obj) (p : Nat) (v : IVal) (h : o.inRange v) : (o.at p).inRange v := h

mutual
theorem Tree.flat_ok : (t : Tree) → t.okAll → ∀ (org cur : Nat), ∀ ov ∈ (t.flat org cur).1, ov.1.ok ∧ ov.1.inRange ov.2
  | .int o v, h, org, cur => by
    simp only [Tree.okAll] at h
    intro ov hov
    simp only [Tree.flat, List.mem_singleton] at hov
    subst hov
    exact ⟨Obj.at_ok o _ h.1, Obj.at_inRange o _ v h.2⟩
  | .const o v, h, org, cur => by
    simp only [Tree.okAll] at h
    intro ov hov
    simp only [Tree.flat, List.mem_singleton] at hov
    subst hov
    exact ⟨Obj.at_ok o _ h.1, Obj.at_inRange o _ v h.2⟩
  | .struct _ bp kids, h, org, cur => by
    simp only [Tree.okAll] at h
    simp only [Tree.flat]
    exact Trees.flat_ok kids h _ _
theorem Trees.flat_ok : (ts : List Tree) → Trees.okAll ts → ∀ (org cur : Nat), ∀ ov ∈ (Trees.flat ts org cur).1, ov.1.ok ∧ ov.1.inRange ov.2
  | [], _, _, _ => by intro ov hov; simp [Trees.flat] at hov
  | t :: ts, h, org, cur => by
    simp only [Trees.okAll] at h
    intro ov hov
    simp only [Trees.flat, List.mem_append] at hov
    rcases hov with hov | hov
    · exact Tree.flat_ok t h.1 org cur ov hov
    · exact Trees.flat_ok ts h.2 org _ ov hov
end

mutual
theorem Tree.flat_explicit : (t : Tree) → ∀ (org cur : Nat), ∀ ov ∈ (t.flat org cur).1, ov.1.bytePos.isSome = true
  | .int o v, org, cur => by intro ov h; simp only [Tree.flat, List.mem_singleton] at h; subst h; rfl
  | .const o v, org, cur => by intro ov h; simp only [Tree.flat, List.mem_singleton] at h; subst h; rfl
  | .struct _ bp kids, org, cur => by simp only [Tree.flat]; exact Trees.flat_explicit kids _ _
theorem Trees.flat_explicit : (ts : List Tree) → ∀ (org cur : Nat), ∀ ov ∈ (Trees.flat ts org cur).1, ov.1.bytePos.isSome = true
  | [], _, _ => by intro ov hov; simp [Trees.flat] at hov
  | t :: ts, org, cur => by
    intro ov hov
    simp only [Trees.flat, List.mem_append] at hov
    rcases hov with hov | hov
    · exact Tree.flat_explicit t org cur ov hov
    · exact Trees.flat_explicit ts org _ ov hov
end

/-- **Bit-exact PDUs, nested-structure tier.** `Trees.flat ts 0 0` lists the leaves of a request/response built
    from VALUE / CODED-CONST parameters and arbitrarily nested structures, each with the absolute byte position
    the ODX positional rule gives it (BYTE-POSITION relative to the first byte of the *enclosing structure*, or
    the byte behind the previous sibling — `Tree.flat`). If `Request.encode` returns a PDU without an overlap
    warning then (1) bit `j` of the ODX representation of every leaf's value sits at that leaf's absolute position,
    bit position and byte order, and (2) every bit that no leaf claims is zero. -/
theorem C02_bit_exact_struct (ts : List Tree) (hneed : Trees.need ts + 2 ≤ modelFuel) (hok : Trees.okAll ts)
    (hn : Trees.namesOk ts) (trig : Option Bytes) (pdu : Bytes)
    (henc : encodeMessage none (Trees.toParams ts) (.dict (Trees.pair ts).val) trig true = .ok (pdu, 0)) :
    (∀ pre o v post, (Trees.flat ts 0 0).1 = pre ++ (o, v) :: post → ∀ j, j < o.bl →
        getBit pdu (absBit (o.pos 0 0) o.k o.hl (j + o.bp)) = (o.specRepr v).testBit j) ∧
    (∀ a, (∀ pre o v post, (Trees.flat ts 0 0).1 = pre ++ (o, v) :: post → ¬ o.claims (o.pos 0 0) a) →
        getBit pdu a = false) := by
  obtain ⟨s0, hm, _, hw, hc, ho, hrun⟩ := encodeMessage_tree_flat ts hneed hok hn trig
  rw [hrun] at henc
  simp only [Except.ok.injEq, Prod.mk.injEq] at henc
  obtain ⟨hpdu, hwarn⟩ := henc
  -- every flattened leaf has an explicit position: its position does not depend on the cursor
  have hexp : ∀ ov ∈ (Trees.flat ts 0 0).1, ∀ c c', ov.1.pos 0 c = ov.1.pos 0 c' := by
    intro ov hov c c'
    have := Trees.flat_explicit ts 0 0 ov hov
    unfold Obj.pos
    cases hb : ov.1.bytePos with
    | none => rw [hb] at this; cases this
    | some b => rfl
  constructor
  · intro pre o v post heq j hj
    have hmem : (o, v) ∈ (Trees.flat ts 0 0).1 := by rw [heq]; simp
    obtain ⟨hoo, hr⟩ := Trees.flat_ok ts hok 0 0 (o, v) hmem
    have := flat_described pre post o v s0 (by rw [← heq, hwarn, hw]) j hj
    rw [← heq, hpdu, ho] at this
    rw [hexp (o, v) hmem 0 (cursorAfter 0 (pre.map (·.1)) s0.cursorByte), this, o.raw_eq_spec hoo v hr]
  · intro a ha
    have := flat_undescribed (Trees.flat ts 0 0).1 s0 a (by
      intro pre o v post heq
      have hmem : (o, v) ∈ (Trees.flat ts 0 0).1 := by rw [heq]; simp
      rw [ho, ← hexp (o, v) hmem 0]
      exact ha pre o v post heq)
    rw [hpdu, hm] at this
    rw [this]
    simp [getBit]

/-! non-vacuity: −5 as a 12-bit two's-complement object at bit position 3, low-high byte order, into a
    message that already holds `00 ff` -/
example : Spec.representable none 12 (-5) := by simp [Spec.representable]
example : (emplaceAtomic (.int (-5)) 12 .int32 none false none { msg := [0, 0xff], used := [0, 0], cursorBit := 3 } true).toOption.map (·.2.msg)
            = some [0xd8, 0xff] := by decide

end OdxVerif.Codec
