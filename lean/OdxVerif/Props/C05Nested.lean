import OdxVerif.Props.C05
import OdxVerif.Proofs.CompTruncAll
/-! # C05, nested tier — a PDU that ends before an object the decoder has to read is rejected; nothing is invented
    For EVERY description of the model (structures with and without BYTE-SIZE, STATIC- / DYNAMIC-LENGTH- / END-OF-PDU- /
    DYNAMIC-ENDMARKER-FIELDs, multiplexers, nested arbitrarily; all parameter kinds; standard-length, MIN-MAX, LEADING-LENGTH and
    PARAM-LENGTH objects; DTC-DOPs; any compu method), EVERY message and BOTH modes.
    `MsgReads st bs ps msg a b` (`Proofs/CompTrunc.lean`, relation `Reads`): decoding `msg` reaches the extraction of an atomic
    object that occupies the bytes `a … b-1`.  What is read is determined by the description and the message *prefix*: an
    object behind a parameter / item / count / switch key is only reached if everything in front of it decoded, and the counts
    and switch keys found in the message select what follows.  Cursor jumps (BYTE-POSITION, OFFSET, ITEM-BYTE-SIZE, BYTE-SIZE)
    are not reads: the two open findings `dynlen-empty-before-offset` / `static-field-padding-behind-pdu-end` (a cursor that is
    moved behind the end of the PDU without any object there) are outside `MsgReads` — see `C05_jump_is_not_a_read`. -/
namespace OdxVerif.Codec
open OdxVerif.OdxM OdxVerif.Bits

/-- `Request.decode(msg)` / `Response.decode(msg)` / a stand-alone structure: the decoder has to read an atomic object at the
    bytes `a ≤ … < b` of the message -/
def MsgReads (st : Bool) (bs : Option Nat) (ps : List Param) (msg : Bytes) (a b : Nat) : Prop :=
  ∃ dr bl, Reads st modelFuel (.dop (.struct bs ps)) { msg := msg } dr bl ∧ a = dr.cursorByte ∧ b = dr.readEnd bl

/-- **Truncated PDUs are rejected (nested tier, API level of the model).**  If the message ends before the last byte of an
    object the decoder has to read, `decode` raises `DecodeError` — in strict and in lenient mode; no enclosing structure,
    field or multiplexer swallows the error or completes the PDU. -/
theorem C05_truncated_rejected_nested (st : Bool) (bs : Option Nat) (ps : List Param) (msg : Bytes) (a b : Nat)
    (hread : MsgReads st bs ps msg a b) (hshort : msg.length < b) :
    decodeMessage bs ps msg st = .error .decode := by
  obtain ⟨dr, bl, hr, _, rfl⟩ := hread
  have hmsg : dr.msg = msg := Reads.msg st _ _ _ dr bl hr
  obtain ⟨d', h⟩ := Reads.rejected st _ _ _ dr bl hr (by rw [hmsg]; exact hshort)
  unfold decodeMessage
  rw [h]

/-- **No invented values (nested tier).**  If `decode` returns a value, every atomic object that was read on the way lies
    completely inside the message. -/
theorem C05_no_invention_nested (st : Bool) (bs : Option Nat) (ps : List Param) (msg : Bytes) (v : PVal) (c : Nat)
    (hok : decodeMessage bs ps msg st = .ok (v, c)) (a b : Nat) (hread : MsgReads st bs ps msg a b) : b ≤ msg.length := by
  apply Classical.byContradiction
  intro hb
  have := C05_truncated_rejected_nested st bs ps msg a b hread (by omega)
  rw [this] at hok
  cases hok

/-- the same at every level of nesting: any decoding function of the model (`site`: a DOP, a parameter, a parameter list, an
    item loop …) started anywhere in a message raises `DecodeError` if an object it has to read is cut off -/
theorem C05_truncated_rejected_site (st : Bool) (fuel : Nat) (site : Site) (d dr : DecState) (bl : Nat)
    (hread : Reads st fuel site d dr bl) (hshort : d.msg.length < dr.readEnd bl) : site.Rejects st fuel d :=
  Reads.rejected st fuel site d dr bl hread (by rw [Reads.msg st fuel site d dr bl hread]; exact hshort)

/-- every result of `decode` is a value or one of the library's error classes (`C05_error_classes`): `DecodeError` /
    `DecodeMismatch`, a plain `OdxError` about an ill-formed description, or the model gives up -/
theorem C05_nested_result_classes (st : Bool) (bs : Option Nat) (ps : List Param) (msg : Bytes) :
    (∃ v c, decodeMessage bs ps msg st = .ok (v, c)) ∨ (∃ e, decodeMessage bs ps msg st = .error e ∧ DecErr e) := by
  cases h : decodeMessage bs ps msg st with
  | ok r => exact .inl ⟨r.1, r.2, rfl⟩
  | error e => exact .inr ⟨e, rfl, C05_error_classes bs ps msg st e h⟩

/-! ### non-vacuity -/

def u8 : Dop := .simple (.std .uint32 none true 8 none false) .uint32 .identical
def u16 : Dop := .simple (.std .uint32 none true 16 none false) .uint32 .identical
/-- item structure {a : 8 bit, b : 16 bit} -/
def exItem : Dop := .struct none [.mk "a" none none (.value u8 none), .mk "b" none none (.value u16 none)]
/-- request = [sid : CODED-CONST 0x22, f : DYNAMIC-LENGTH-FIELD (count: 8 bit at byte 0, OFFSET 1) of exItem] -/
def exReq : List Param :=
  [.mk "sid" none none (.codedConst (.std .uint32 none true 8 none false) (.int 0x22)),
   .mk "f" none none (.value (.dynLenField 1 0 0 u8 exItem) none)]

/-- `22 02 | 0a 0b0c | 1a 1b` — the count says two items, the second item's `b` (bytes 6 … 7) is cut off after one byte:
    the decoder has to read it (the count and the first item decode) … -/
theorem exReq_reads : MsgReads true none exReq [0x22, 0x02, 0x0a, 0x0b, 0x0c, 0x1a, 0x1b] 6 8 := by
  refine ⟨{ msg := [0x22, 0x02, 0x0a, 0x0b, 0x0c, 0x1a, 0x1b], origin := 5, cursorByte := 6 }, 16, ?_, rfl, rfl⟩
  show Reads true (4095 + 1) _ _ _ _
  refine .struct _ _ _ _ _ _ (.composite _ _ _ _ _ (.paramsTail _ _ _ _ _ _ _ _ rfl (.paramsHead _ _ _ _ _ _
    (.value _ _ _ _ _ _ _ _ _ (.dynItems _ _ _ _ _ _ _ _ _ 2 _ rfl rfl (by decide) ?_)))))
  refine .nTail _ _ _ _ _ _ _ _ rfl (by decide) (.nHead _ _ _ _ _ _ (.struct _ _ _ _ _ _ (.composite _ _ _ _ _
    (.paramsTail _ _ _ _ _ _ _ _ rfl (.paramsHead _ _ _ _ _ _ (.value _ _ _ _ _ _ _ _ _ (.simple _ _ _ _ _ _ _
      (.std _ _ _ _ _ _ _ _ ⟨by decide, by decide, by decide⟩))))))))

/-- … so the PDU is rejected with `DecodeError` (checked against the theorem and by evaluation) -/
example : decodeMessage none exReq [0x22, 0x02, 0x0a, 0x0b, 0x0c, 0x1a, 0x1b] true = .error .decode :=
  C05_truncated_rejected_nested true none exReq _ 6 8 exReq_reads (by decide)
example : isDecodeError (decodeMessage none exReq [0x22, 0x02, 0x0a, 0x0b, 0x0c, 0x1a, 0x1b] true) = true := by decide +kernel

/-- request = [f : DYNAMIC-LENGTH-FIELD (count: 8 bit at byte 0, OFFSET 2) of exItem] -/
def exJump : List Param := [.mk "f" none none (.value (.dynLenField 2 0 0 u8 exItem) none)]

theorem exJump_decodes : decodeMessage none exJump [0x00] true = .ok (.dict [("f", .list [])], 2) := by rfl

/-- **Consistency with the open findings `dynlen-empty-before-offset` / `static-field-padding-behind-pdu-end`**
    (`C03_empty_dynlen_before_offset_counterexample`): the one-byte PDU `00` (count 0) is accepted and the decoder's cursor ends
    at OFFSET = 2, behind the end of the message — a cursor *jump*, not a read: the only object that is read (the count, byte 0)
    lies inside the message, as `C05_no_invention_nested` demands; no value is made up from the missing byte. -/
theorem C05_jump_is_not_a_read :
    (∃ v, decodeMessage none exJump [0x00] true = .ok (v, 2)) ∧ MsgReads true none exJump [0x00] 0 1 ∧
    (∀ a b, MsgReads true none exJump [0x00] a b → b ≤ 1) := by
  refine ⟨⟨_, exJump_decodes⟩, ?_, fun a b h => C05_no_invention_nested true none exJump [0x00] _ _ exJump_decodes a b h⟩
  refine ⟨{ msg := [0x00] }, 8, ?_, rfl, rfl⟩
  show Reads true (4095 + 1) _ _ _ _
  exact .struct _ _ _ _ _ _ (.composite _ _ _ _ _ (.paramsHead _ _ _ _ _ _ (.value _ _ _ _ _ _ _ _ _ (.dynCount _ _ _ _ _ _ _ _ _ rfl
    (.simple _ _ _ _ _ _ _ (.std _ _ _ _ _ _ _ _ ⟨by decide, by decide, by decide⟩))))))

end OdxVerif.Codec
