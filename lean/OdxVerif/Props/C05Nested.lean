import OdxVerif.Props.C05
import OdxVerif.Proofs.CompTruncAll
import OdxVerif.Proofs.CompTruncDescribed
import OdxVerif.Props.C01Nested
/-! # C05, nested tier — a PDU that ends before an object the decoder has to read is rejected; nothing is invented
    For EVERY description of the model (structures with and without BYTE-SIZE, STATIC- / DYNAMIC-LENGTH- / END-OF-PDU- /
    DYNAMIC-ENDMARKER-FIELDs, multiplexers, nested arbitrarily; all parameter kinds; standard-length, MIN-MAX, LEADING-LENGTH and
    PARAM-LENGTH objects; DTC-DOPs; any compu method), EVERY message and BOTH modes.
    `MsgReads st bs ps msg a b` (`Proofs/CompTrunc.lean`, relation `Reads`): decoding `msg` reaches the extraction of an atomic
    object that occupies the bytes `a … b-1`.  What is read is determined by the description and the message *prefix*: an
    object behind a parameter / item / count / switch key is only reached if everything in front of it decoded, and the counts
    and switch keys found in the message select what follows.  Cursor jumps (BYTE-POSITION, OFFSET, ITEM-BYTE-SIZE, BYTE-SIZE)
    are not reads: the two open findings `dynlen-empty-before-offset` / `static-field-padding-behind-pdu-end` (a cursor that is
    moved behind the end of the PDU without any object there) are outside `MsgReads` — see `C05_jump_is_not_a_read`. -/
namespace OdxVerif.Codec
open OdxVerif.OdxM OdxVerif.Bits

/-- `Request.decode(msg)` / `Response.decode(msg)` / a stand-alone structure: the decoder has to read an atomic object at the
    bytes `a ≤ … < b` of the message -/
def MsgReads (st : Bool) (bs : Option Nat) (ps : List Param) (msg : Bytes) (a b : Nat) : Prop :=
  ∃ dr bl, Reads st modelFuel (.dop (.struct bs ps)) { msg := msg } dr bl ∧ a = dr.cursorByte ∧ b = dr.readEnd bl

/-- **Truncated PDUs are rejected (nested tier, API level of the model).**  If the message ends before the last byte of an
    object the decoder has to read, `decode` raises `DecodeError` — in strict and in lenient mode; no enclosing structure,
    field or multiplexer swallows the error or completes the PDU. -/
theorem C05_truncated_rejected_nested (st : Bool) (bs : Option Nat) (ps : List Param) (msg : Bytes) (a b : Nat)
    (hread : MsgReads st bs ps msg a b) (hshort : msg.length < b) :
    decodeMessage bs ps msg st = .error .decode := by
  obtain ⟨dr, bl, hr, _, rfl⟩ := hread
  have hmsg : dr.msg = msg := Reads.msg st _ _ _ dr bl hr
  obtain ⟨d', h⟩ := Reads.rejected st _ _ _ dr bl hr (by rw [hmsg]; exact hshort)
  unfold decodeMessage
  rw [h]

/-- **No invented values (nested tier).**  If `decode` returns a value, every atomic object that was read on the way lies
    completely inside the message. -/
theorem C05_no_invention_nested (st : Bool) (bs : Option Nat) (ps : List Param) (msg : Bytes) (v : PVal) (c : Nat)
    (hok : decodeMessage bs ps msg st = .ok (v, c)) (a b : Nat) (hread : MsgReads st bs ps msg a b) : b ≤ msg.length := by
  apply Classical.byContradiction
  intro hb
  have := C05_truncated_rejected_nested st bs ps msg a b hread (by omega)
  rw [this] at hok
  cases hok

/-- the same at every level of nesting: any decoding function of the model (`site`: a DOP, a parameter, a parameter list, an
    item loop …) started anywhere in a message raises `DecodeError` if an object it has to read is cut off -/
theorem C05_truncated_rejected_site (st : Bool) (fuel : Nat) (site : Site) (d dr : DecState) (bl : Nat)
    (hread : Reads st fuel site d dr bl) (hshort : d.msg.length < dr.readEnd bl) : site.Rejects st fuel d :=
  Reads.rejected st fuel site d dr bl hread (by rw [Reads.msg st fuel site d dr bl hread]; exact hshort)

/-- every result of `decode` is a value or one of the library's error classes (`C05_error_classes`): `DecodeError` /
    `DecodeMismatch`, a plain `OdxError` about an ill-formed description, or the model gives up -/
theorem C05_nested_result_classes (st : Bool) (bs : Option Nat) (ps : List Param) (msg : Bytes) :
    (∃ v c, decodeMessage bs ps msg st = .ok (v, c)) ∨ (∃ e, decodeMessage bs ps msg st = .error e ∧ DecErr e) := by
  cases h : decodeMessage bs ps msg st with
  | ok r => exact .inl ⟨r.1, r.2, rfl⟩
  | error e => exact .inr ⟨e, rfl, C05_error_classes bs ps msg st e h⟩

/-! ### the compositional tier (`Described`, `Pair.fits`) -/

/-- **Compositional tier.**  A request/response whose first parameters `pre` are components (`Comp` with the decoder half of
    `Comp.Ok`: `Described` and `Described2` parameters — leaves, structures with and without BYTE-SIZE, STATIC- / DYNAMIC-LENGTH- /
    END-OF-PDU- / DYNAMIC-ENDMARKER-FIELDs, multiplexers, LENGTH-KEY users …, nested arbitrarily) that the message carries
    (`fits`: every object of `pre` lies inside the message, counts and switch keys are the ones of `pre`), followed by any
    parameters `rest`: if decoding `rest` — from where `pre` ends — has to read an object that is cut off, `decode` raises
    `DecodeError`.  (`decode_eq` of the components discharges the "what lies in front decodes" premises of `Reads`.) -/
theorem C05_truncated_rejected_comps (pre : List Comp) (hd : ∀ g ∈ pre, g.DecOk) (rest : List Param) (msg : Bytes)
    (hlen : pre.length + 2 ≤ modelFuel) (hneed : ∀ g ∈ pre, g.need + pre.length + 2 ≤ modelFuel)
    (hfit : (Comps.pair pre).fits { msg := msg }) (hpre : Comps.decPre pre { msg := msg }) (dr : DecState) (bl : Nat)
    (hr : Reads true (modelFuel - 2 - pre.length) (.params rest) ((Comps.pair pre).dec { msg := msg }).2 dr bl)
    (hshort : msg.length < dr.readEnd bl) :
    decodeMessage none (Comps.toParams pre ++ rest) msg true = .error .decode := by
  have h1 := Comps.reads_prefix pre hd (modelFuel - 2 - pre.length) (fun g hg => by have := hneed g hg; omega) { msg := msg } rfl
    hfit hpre rest dr bl hr
  have hf : modelFuel - 2 - pre.length + pre.length = modelFuel - 2 := by omega
  rw [hf] at h1
  refine C05_truncated_rejected_nested true none _ msg dr.cursorByte (dr.readEnd bl) ⟨dr, bl, ?_, rfl, rfl⟩ hshort
  exact Reads.struct (modelFuel - 1) none _ _ dr bl (Reads.composite (modelFuel - 2) _ _ dr bl h1)

/-- the `Described` tier (`Proofs/CompDescribed.lean`) -/
theorem C05_truncated_rejected_described (pre : List Comp) (hd : ∀ g ∈ pre, Described g) (rest : List Param) (msg : Bytes)
    (hlen : pre.length + 2 ≤ modelFuel) (hneed : ∀ g ∈ pre, g.need + pre.length + 2 ≤ modelFuel)
    (hfit : (Comps.pair pre).fits { msg := msg }) (hpre : Comps.decPre pre { msg := msg }) (dr : DecState) (bl : Nat)
    (hr : Reads true (modelFuel - 2 - pre.length) (.params rest) ((Comps.pair pre).dec { msg := msg }).2 dr bl)
    (hshort : msg.length < dr.readEnd bl) :
    decodeMessage none (Comps.toParams pre ++ rest) msg true = .error .decode :=
  C05_truncated_rejected_comps pre (fun g hg => (hd g hg).decOk) rest msg hlen hneed hfit hpre dr bl hr hshort

/-- the `Described2` tier (`Proofs/CompExtDescribed.lean`) -/
theorem C05_truncated_rejected_described2 (pre : List Comp) (mid : Bool) (hd : ∀ g ∈ pre, Described2 g mid) (rest : List Param)
    (msg : Bytes) (hlen : pre.length + 2 ≤ modelFuel) (hneed : ∀ g ∈ pre, g.need + pre.length + 2 ≤ modelFuel)
    (hfit : (Comps.pair pre).fits { msg := msg }) (hpre : Comps.decPre pre { msg := msg }) (dr : DecState) (bl : Nat)
    (hr : Reads true (modelFuel - 2 - pre.length) (.params rest) ((Comps.pair pre).dec { msg := msg }).2 dr bl)
    (hshort : msg.length < dr.readEnd bl) :
    decodeMessage none (Comps.toParams pre ++ rest) msg true = .error .decode :=
  C05_truncated_rejected_comps pre (fun g hg => (hd g hg).decOk) rest msg hlen hneed hfit hpre dr bl hr hshort

/-- … in particular a leaf (VALUE parameter over a standard-length object `o`) behind the described prefix whose bytes —
    at the position the decoder reaches it — do not all lie inside the message -/
theorem C05_truncated_leaf_described (pre : List Comp) (hd : ∀ g ∈ pre, Described g) (o : Obj) (ho : o.ok) (post : List Param)
    (msg : Bytes) (hlen : pre.length + 5 ≤ modelFuel) (hneed : ∀ g ∈ pre, g.need + pre.length + 2 ≤ modelFuel)
    (hfit : (Comps.pair pre).fits { msg := msg }) (hpre : Comps.decPre pre { msg := msg })
    (hshort : msg.length < o.pos ((Comps.pair pre).dec { msg := msg }).2.origin ((Comps.pair pre).dec { msg := msg }).2.cursorByte + o.k) :
    decodeMessage none (Comps.toParams pre ++ o.toParam :: post) msg true = .error .decode := by
  obtain ⟨k, hk⟩ : ∃ k, modelFuel - 2 - pre.length = k + 2 + 1 := ⟨modelFuel - 5 - pre.length, by omega⟩
  obtain ⟨dr, hr, _, hend⟩ := Reads.ofObjValue true k o ho ((Comps.pair pre).dec { msg := msg }).2
  refine C05_truncated_rejected_described pre hd _ msg (by omega) hneed hfit hpre dr o.bl ?_ (by rw [hend]; exact hshort)
  rw [hk]
  exact Reads.paramsHead _ _ _ _ dr _ hr

/-! ### non-vacuity -/

def c5U8 : Dop := .simple (.std .uint32 none true 8 none false) .uint32 .identical
def c5U16 : Dop := .simple (.std .uint32 none true 16 none false) .uint32 .identical
/-- item structure {a : 8 bit, b : 16 bit} -/
def c5Item : Dop := .struct none [.mk "a" none none (.value c5U8 none), .mk "b" none none (.value c5U16 none)]
/-- request = [sid : CODED-CONST 0x22, f : DYNAMIC-LENGTH-FIELD (count: 8 bit at byte 0, OFFSET 1) of c5Item] -/
def c5Req : List Param :=
  [.mk "sid" none none (.codedConst (.std .uint32 none true 8 none false) (.int 0x22)),
   .mk "f" none none (.value (.dynLenField 1 0 0 c5U8 c5Item) none)]

/-- `22 02 | 0a 0b0c | 1a 1b` — the count says two items, the second item's `b` (bytes 6 … 7) is cut off after one byte:
    the decoder has to read it (the count and the first item decode) … -/
theorem c5Req_reads : MsgReads true none c5Req [0x22, 0x02, 0x0a, 0x0b, 0x0c, 0x1a, 0x1b] 6 8 := by
  refine ⟨{ msg := [0x22, 0x02, 0x0a, 0x0b, 0x0c, 0x1a, 0x1b], origin := 5, cursorByte := 6 }, 16, ?_, rfl, rfl⟩
  show Reads true (4095 + 1) _ _ _ _
  refine .struct _ _ _ _ _ _ (.composite _ _ _ _ _ (.paramsTail _ _ _ _ _ _ _ _ rfl (.paramsHead _ _ _ _ _ _
    (.value _ _ _ _ _ _ _ _ _ (.dynItems _ _ _ _ _ _ _ _ _ 2 _ rfl rfl (by decide) ?_)))))
  refine .nTail _ _ _ _ _ _ _ _ rfl (by decide) (.nHead _ _ _ _ _ _ (.struct _ _ _ _ _ _ (.composite _ _ _ _ _
    (.paramsTail _ _ _ _ _ _ _ _ rfl (.paramsHead _ _ _ _ _ _ (.value _ _ _ _ _ _ _ _ _ (.simple _ _ _ _ _ _ _
      (.std _ _ _ _ _ _ _ _ ⟨by decide, by decide, by decide⟩))))))))

/-- … so the PDU is rejected with `DecodeError` (checked against the theorem and by evaluation) -/
example : decodeMessage none c5Req [0x22, 0x02, 0x0a, 0x0b, 0x0c, 0x1a, 0x1b] true = .error .decode :=
  C05_truncated_rejected_nested true none c5Req _ 6 8 c5Req_reads (by decide)
example : isDecodeError (decodeMessage none c5Req [0x22, 0x02, 0x0a, 0x0b, 0x0c, 0x1a, 0x1b] true) = true := by decide +kernel

/-- request = [f : DYNAMIC-LENGTH-FIELD (count: 8 bit at byte 0, OFFSET 2) of c5Item] -/
def c5Jump : List Param := [.mk "f" none none (.value (.dynLenField 2 0 0 c5U8 c5Item) none)]

theorem c5Jump_decodes : decodeMessage none c5Jump [0x00] true = .ok (.dict [("f", .list [])], 2) := by rfl

/-- **Consistency with the open findings `dynlen-empty-before-offset` / `static-field-padding-behind-pdu-end`**
    (`C03_empty_dynlen_before_offset_counterexample`): the one-byte PDU `00` (count 0) is accepted and the decoder's cursor ends
    at OFFSET = 2, behind the end of the message — a cursor *jump*, not a read: the only object that is read (the count, byte 0)
    lies inside the message, as `C05_no_invention_nested` demands; no value is made up from the missing byte. -/
theorem C05_jump_is_not_a_read :
    (∃ v, decodeMessage none c5Jump [0x00] true = .ok (v, 2)) ∧ MsgReads true none c5Jump [0x00] 0 1 ∧
    (∀ a b, MsgReads true none c5Jump [0x00] a b → b ≤ 1) := by
  refine ⟨⟨_, c5Jump_decodes⟩, ?_, fun a b h => C05_no_invention_nested true none c5Jump [0x00] _ _ c5Jump_decodes a b h⟩
  refine ⟨{ msg := [0x00] }, 8, ?_, rfl, rfl⟩
  show Reads true (4095 + 1) _ _ _ _
  exact .struct _ _ _ _ _ _ (.composite _ _ _ _ _ (.paramsHead _ _ _ _ _ _ (.value _ _ _ _ _ _ _ _ _ (.dynCount _ _ _ _ _ _ _ _ _ rfl
    (.simple _ _ _ _ _ _ _ (.std _ _ _ _ _ _ _ _ ⟨by decide, by decide, by decide⟩))))))

/-! ### non-vacuity of the `Described` form: a nested described prefix (`exDf` of `Props/C01Nested.lean`) and a cut-off leaf -/

def c5Pre : List Comp := [Comp.ofObjConst ⟨"sid", none, none, none, true, 8, .uint32⟩ (.int 0x2E) false, exDf]
def c5Msg : Bytes := [0x2E, 0x02, 0xA1, 0x01, 0x02, 0xA2, 0x03, 0x04, 0x7F]
instance c5DecDecodes (o : Obj) (r : Nat) : Decidable (o.decodes r) := by unfold Obj.decodes; split <;> infer_instance
instance c5DecFitsIn (o : Obj) (d : DecState) : Decidable (o.fitsIn d) := by unfold Obj.fitsIn; infer_instance
set_option maxRecDepth 4000 in
theorem c5Pre_fits : (Comps.pair c5Pre).fits { msg := c5Msg } := by
  simp only [c5Pre, Comps.pair, Pair.map, Pair.seq, Pair.nil, Comp.ofObjConst, Pair.ofObj, exDf, Comp.ofValue, Pair.atPos, DComp.dynLenField,
    Pair.inOrigin, dynInnerC, Pair.guard, dynBodyC, List.map, Pair.list, dynItemC, Pair.advancing, DComp.struct, exDfItem, u8, Comp.ofObjValue, exInner,
    DComp.staticField, staticItemC, Pair.padTo]
  decide +kernel
theorem c5Pre_decPre : Comps.decPre c5Pre { msg := c5Msg } := by
  simp only [c5Pre, Comps.decPre, Comp.ofObjConst, exDf, Comp.ofValue, DComp.dynLenField]
  exact ⟨trivial, trivial, trivial⟩
def c5Tail : Obj := ⟨"tail", none, none, none, true, 16, .uint32⟩
theorem c5Pre_described : ∀ g ∈ c5Pre, Described g := by
  intro g hg
  simp only [c5Pre, List.mem_cons, List.mem_nil_iff, or_false] at hg
  rcases hg with rfl | rfl
  · exact Described.const _ _ _ (by simp [Obj.ok, Obj.encOk, Obj.sizeOk]) (by simp [Obj.inRange])
  · exact exDf_described
set_option maxRecDepth 4000 in
/-- `2E | 02 | A1 01 02 | A2 03 04 | 7F`: the described prefix (constant, then a dynamic-length field of two items, each a byte and
    a structure with a static field of two bytes) fits; of the 16-bit leaf behind it only one byte is there -/
theorem C05_truncated_leaf_described_example : decodeMessage none (Comps.toParams c5Pre ++ [c5Tail.toParam]) c5Msg true = .error .decode := by
  refine C05_truncated_leaf_described c5Pre c5Pre_described c5Tail (by simp [c5Tail, Obj.ok, Obj.encOk, Obj.sizeOk]) [] c5Msg (by decide) ?_
    c5Pre_fits c5Pre_decPre ?_
  · intro g hg
    simp only [c5Pre, List.mem_cons, List.mem_nil_iff, or_false] at hg
    rcases hg with rfl | rfl <;> decide
  · simp only [c5Pre, Comps.pair, Pair.map, Pair.seq, Pair.nil, Comp.ofObjConst, Pair.ofObj, exDf, Comp.ofValue, Pair.atPos, DComp.dynLenField,
      Pair.inOrigin, dynInnerC, Pair.guard, dynBodyC, List.map, Pair.list, dynItemC, Pair.advancing, DComp.struct, exDfItem, u8, Comp.ofObjValue, exInner,
      DComp.staticField, staticItemC, Pair.padTo]
    decide +kernel

end OdxVerif.Codec
