import OdxVerif.Props.C15
import OdxVerif.Proofs.InheritPrioGenEq
/-! # C15 — the order in which inherited communication parameters are merged, through the function GENERATED from the source

    `_compute_available_commmunication_parameters` iterates over `self._get_parent_refs_sorted_by_priority()` (ascending:
    low-priority parents first, later ones overwrite). `Gen.parentRefsSortedByPriorityE` (`Gen/InheritPrio.lean`, regenerated on
    every run by `harness/extract/py2lean.py`) with `reverse = False` is proved equal to the comparam model's `sortAsc`. -/
namespace OdxVerif.Comparam
open OdxVerif OdxVerif.Gen

theorem stableInsert_eq_insertAsc (x : ParentRes) (l : List ParentRes) :
    Py.stableInsert (fun r => r.kind.prio) false x l = insertAsc x l := by
  induction l with
  | nil => rfl
  | cons y ys ih =>
    simp only [Py.stableInsert, insertAsc, Bool.false_eq_true, if_false, ih]
    by_cases h : y.prio < x.prio
    · have h' : ¬ x.kind.prio ≤ y.kind.prio := by simp only [ParentRes.prio] at h; omega
      rw [if_pos h, if_neg h']
    · have h' : x.kind.prio ≤ y.kind.prio := by simp only [ParentRes.prio] at h; omega
      rw [if_neg h, if_pos h']

theorem stableSort_eq_sortAsc (rs : List ParentRes) : Py.stableSort (fun r => r.kind.prio) false rs = sortAsc rs := by
  induction rs with
  | nil => rfl
  | cons x xs ih => simp only [Py.stableSort, sortAsc, ih, stableInsert_eq_insertAsc]

/-- **Tie.** For every list of parent references the rendered `_get_parent_refs_sorted_by_priority()` (default `reverse=False`)
    raises nothing and is the model's `sortAsc`: ascending priority, parents of equal priority in document order -/
theorem C15_gen_parent_order (rs : List ParentRes) :
    Inherit.Gen.parentRefsSortedByPriorityE ParentRes.kind rs false = .ok (sortAsc rs) := by
  rw [Inherit.gen_parentRefs_eq, stableSort_eq_sortAsc]

example : (Inherit.Gen.parentRefsSortedByPriorityE ParentRes.kind
      [⟨.baseVariant, [⟨1, "BR", none, .str "1", exSpec⟩]⟩, ⟨.protocol, []⟩, ⟨.baseVariant, []⟩] false).map (·.map fun r => (r.kind, r.insts.length))
    = .ok [(.protocol, 0), (.baseVariant, 1), (.baseVariant, 0)] := by decide

end OdxVerif.Comparam
