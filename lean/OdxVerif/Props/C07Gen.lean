import OdxVerif.Props.C07
import OdxVerif.Proofs.CompuLimitGenEq
/-! # C07 — the limit checks through the functions GENERATED from the source

    `Gen.compliesToUpperE` / `Gen.compliesToLowerE` (`Gen/CompuLimit.lean`) are regenerated from `Limit.complies_to_upper` /
    `complies_to_lower` of `odxtools/compumethods/limit.py` on every run of C07 (`harness/extract/py2lean.py`); the theorems
    below are re-checked against the current source. `compare_odx_values` stands for the model's `compareOdx` (not translated). -/
namespace OdxVerif.Compu

/-- **Tie.** For every limit and value (numbers and strings, any interval type, with or without a limit value) the rendered
    source has the outcome of the model (`Py.call Gen.errOfCompu` embeds the model's error class as the Python exception) -/
theorem C07_gen_limits_tie (l : Limit) (v : Val) :
    Gen.compliesToUpperE l v = Py.call Gen.errOfCompu (l.compliesUpper v) ∧
    Gen.compliesToLowerE l v = Py.call Gen.errOfCompu (l.compliesLower v) :=
  ⟨gen_compliesUpper_eq l v, gen_compliesLower_eq l v⟩

/-- **`C07_limits` for the rendered source.** For a limit with numeric value `q` and any numeric value `x` the rendered
    `complies_to_lower` / `complies_to_upper` raise nothing and decide the interval semantics: lower ⇔ `q ≤ x` (CLOSED or untyped),
    `q < x` (OPEN), true (INFINITE); upper symmetric. A limit without value never restricts (whatever the value's kind). -/
theorem C07_gen_limits (a v : Val) (q x : Rat) (ha : a.num? = some q) (hv : v.num? = some x) (t : Option IType) :
    Gen.compliesToLowerE { value := some a, itype := t } v = .ok (decide (lowerOk t q x)) ∧
    Gen.compliesToUpperE { value := some a, itype := t } v = .ok (decide (upperOk t q x)) ∧
    Gen.compliesToLowerE { value := none, itype := t } v = .ok true ∧
    Gen.compliesToUpperE { value := none, itype := t } v = .ok true := by
  obtain ⟨h1, h2, h3, h4⟩ := C07_limits a v q x ha hv t
  refine ⟨?_, ?_, ?_, ?_⟩
  · rw [gen_compliesLower_eq, h1]; rfl
  · rw [gen_compliesUpper_eq, h2]; rfl
  · rw [gen_compliesLower_eq, h3]; rfl
  · rw [gen_compliesUpper_eq, h4]; rfl

/-! non-vacuity on the generated functions themselves: OPEN vs CLOSED at the boundary, a float against an int limit, INFINITE,
    strings, and the exception of `compare_odx_values` for a number against a string limit -/
example : Gen.compliesToLowerE { value := some (.int 3), itype := some .open_ } (.flt (7/2)) = .ok true ∧
    Gen.compliesToLowerE { value := some (.int 3), itype := some .open_ } (.int 3) = .ok false ∧
    Gen.compliesToLowerE { value := some (.int 3), itype := some .closed } (.int 3) = .ok true ∧
    Gen.compliesToUpperE { value := some (.int 3), itype := none } (.int 4) = .ok false ∧
    Gen.compliesToUpperE { value := some (.int 3), itype := some .infinite } (.int 99) = .ok true ∧
    Gen.compliesToUpperE { value := some (.str "b"), itype := some .closed } (.str "a") = .ok true ∧
    Gen.compliesToUpperE { value := some (.str "b"), itype := some .closed } (.int 1) = .error .odxError ∧
    Gen.compliesToUpperE { value := none, itype := some .closed } (.str "a") = .ok true := by
  refine ⟨?_, ?_, ?_, ?_, ?_, ?_, ?_, ?_⟩ <;> decide +kernel

end OdxVerif.Compu
