import OdxVerif.Props.C05Nested
import OdxVerif.Proofs.CompTrunc2Cov
/-! # C05, nested tier, second part (task W26) — "nothing is invented" as a theorem about the WHOLE decoder model
    `Proofs/CompTrunc2.lean` instruments the model's decoder with a ghost log: every call of `extractCore` — the one place
    where `DecodeState.extract_atomic_value` takes bytes out of the message — records the byte range it requests
    (`LEntry.start ≤ … < LEntry.stop`), before the length check, whether the call then succeeds or raises.  Requests made
    inside the `try … except DecodeError: pass` probe of a DYNAMIC-ENDMARKER-FIELD are tagged `probe`.
    * `C05_log_erasure` (+ `…_site`): the instrumented decoder IS the model's decoder once the log is forgotten — every
      description, every message / state, both modes, returned or raised.
    * `C05_no_invention_all`: if `decode` returns a value, every request outside a probe lies inside the message.
    * `C05_truncated_rejected_all`: if some request outside a probe exceeds the message, `decode` raises `DecodeError` — in
      strict AND in lenient mode.
    No `Described` hypothesis, no tier: all DOP kinds, all parameter kinds, all four diag-coded types, any nesting.
    The tag is necessary (`c5Probe_*`): a probe that runs into the end of the PDU is swallowed *by the format* (the field
    ends at the marker or at the end of the PDU); odxtools does the same (run recorded in `design_notes/C05.md`). -/
namespace OdxVerif.Codec
open OdxVerif.OdxM OdxVerif.Bits

/-! ### access to the (irreducible) predicates -/

theorem Erases.run {α} {ml : LogM α} {m : DecM α} (h : Erases ml m) (ls : LState) (b : Bool) :
    eraseR (ml ls b) = m ls.st b := by
  unfold Erases at h; exact h ls b

theorem LGood.ok {α} {m : LogM α} (h : LGood m) {ls ls' : LState} {b : Bool} {a : α} (hi : ls.Inv)
    (hr : m ls b = .ok (a, ls')) : ls'.Inv ∧ ls'.probe = ls.probe ∧ ls'.st.msg = ls.st.msg := by
  unfold LGood at h; have := h ls b hi; rw [hr] at this; exact this

theorem LGood.error {α} {m : LogM α} (h : LGood m) {ls ls' : LState} {b : Bool} {e : Err} (hi : ls.Inv)
    (hr : m ls b = .error (e, ls')) : ls'.st.msg = ls.st.msg ∧ (ls'.Inv ∨ (e = .decode ∧ ls.probe = false)) := by
  unfold LGood at h; have := h ls b hi; rw [hr] at this; exact this

theorem LState.inv_nil (s : DecState) (p : Bool) : LState.Inv { st := s, log := [], probe := p } := by
  intro e he; cases he

/-! ### the site level: any DOP, anywhere in a message -/

/-- **The log is a faithful trace.**  No run of the instrumented decoder (returned or raised) removes or alters an entry of
    the log: the final log is the initial one with the new requests in front. -/
theorem C05_log_grows_site (fuel : Nat) (d : Dop) (ls : LState) (st : Bool) :
    ∃ new, resLog (decodeDopL fuel d ls st) = new ++ ls.log := by
  have h := (grows_decode_all fuel).1 d
  unfold Grows at h
  exact h ls st

/-- **Erasure (site level).**  Forgetting the ghost fields of a run of the instrumented DOP decoder gives the run of the
    model's `decodeDop` — for every DOP of the model, every state, both modes. -/
theorem C05_log_erasure_site (fuel : Nat) (d : Dop) (ls : LState) (st : Bool) :
    eraseR (decodeDopL fuel d ls st) = decodeDop fuel d ls.st st :=
  ((erases_decode_all fuel).1 d).run ls st

/-- the same for a parameter and a parameter list -/
theorem C05_log_erasure_param (fuel : Nat) (p : Param) (ls : LState) (st : Bool) :
    eraseR (decodeParamL fuel p ls st) = decodeParam fuel p ls.st st :=
  ((erases_decode_all fuel).2.2.2.2.2.1 p).run ls st
theorem C05_log_erasure_params (fuel : Nat) (ps : List Param) (ls : LState) (st : Bool) :
    eraseR (decodeParamsL fuel ps ls st) = decodeParams fuel ps ls.st st :=
  ((erases_decode_all fuel).2.2.2.2.2.2.1 ps).run ls st

/-- **No invention (site level).**  A DOP decoded anywhere in a message, from a log that satisfies the invariant (e.g. the
    empty log): if it returns, every request it made outside a probe lies inside the message. -/
theorem C05_no_invention_site (fuel : Nat) (d : Dop) (ls ls' : LState) (st : Bool) (v : PVal) (hi : ls.Inv)
    (hok : decodeDopL fuel d ls st = .ok (v, ls')) :
    ∀ e ∈ ls'.log, e.probe = false → e.stop ≤ ls.st.msg.length := by
  have h := ((lgood_decode_all fuel).1 d).ok hi hok
  intro e he hp
  rw [← h.2.2]; exact h.1 e he hp

/-- **Truncation (site level).**  … and if it raises with a request outside a probe that exceeds the message in the log, then
    what it raises is `DecodeError` (both modes). -/
theorem C05_truncated_rejected_log_site (fuel : Nat) (d : Dop) (ls ls' : LState) (st : Bool) (err : Err) (hi : ls.Inv)
    (herr : decodeDopL fuel d ls st = .error (err, ls')) (e : LEntry) (he : e ∈ ls'.log) (hp : e.probe = false)
    (hshort : ls.st.msg.length < e.stop) : err = .decode := by
  have h := ((lgood_decode_all fuel).1 d).error hi herr
  rcases h.2 with hinv | ⟨hd, _⟩
  · have := hinv e he hp; rw [h.1] at this; omega
  · exact hd

/-! ### the API level: `Request.decode(msg)` / `Response.decode(msg)` -/

/-- **Erasure.**  The first component of the instrumented `decode` is the model's `decodeMessage`. -/
theorem C05_log_erasure (bs : Option Nat) (ps : List Param) (msg : Bytes) (st : Bool) :
    (decodeMessageL bs ps msg st).1 = decodeMessage bs ps msg st := by
  have h := C05_log_erasure_site modelFuel (.struct bs ps) { st := { msg := msg } } st
  unfold decodeMessageL decodeMessage
  cases hl : decodeDopL modelFuel (.struct bs ps) { st := { msg := msg } } st with
  | ok p =>
    obtain ⟨v, ls⟩ := p
    rw [hl] at h
    simp only [eraseR] at h
    rw [← h]
  | error p =>
    obtain ⟨e, ls⟩ := p
    rw [hl] at h
    simp only [eraseR] at h
    rw [← h]

/-- the byte ranges `decode` requested from the message, outside end-marker probes -/
def msgRequests (bs : Option Nat) (ps : List Param) (msg : Bytes) (st : Bool) : List (Nat × Nat) :=
  ((decodeMessageL bs ps msg st).2.filter (fun e => !e.probe)).map fun e => (e.start, e.stop)

/-- **No invented values, whole model.**  For EVERY description of the model, EVERY message and BOTH modes: if `decode`
    returns a value, every byte range that was requested from the message on the way (outside end-marker probes) lies
    inside the message. -/
theorem C05_no_invention_all (st : Bool) (bs : Option Nat) (ps : List Param) (msg : Bytes) (v : PVal) (c : Nat)
    (hok : decodeMessage bs ps msg st = .ok (v, c)) :
    ∀ e ∈ (decodeMessageL bs ps msg st).2, e.probe = false → e.stop ≤ msg.length := by
  rw [← C05_log_erasure] at hok
  unfold decodeMessageL at hok ⊢
  cases hl : decodeDopL modelFuel (.struct bs ps) { st := { msg := msg } } st with
  | ok p =>
    obtain ⟨v', ls⟩ := p
    exact C05_no_invention_site modelFuel _ _ ls st v' (LState.inv_nil _ _) hl
  | error p =>
    obtain ⟨e, ls⟩ := p
    rw [hl] at hok
    cases hok

/-- **Truncated PDUs are rejected, whole model.**  For EVERY description, EVERY message and BOTH modes: if some byte range
    requested from the message (outside an end-marker probe) exceeds the message, `decode` raises `DecodeError` — the request
    is not completed with made-up bytes, and no enclosing structure, field or multiplexer swallows the error. -/
theorem C05_truncated_rejected_all (st : Bool) (bs : Option Nat) (ps : List Param) (msg : Bytes) (e : LEntry)
    (he : e ∈ (decodeMessageL bs ps msg st).2) (hp : e.probe = false) (hshort : msg.length < e.stop) :
    decodeMessage bs ps msg st = .error .decode := by
  rw [← C05_log_erasure]
  unfold decodeMessageL at he ⊢
  cases hl : decodeDopL modelFuel (.struct bs ps) { st := { msg := msg } } st with
  | ok p =>
    obtain ⟨v', ls⟩ := p
    rw [hl] at he
    have := C05_no_invention_site modelFuel _ _ ls st v' (LState.inv_nil _ _) hl e he hp
    exact absurd this (by show ¬ e.stop ≤ msg.length; omega)
  | error p =>
    obtain ⟨err, ls⟩ := p
    rw [hl] at he
    have := C05_truncated_rejected_log_site modelFuel _ _ ls st err (LState.inv_nil _ _) hl e he hp hshort
    rw [this]

/-- the two together, in terms of `msgRequests`: a value ⇒ all requests inside; a request outside ⇒ `DecodeError` -/
theorem C05_requests_dichotomy (st : Bool) (bs : Option Nat) (ps : List Param) (msg : Bytes) :
    (∀ r ∈ msgRequests bs ps msg st, r.2 ≤ msg.length) ∨ decodeMessage bs ps msg st = .error .decode := by
  by_cases h : ∀ r ∈ msgRequests bs ps msg st, r.2 ≤ msg.length
  · exact .inl h
  · right
    simp only [msgRequests, List.mem_map, List.mem_filter, Bool.not_eq_true'] at h
    apply Classical.byContradiction
    intro hne
    apply h
    rintro r ⟨e, ⟨he, hp⟩, rfl⟩
    apply Classical.byContradiction
    intro hlt
    exact hne (C05_truncated_rejected_all st bs ps msg e he hp (by show msg.length < e.stop; omega))

/-! ### concrete instances -/

/-- the run returned a value equal to `v` (structural equality `pvalEq`) with the cursor at `c` — a Boolean the kernel evaluates -/
def returns (r : Except Err (PVal × Nat)) (v : PVal) (c : Nat) : Bool :=
  match r with
  | .ok (v', c') => pvalEq v' v && c' == c
  | .error _ => false

theorem returns_elim {r : Except Err (PVal × Nat)} {v : PVal} {c : Nat} (h : returns r v c = true) : ∃ v', r = .ok (v', c) := by
  unfold returns at h
  split at h
  · rename_i v' c'
    simp only [Bool.and_eq_true, beq_iff_eq] at h
    exact ⟨v', by rw [h.2]⟩
  · cases h

/-- `c5Req` of `Props/C05Nested.lean` ([sid 0x22, DYNAMIC-LENGTH-FIELD of {a : 8, b : 16}]), count 2, second `b` cut off:
    the log of the run (newest first): sid `0…1`, count `1…2`, item 1 `2…3`, `3…5`, item 2 `5…6`, and the request `6…8` -/
theorem c5Req_log : (decodeMessageL none c5Req [0x22, 0x02, 0x0a, 0x0b, 0x0c, 0x1a, 0x1b] true).2 =
    [⟨6, 8, false⟩, ⟨5, 6, false⟩, ⟨3, 5, false⟩, ⟨2, 3, false⟩, ⟨1, 2, false⟩, ⟨0, 1, false⟩] := by
  decide +kernel

/-- … the theorem applied to it (hypotheses: membership, not a probe, `7 < 8`) -/
example : decodeMessage none c5Req [0x22, 0x02, 0x0a, 0x0b, 0x0c, 0x1a, 0x1b] true = .error .decode :=
  C05_truncated_rejected_all true none c5Req _ ⟨6, 8, false⟩ (by rw [c5Req_log]; decide) rfl (by decide)

/-- the complete PDU `22 02 0a 0b0c 1a 1b1c`: decodes; the six requests tile the eight bytes, all inside -/
theorem c5Req_log_ok : msgRequests none c5Req [0x22, 0x02, 0x0a, 0x0b, 0x0c, 0x1a, 0x1b, 0x1c] true =
    [(6, 8), (5, 6), (3, 5), (2, 3), (1, 2), (0, 1)] := by decide +kernel
theorem c5Req_ok : returns (decodeMessage none c5Req [0x22, 0x02, 0x0a, 0x0b, 0x0c, 0x1a, 0x1b, 0x1c] true)
    (.dict [("sid", .atom (.int 0x22)), ("f", .list [.dict [("a", .atom (.int 0x0a)), ("b", .atom (.int 0x0b0c))],
      .dict [("a", .atom (.int 0x1a)), ("b", .atom (.int 0x1b1c))]])]) 8 = true := by decide +kernel
example : ∀ e ∈ (decodeMessageL none c5Req [0x22, 0x02, 0x0a, 0x0b, 0x0c, 0x1a, 0x1b, 0x1c] true).2,
    e.probe = false → e.stop ≤ 8 := by
  obtain ⟨v, hv⟩ := returns_elim c5Req_ok
  exact C05_no_invention_all true none c5Req _ v 8 hv

/-- the open findings `dynlen-empty-before-offset` / `static-field-padding-behind-pdu-end` (`c5Jump` of `Props/C05Nested.lean`: PDU
    `00`, count 0, OFFSET 2): accepted with the cursor at 2; the only request is the count byte; the cursor *jump* to byte 2
    requests nothing — with the instrumented decoder this is a computed fact about the run, not an inspection of the rules of
    `Reads` -/
theorem c5Jump_log : (decodeMessageL none c5Jump [0x00] true).2 = [⟨0, 1, false⟩] := by decide +kernel

/-- **Why requests inside a probe are exempt** (the hypothesis `e.probe = false` cannot be dropped).
    [f : DYNAMIC-ENDMARKER-FIELD, termination value 0xFFFF (16 bit), items {a : 8 bit}], PDU `01 02 03`: before the third item
    the probe requests the bytes `2…4` — behind the end; the `DecodeError` is swallowed (`except DecodeError: pass`), the item
    `03` is decoded and the field ends at the end of the PDU.  The value contains nothing made up.  odxtools
    (`DynamicEndmarkerField.decode_from_pdu`) returns the same `{'f': [{'a': 1}, {'a': 2}, {'a': 3}]}` in both modes. -/
def c5Probe : List Param :=
  [.mk "f" none none (.value (.endMarkerField (.int 0xFFFF) c5U16 (.struct none [.mk "a" none none (.value c5U8 none)])) none)]

theorem c5Probe_log : (decodeMessageL none c5Probe [0x01, 0x02, 0x03] true).2 =
    [⟨2, 3, false⟩, ⟨2, 4, true⟩, ⟨1, 2, false⟩, ⟨1, 3, true⟩, ⟨0, 1, false⟩, ⟨0, 2, true⟩] := by
  decide +kernel

theorem c5Probe_ok : returns (decodeMessage none c5Probe [0x01, 0x02, 0x03] true)
    (.dict [("f", .list [.dict [("a", .atom (.int 1))], .dict [("a", .atom (.int 2))], .dict [("a", .atom (.int 3))]])]) 3 = true := by
  decide +kernel

/-- the untagged statement is false: a returned value and a logged request (`2…4`) that exceeds the message (3 bytes) -/
theorem C05_probe_requests_are_exempt :
    ∃ ps msg v c e, decodeMessage none ps msg true = .ok (v, c) ∧ e ∈ (decodeMessageL none ps msg true).2 ∧ msg.length < e.stop := by
  obtain ⟨v, hv⟩ := returns_elim c5Probe_ok
  exact ⟨c5Probe, [0x01, 0x02, 0x03], v, 3, ⟨2, 4, true⟩, hv, by rw [c5Probe_log]; decide, by decide⟩

/-! ### the constructors of `Described2` that the rules of `Reads` were not checked against (W19, "NOT proved" (3)):
    the whole-model theorem needs no coverage argument — instances, each evaluated by the kernel -/

def c5Sid : Param := .mk "sid" none none (.codedConst (.std .uint32 none true 8 none false) (.int 0x22))

/-- BYTE-SIZE structure: [sid, s : STRUCTURE BYTE-SIZE 4 {a : 8, b : 16}] -/
def c5Bs : List Param :=
  [c5Sid, .mk "s" none none (.value (.struct (some 4) [.mk "a" none none (.value c5U8 none), .mk "b" none none (.value c5U16 none)]) none)]
/-- `22 01 02`: member `b` requests `2…4` of a three-byte PDU -/
theorem c5Bs_log : (decodeMessageL none c5Bs [0x22, 1, 2] true).2 = [⟨2, 4, false⟩, ⟨1, 2, false⟩, ⟨0, 1, false⟩] := by decide +kernel
example : decodeMessage none c5Bs [0x22, 1, 2] true = .error .decode :=
  C05_truncated_rejected_all true none c5Bs _ ⟨2, 4, false⟩ (by rw [c5Bs_log]; decide) rfl (by decide)
/-- `22 01 02 03`: the members are there, the padding up to BYTE-SIZE (byte 4) is not: accepted, cursor 5 behind the end of the
    four-byte PDU — the BYTE-SIZE *jump* of the open finding `static-field-padding-behind-pdu-end`; the log shows that nothing was requested there -/
theorem c5Bs_jump : returns (decodeMessage none c5Bs [0x22, 1, 2, 3] true)
      (.dict [("sid", .atom (.int 0x22)), ("s", .dict [("a", .atom (.int 1)), ("b", .atom (.int 0x0203))])]) 5 = true ∧
    msgRequests none c5Bs [0x22, 1, 2, 3] true = [(2, 4), (1, 2), (0, 1)] := by decide +kernel

/-- MIN-MAX leaf (A_BYTEFIELD, MIN-LENGTH 2, MAX-LENGTH 4, ZERO termination) -/
def c5Mm : List Param :=
  [c5Sid, .mk "m" none none (.value (.simple (.minmax .bytefield none true 2 (some 4) .zero) .bytefield .identical) none)]
/-- `22 01`: rejected by the MIN-LENGTH check, which is not a request (no `extractCore` call; it IS a rule of `Reads`): the log and
    `Reads` are different notions — `C05_truncated_rejected_all` is an implication, not an equivalence -/
theorem c5Mm_short : isDecodeError (decodeMessage none c5Mm [0x22, 1] true) = true ∧
    msgRequests none c5Mm [0x22, 1] true = [(0, 1)] := by decide +kernel
/-- `22 01 02 03`: the body request `1…4` is computed from the message (`min(len, orig + MAX-LENGTH)`), so it cannot be short -/
theorem c5Mm_ok : msgRequests none c5Mm [0x22, 1, 2, 3] true = [(1, 4), (0, 1)] := by decide +kernel

/-- LEADING-LENGTH leaf (8-bit length prefix, A_BYTEFIELD) -/
def c5Ld : List Param :=
  [c5Sid, .mk "l" none none (.value (.simple (.leading .bytefield none true 8) .bytefield .identical) none)]
/-- `22 03 aa bb`: the prefix says three bytes, two are there: request `2…5`; rejected in lenient mode as well -/
theorem c5Ld_log : (decodeMessageL none c5Ld [0x22, 3, 0xaa, 0xbb] false).2 = [⟨2, 5, false⟩, ⟨1, 2, false⟩, ⟨0, 1, false⟩] := by
  decide +kernel
example : decodeMessage none c5Ld [0x22, 3, 0xaa, 0xbb] false = .error .decode :=
  C05_truncated_rejected_all false none c5Ld _ ⟨2, 5, false⟩ (by rw [c5Ld_log]; decide) rfl (by decide)

/-- MATCHING-REQUEST-PARAM (two bytes of the request) behind the response SID -/
def c5Mr : List Param :=
  [.mk "sid" none none (.codedConst (.std .uint32 none true 8 none false) (.int 0x62)), .mk "r" none none (.matchingReq 0 2)]
theorem c5Mr_log : (decodeMessageL none c5Mr [0x62, 1] true).2 = [⟨1, 3, false⟩, ⟨0, 1, false⟩] := by decide +kernel
example : decodeMessage none c5Mr [0x62, 1] true = .error .decode :=
  C05_truncated_rejected_all true none c5Mr _ ⟨1, 3, false⟩ (by rw [c5Mr_log]; decide) rfl (by decide)

/-- DYNAMIC-ENDMARKER-FIELD (termination value 0xFF, 8 bit) of `c5Item` = {a : 8, b : 16} -/
def c5Em : List Param := [.mk "f" none none (.value (.endMarkerField (.int 0xFF) c5U8 c5Item) none)]
/-- `01 0203 04`: the second item's `b` requests `4…6`; the two probes (`0…1`, `3…4`) are inside and found no marker -/
theorem c5Em_log : (decodeMessageL none c5Em [1, 2, 3, 4] false).2 =
    [⟨4, 6, false⟩, ⟨3, 4, false⟩, ⟨3, 4, true⟩, ⟨1, 3, false⟩, ⟨0, 1, false⟩, ⟨0, 1, true⟩] := by decide +kernel
example : decodeMessage none c5Em [1, 2, 3, 4] false = .error .decode :=
  C05_truncated_rejected_all false none c5Em _ ⟨4, 6, false⟩ (by rw [c5Em_log]; decide) rfl (by decide)

/-! ### what a request means -/

/-- **Locality of a request** (`Proofs/CompTrunc2Local.lean`): the value or error of the atomic extraction is a function of the
    requested bytes alone — two messages that agree on `start … stop-1` (and contain them) give the same result. -/
theorem C05_request_local (bl : Nat) (bt : BaseType) (enc : Option Enc) (hl : Bool) (s : DecState) (msg' : Bytes) (b : Bool)
    (hfit : s.readEnd bl ≤ s.msg.length) (hfit' : s.readEnd bl ≤ msg'.length)
    (hsame : (s.msg.drop s.cursorByte).take ((bl + s.cursorBit + 7) / 8) = (msg'.drop s.cursorByte).take ((bl + s.cursorBit + 7) / 8)) :
    resVal (extractCore bl bt enc hl s b) = resVal (extractCore bl bt enc hl { s with msg := msg' } b) :=
  extractCore_local bl bt enc hl s msg' b hfit hfit' hsame

/-- instance: a 16-bit object at byte 1 of `22 0b0c 99` and of `77 0b0c` (other bytes around it, another length): same value -/
example : resVal (extractCore 16 .uint32 none true { msg := [0x22, 0x0b, 0x0c, 0x99], cursorByte := 1 } true) =
    resVal (extractCore 16 .uint32 none true { msg := [0x77, 0x0b, 0x0c], cursorByte := 1 } true) :=
  C05_request_local 16 .uint32 none true { msg := [0x22, 0x0b, 0x0c, 0x99], cursorByte := 1 } [0x77, 0x0b, 0x0c] true
    (by decide) (by decide) (by decide)

/-! ### W19's `Reads` for the leaf kinds of `Described2` other than standard-length objects (W19, "NOT proved" (3))
    `C05_truncated_leaf_described` covered a cut-off standard-length leaf behind a described prefix.  The same for a cut-off
    MIN-MAX object (its MIN-LENGTH bytes), LEADING-LENGTH object (its length prefix), MATCHING-REQUEST-PARAM and RESERVED
    parameter behind a `Described2` prefix (structures with BYTE-SIZE, all four fields, multiplexers, MIN-MAX / LEADING-LENGTH
    leaves …).  BYTE-SIZE structures and the fields as the cut-off *container* are `Reads.ofStructParam` / the field rules of W19. -/

/-- a cut-off parameter `p` (any `Reads` of it) behind a `Described2` prefix that the message carries -/
theorem C05_truncated_param_described2 (pre : List Comp) (mid : Bool) (hd : ∀ g ∈ pre, Described2 g mid) (p : Param)
    (post : List Param) (msg : Bytes) (k : Nat) (hk : modelFuel - 2 - pre.length = k + 1) (hlen : pre.length + 2 ≤ modelFuel)
    (hneed : ∀ g ∈ pre, g.need + pre.length + 2 ≤ modelFuel)
    (hfit : (Comps.pair pre).fits { msg := msg }) (hpre : Comps.decPre pre { msg := msg }) (dr : DecState) (bl : Nat)
    (hr : Reads true k (.param p) ((Comps.pair pre).dec { msg := msg }).2 dr bl) (hshort : msg.length < dr.readEnd bl) :
    decodeMessage none (Comps.toParams pre ++ p :: post) msg true = .error .decode := by
  refine C05_truncated_rejected_described2 pre mid hd _ msg hlen hneed hfit hpre dr bl ?_ hshort
  rw [hk]
  exact Reads.paramsHead _ _ _ _ dr _ hr

/-- MIN-MAX object (VALUE parameter, no BIT-POSITION): fewer than MIN-LENGTH bytes left where the decoder reaches it -/
theorem C05_truncated_minmax_described2 (pre : List Comp) (mid : Bool) (hd : ∀ g ∈ pre, Described2 g mid)
    (name : String) (bp : Option Nat) (bt : BaseType) (enc : Option Enc) (hl : Bool) (mn : Nat) (mx : Option Nat) (t : Term)
    (phys : BaseType) (cm : CCompu) (dv : Option PVal) (post : List Param) (msg : Bytes)
    (hlen : pre.length + 5 ≤ modelFuel) (hneed : ∀ g ∈ pre, g.need + pre.length + 2 ≤ modelFuel)
    (hfit : (Comps.pair pre).fits { msg := msg }) (hpre : Comps.decPre pre { msg := msg })
    (hshort : msg.length < ((((Comps.pair pre).dec { msg := msg }).2).atParam bp none).readEnd (8 * mn)) :
    decodeMessage none (Comps.toParams pre ++ .mk name bp none (.value (.simple (.minmax bt enc hl mn mx t) phys cm) dv) :: post) msg true
      = .error .decode := by
  obtain ⟨k, hk⟩ : ∃ k, modelFuel - 2 - pre.length = (k + 1 + 1) + 1 := ⟨modelFuel - 5 - pre.length, by omega⟩
  refine C05_truncated_param_described2 pre mid hd _ post msg _ hk (by omega) hneed hfit hpre _ _ ?_ hshort
  exact .value _ _ _ _ _ _ _ _ _ (.simple _ _ _ _ _ _ _ (.minmax _ _ _ _ _ _ _ _ rfl))

/-- LEADING-LENGTH object: its length prefix (`bl ≥ 1` bits) is cut off -/
theorem C05_truncated_leading_described2 (pre : List Comp) (mid : Bool) (hd : ∀ g ∈ pre, Described2 g mid)
    (name : String) (bp bit : Option Nat) (bt : BaseType) (enc : Option Enc) (hl : Bool) (bl : Nat) (hbl : bl ≠ 0)
    (phys : BaseType) (cm : CCompu) (dv : Option PVal) (post : List Param) (msg : Bytes)
    (hlen : pre.length + 5 ≤ modelFuel) (hneed : ∀ g ∈ pre, g.need + pre.length + 2 ≤ modelFuel)
    (hfit : (Comps.pair pre).fits { msg := msg }) (hpre : Comps.decPre pre { msg := msg })
    (hshort : msg.length < ((((Comps.pair pre).dec { msg := msg }).2).atParam bp bit).readEnd bl) :
    decodeMessage none (Comps.toParams pre ++ .mk name bp bit (.value (.simple (.leading bt enc hl bl) phys cm) dv) :: post) msg true
      = .error .decode := by
  obtain ⟨k, hk⟩ : ∃ k, modelFuel - 2 - pre.length = (k + 1 + 1) + 1 := ⟨modelFuel - 5 - pre.length, by omega⟩
  refine C05_truncated_param_described2 pre mid hd _ post msg _ hk (by omega) hneed hfit hpre _ _ ?_ hshort
  exact .value _ _ _ _ _ _ _ _ _ (.simple _ _ _ _ _ _ _ (.leadingLen _ _ _ _ _ _ ⟨hbl, fun h => (by cases h), fun h => (by cases h)⟩))

/-- MATCHING-REQUEST-PARAM of `n ≥ 1` bytes -/
theorem C05_truncated_matching_described2 (pre : List Comp) (mid : Bool) (hd : ∀ g ∈ pre, Described2 g mid)
    (name : String) (bp bit : Option Nat) (reqPos n : Nat) (hn : n ≠ 0) (post : List Param) (msg : Bytes)
    (hlen : pre.length + 4 ≤ modelFuel) (hneed : ∀ g ∈ pre, g.need + pre.length + 2 ≤ modelFuel)
    (hfit : (Comps.pair pre).fits { msg := msg }) (hpre : Comps.decPre pre { msg := msg })
    (hshort : msg.length < ((((Comps.pair pre).dec { msg := msg }).2).atParam bp bit).readEnd (8 * n)) :
    decodeMessage none (Comps.toParams pre ++ .mk name bp bit (.matchingReq reqPos n) :: post) msg true = .error .decode := by
  obtain ⟨k, hk⟩ : ∃ k, modelFuel - 2 - pre.length = (k + 1) + 1 := ⟨modelFuel - 4 - pre.length, by omega⟩
  refine C05_truncated_param_described2 pre mid hd _ post msg _ hk (by omega) hneed hfit hpre _ _ ?_ hshort
  exact .matchingReq _ _ _ _ _ _ _ hn

/-- RESERVED parameter of `bl ≥ 1` bits -/
theorem C05_truncated_reserved_described2 (pre : List Comp) (mid : Bool) (hd : ∀ g ∈ pre, Described2 g mid)
    (name : String) (bp bit : Option Nat) (bl : Nat) (hbl : bl ≠ 0) (post : List Param) (msg : Bytes)
    (hlen : pre.length + 4 ≤ modelFuel) (hneed : ∀ g ∈ pre, g.need + pre.length + 2 ≤ modelFuel)
    (hfit : (Comps.pair pre).fits { msg := msg }) (hpre : Comps.decPre pre { msg := msg })
    (hshort : msg.length < ((((Comps.pair pre).dec { msg := msg }).2).atParam bp bit).readEnd bl) :
    decodeMessage none (Comps.toParams pre ++ .mk name bp bit (.reserved bl) :: post) msg true = .error .decode := by
  obtain ⟨k, hk⟩ : ∃ k, modelFuel - 2 - pre.length = (k + 1) + 1 := ⟨modelFuel - 4 - pre.length, by omega⟩
  refine C05_truncated_param_described2 pre mid hd _ post msg _ hk (by omega) hneed hfit hpre _ _ ?_ hshort
  exact .reserved _ _ _ _ _ _ hbl

/-! ### non-vacuity of the `Described2` corollaries: W19's nested prefix `c5Pre` (constant + dynamic-length field of two items, each
    a byte and a structure with a static field), `2E | 02 | A1 01 02 | A2 03 04 | 7F` — one byte behind the prefix -/

theorem c5Pre_described2 : ∀ g ∈ c5Pre, Described2 g false := fun g hg => (c5Pre_described g hg).to2

theorem c5Pre_need : ∀ g ∈ c5Pre, g.need + c5Pre.length + 2 ≤ modelFuel := by
  intro g hg
  simp only [c5Pre, List.mem_cons, List.mem_nil_iff, or_false] at hg
  rcases hg with rfl | rfl <;> decide

set_option maxRecDepth 4000 in
/-- a MIN-MAX byte field with MIN-LENGTH 2 behind the prefix: one byte is there -/
theorem C05_truncated_minmax_described2_example :
    decodeMessage none (Comps.toParams c5Pre ++
      [.mk "m" none none (.value (.simple (.minmax .bytefield none true 2 (some 4) .zero) .bytefield .identical) none)]) c5Msg true
      = .error .decode := by
  refine C05_truncated_minmax_described2 c5Pre false c5Pre_described2 "m" none .bytefield none true 2 (some 4) .zero .bytefield .identical
    none [] c5Msg (by decide) c5Pre_need c5Pre_fits c5Pre_decPre ?_
  simp only [c5Pre, Comps.pair, Pair.map, Pair.seq, Pair.nil, Comp.ofObjConst, Pair.ofObj, exDf, Comp.ofValue, Pair.atPos, DComp.dynLenField,
    Pair.inOrigin, dynInnerC, Pair.guard, dynBodyC, List.map, Pair.list, dynItemC, Pair.advancing, DComp.struct, exDfItem, u8, Comp.ofObjValue, exInner,
    DComp.staticField, staticItemC, Pair.padTo, DecState.atParam, DecState.readEnd]
  decide +kernel

set_option maxRecDepth 4000 in
/-- a MATCHING-REQUEST-PARAM of two bytes behind the prefix -/
theorem C05_truncated_matching_described2_example :
    decodeMessage none (Comps.toParams c5Pre ++ [.mk "r" none none (.matchingReq 0 2)]) c5Msg true = .error .decode := by
  refine C05_truncated_matching_described2 c5Pre false c5Pre_described2 "r" none none 0 2 (by decide) [] c5Msg (by decide) c5Pre_need
    c5Pre_fits c5Pre_decPre ?_
  simp only [c5Pre, Comps.pair, Pair.map, Pair.seq, Pair.nil, Comp.ofObjConst, Pair.ofObj, exDf, Comp.ofValue, Pair.atPos, DComp.dynLenField,
    Pair.inOrigin, dynInnerC, Pair.guard, dynBodyC, List.map, Pair.list, dynItemC, Pair.advancing, DComp.struct, exDfItem, u8, Comp.ofObjValue, exInner,
    DComp.staticField, staticItemC, Pair.padTo, DecState.atParam, DecState.readEnd]
  decide +kernel

set_option maxRecDepth 4000 in
/-- a LEADING-LENGTH object with a 16-bit length prefix behind the prefix -/
theorem C05_truncated_leading_described2_example :
    decodeMessage none (Comps.toParams c5Pre ++
      [.mk "l" none none (.value (.simple (.leading .bytefield none true 16) .bytefield .identical) none)]) c5Msg true = .error .decode := by
  refine C05_truncated_leading_described2 c5Pre false c5Pre_described2 "l" none none .bytefield none true 16 (by decide) .bytefield .identical
    none [] c5Msg (by decide) c5Pre_need c5Pre_fits c5Pre_decPre ?_
  simp only [c5Pre, Comps.pair, Pair.map, Pair.seq, Pair.nil, Comp.ofObjConst, Pair.ofObj, exDf, Comp.ofValue, Pair.atPos, DComp.dynLenField,
    Pair.inOrigin, dynInnerC, Pair.guard, dynBodyC, List.map, Pair.list, dynItemC, Pair.advancing, DComp.struct, exDfItem, u8, Comp.ofObjValue, exInner,
    DComp.staticField, staticItemC, Pair.padTo, DecState.atParam, DecState.readEnd]
  decide +kernel

set_option maxRecDepth 4000 in
/-- a RESERVED parameter of 12 bits behind the prefix -/
theorem C05_truncated_reserved_described2_example :
    decodeMessage none (Comps.toParams c5Pre ++ [.mk "x" none none (.reserved 12)]) c5Msg true = .error .decode := by
  refine C05_truncated_reserved_described2 c5Pre false c5Pre_described2 "x" none none 12 (by decide) [] c5Msg (by decide) c5Pre_need
    c5Pre_fits c5Pre_decPre ?_
  simp only [c5Pre, Comps.pair, Pair.map, Pair.seq, Pair.nil, Comp.ofObjConst, Pair.ofObj, exDf, Comp.ofValue, Pair.atPos, DComp.dynLenField,
    Pair.inOrigin, dynInnerC, Pair.guard, dynBodyC, List.map, Pair.list, dynItemC, Pair.advancing, DComp.struct, exDfItem, u8, Comp.ofObjValue, exInner,
    DComp.staticField, staticItemC, Pair.padTo, DecState.atParam, DecState.readEnd]
  decide +kernel

/-! ### the log against W19's `Reads`, at the leaves -/

/-- **Every request of a diag-coded type is an object of `Reads` (strict mode)**: for the four diag-coded types (standard-length
    with and without BIT-MASK, MIN-MAX, LEADING-LENGTH, PARAM-LENGTH), every state and every log: an entry that a strict run of
    `decodeDctL c` (returned or raised) adds to the log carries the current probe flag and is an object of `Reads true n (.dct c)`
    with exactly these bytes — or it is the body of a MIN-MAX object, which lies inside the message (its length is computed from
    the message).  The leaf level of `C05_requests_are_reads` below.
    In lenient mode the statement is false at the leaves already: a float object of the wrong width and a MIN-MAX object at a
    non-zero bit cursor are requested (after a swallowed `odxraise`) but have no rule in `Reads`. -/
theorem C05_leaf_requests_are_reads (n : Nat) (c : Dct) (ls : LState) :
    ∀ e ∈ resLog (decodeDctL c ls true), e ∈ ls.log ∨
      (e.probe = ls.probe ∧
        ((∃ dr bl, Reads true n (.dct c) ls.st dr bl ∧ e.start = dr.cursorByte ∧ e.stop = dr.readEnd bl) ∨
         e.stop ≤ ls.st.msg.length)) :=
  decodeDctL_requests n c ls

/-- instance: LEADING-LENGTH (8-bit prefix) at byte 1 of `22 03 aa bb`: the run adds the prefix request `1…2` and the body
    request `2…5`; both are objects of `Reads` (`leadingLen`, `leadingBody` with the length 3 read from the message) -/
example : resLog (decodeDctL (.leading .bytefield none true 8) { st := { msg := [0x22, 3, 0xaa, 0xbb], cursorByte := 1 } } true) =
    [⟨2, 5, false⟩, ⟨1, 2, false⟩] := by decide +kernel
example : ∃ dr bl, Reads true 0 (.dct (.leading .bytefield none true 8)) { msg := [0x22, 3, 0xaa, 0xbb], cursorByte := 1 } dr bl ∧
    dr.cursorByte = 2 ∧ dr.readEnd bl = 5 := by
  have h := C05_leaf_requests_are_reads 0 (.leading .bytefield none true 8)
    { st := { msg := [0x22, 3, 0xaa, 0xbb], cursorByte := 1 } } ⟨2, 5, false⟩ (by decide +kernel)
  rcases h with h | ⟨_, ⟨dr, bl, hr, h1, h2⟩ | h⟩
  · cases h
  · exact ⟨dr, bl, hr, h1.symm, h2.symm⟩
  · exact absurd h (by decide)

/-! ### W19's `Reads` is complete for the requests of a strict run (W19, NOT proved (2)) -/

/-- the log of `decodeMessageL` is the log of the run of the instrumented decoder -/
theorem decodeMessageL_log (bs : Option Nat) (ps : List Param) (msg : Bytes) (st : Bool) :
    (decodeMessageL bs ps msg st).2 = resLog (decodeDopL modelFuel (.struct bs ps) { st := { msg := msg } } st) := by
  unfold decodeMessageL
  cases decodeDopL modelFuel (.struct bs ps) { st := { msg := msg } } st with
  | ok p => rfl
  | error p => rfl

/-- **`Reads` is complete (strict mode, whole model).**  Every byte range `Request.decode(msg)` / `Response.decode(msg)` requests
    from the message outside an end-marker probe — whether the run returns or raises — is an object the decoder "has to read" in
    the sense of W19 (`MsgReads true bs ps msg start stop`: there is a derivation of `Reads` with exactly these bytes), or it is
    the body of a MIN-MAX object and lies inside the message.  So in strict mode W19's relation misses no `extractCore` call that
    could be cut off; it was "by inspection" before (`Proofs/CompTrunc2Cov.lean`: `cov_decode_all`, one step lemma per decoding
    function, 33 rules). -/
theorem C05_requests_are_reads (bs : Option Nat) (ps : List Param) (msg : Bytes) (e : LEntry)
    (he : e ∈ (decodeMessageL bs ps msg true).2) (hp : e.probe = false) :
    MsgReads true bs ps msg e.start e.stop ∨ e.stop ≤ msg.length := by
  rw [decodeMessageL_log] at he
  rcases (cov_decode_all modelFuel).1 (.struct bs ps) { st := { msg := msg } } e he with h | h
  · cases h
  · rcases h.2 with h1 | ⟨dr, bl, hr, h2, h3⟩ | h1
    · rw [hp] at h1; cases h1
    · exact .inl ⟨dr, bl, hr, h2, h3⟩
    · exact .inr h1

/-- … hence, in strict mode, a request that exceeds the message is an object of `Reads` that is cut off: W26's
    `C05_truncated_rejected_all` (strict) also follows from W19's `C05_truncated_rejected_nested` -/
theorem C05_short_request_is_reads (bs : Option Nat) (ps : List Param) (msg : Bytes) (e : LEntry)
    (he : e ∈ (decodeMessageL bs ps msg true).2) (hp : e.probe = false) (hshort : msg.length < e.stop) :
    MsgReads true bs ps msg e.start e.stop := by
  rcases C05_requests_are_reads bs ps msg e he hp with h | h
  · exact h
  · omega

example (bs : Option Nat) (ps : List Param) (msg : Bytes) (e : LEntry)
    (he : e ∈ (decodeMessageL bs ps msg true).2) (hp : e.probe = false) (hshort : msg.length < e.stop) :
    decodeMessage bs ps msg true = .error .decode :=
  C05_truncated_rejected_nested true bs ps msg e.start e.stop (C05_short_request_is_reads bs ps msg e he hp hshort) hshort

/-- instance: the cut-off request `6…8` of `c5Req_log` is W19's `c5Req_reads` — obtained from the log, not by a hand-made derivation -/
example : MsgReads true none c5Req [0x22, 0x02, 0x0a, 0x0b, 0x0c, 0x1a, 0x1b] 6 8 :=
  C05_short_request_is_reads none c5Req _ ⟨6, 8, false⟩ (by rw [c5Req_log]; decide) rfl (by decide)

end OdxVerif.Codec
