import OdxVerif.Proofs.CompuSem
import OdxVerif.Proofs.CompuInterpRange
/-! # C07 — compu methods compute the mathematically specified conversion

    All theorems are about the executable model `OdxVerif/Model/Compu.lean` (which mirrors
    `odxtools/compumethods/*.py` with the fixes `fixes/c07-*.patch`) and hold for **all** coefficients,
    limits, interval types, scale counts and values — no bound anywhere. Arithmetic is exact (`Rat`);
    `represents ty p q` = "`p` is `q` for a real type, an integer nearest to `q` for an integer type".
    Vocabulary: `OdxVerif/Spec/CompuExact.lean` (formulas, interval semantics, `nearest`, `Interp`) and
    `OdxVerif/Proofs/CompuSem.lean` (`WF`, `validInternalSpec`, `validPhysicalSpec`). -/
namespace OdxVerif.Compu

/-! ## limits and rounding -/

/-- **Limits honour their interval type.** For a limit with numeric value `q` and any numeric value `x`:
    lower limit ⇔ `q ≤ x` (CLOSED or untyped), `q < x` (OPEN), true (INFINITE); upper limit symmetric.
    A limit without value never restricts. -/
theorem C07_limits (a v : Val) (q x : Rat) (ha : a.num? = some q) (hv : v.num? = some x) (t : Option IType) :
    ({ value := some a, itype := t } : Limit).compliesLower v = .ok (decide (lowerOk t q x)) ∧
    ({ value := some a, itype := t } : Limit).compliesUpper v = .ok (decide (upperOk t q x)) ∧
    ({ value := none, itype := t } : Limit).compliesLower v = .ok true ∧
    ({ value := none, itype := t } : Limit).compliesUpper v = .ok true := by
  have hn : ({ value := some a, itype := t } : Limit).numeric := by
    intro b hb; simp at hb; subst hb; exact ⟨q, ha⟩
  obtain ⟨b1, h1, i1⟩ := compliesLower_num hn hv
  obtain ⟨b2, h2, i2⟩ := compliesUpper_num hn hv
  refine ⟨?_, ?_, rfl, rfl⟩
  · rw [h1]; congr 1
    rw [Bool.eq_iff_iff, i1]; simp [Limit.lowerSem, ha]
  · rw [h2]; congr 1
    rw [Bool.eq_iff_iff, i2]; simp [Limit.upperSem, ha]

example : ({ value := some (.int 3), itype := some .open_ } : Limit).compliesLower (.flt (7/2)) = .ok true ∧
    ({ value := some (.int 3), itype := some .open_ } : Limit).compliesLower (.int 3) = .ok false ∧
    ({ value := some (.int 3), itype := some .closed } : Limit).compliesLower (.int 3) = .ok true ∧
    ({ value := some (.int 3), itype := some .infinite } : Limit).compliesUpper (.int 99) = .ok true := by
  refine ⟨?_, ?_, ?_, ?_⟩ <;> decide +kernel

/-- **Integer results are rounded to nearest** (`round` = half-to-even is one of the nearest integers, and
    the only one away from ties). -/
theorem C07_round_nearest (q : Rat) :
    nearest (roundHalfEven q) q ∧ (¬ isTie q → ∀ z : Int, nearest z q → z = roundHalfEven q) :=
  ⟨roundHalfEven_nearest q, fun hn _ hz => nearest_eq_round_of_not_tie hn hz⟩

example : roundHalfEven (5/2) = 2 ∧ roundHalfEven (7/2) = 4 ∧ roundHalfEven (-5/2) = -2 ∧ roundHalfEven (12/5) = 2 := by
  decide +kernel

/-! ## per category: conversion = formula -/

/-- **IDENTICAL**: both directions are the identity; valid ⇔ admissible type. -/
theorem C07_identical (ity pty : DType) (v : Val) :
    (Method.identical ity pty).i2p v = .ok v ∧ (Method.identical ity pty).p2i v = .ok v ∧
    ((Method.identical ity pty).validI v = .ok true ↔ admissible ity v) ∧
    ((Method.identical ity pty).validP v = .ok true ↔ admissible pty v) := by
  refine ⟨rfl, rfl, ?_, ?_⟩ <;> simp [Method.validI, Method.validP, ← typeOk_iff]

/-- **LINEAR forward**: every valid internal value converts to `(offset + factor·x)/denominator`
    (exactly for real physical types, to a nearest integer for integer types). -/
theorem C07_linear_forward (s : LinSeg) (hwf : s.WF) (v : Val) (hvalid : (Method.linear s).validI v = .ok true) :
    ∃ x, v.num? = some x ∧ inLimits s.ilo s.ihi x ∧
      ∃ p, (Method.linear s).i2p v = .ok p ∧ represents s.pty p (linear s.offset s.factor s.denom x) := by
  obtain ⟨hder, hd, hity, _⟩ := hwf
  obtain ⟨b, hb, hiff⟩ := intApplies_spec s hder.ilo_num hder.ihi_num hity v
  have hvb : s.intApplies v = .ok true := hvalid
  rw [hvb] at hb; cases hb
  obtain ⟨_, x, hx, hin⟩ := hiff.mp rfl
  refine ⟨x, hx, hin, mkNum s.pty (linear s.offset s.factor s.denom x), ?_, mkNum_represents _ _⟩
  simp [Method.i2p, hvb, bind, Except.bind, convI2P_num s hd hx]

/-- **LINEAR backward**: every valid physical value converts to `(p·denominator − offset)/factor`
    (nearest integer for integer internal types); a segment with factor 0 returns its COMPU-INVERSE-VALUE. -/
theorem C07_linear_backward (s : LinSeg) (hwf : s.WF) (v : Val) (hvalid : (Method.linear s).validP v = .ok true) :
    ∃ y, v.num? = some y ∧ inLimits s.plo s.phi y ∧
      (eps ≤ |s.factor| → ∃ i, (Method.linear s).p2i v = .ok i ∧ represents s.ity i (linearInv s.offset s.factor s.denom y)) ∧
      (|s.factor| < eps → (Method.linear s).p2i v = .ok s.inv) := by
  obtain ⟨hder, _, _, hpty⟩ := hwf
  obtain ⟨b, hb, hiff⟩ := physApplies_spec s hder.plo_num hder.phi_num hpty v
  have hvb : s.physApplies v = .ok true := hvalid
  rw [hvb] at hb; cases hb
  obtain ⟨_, y, hy, hin⟩ := hiff.mp rfl
  refine ⟨y, hy, hin, ?_, ?_⟩
  · intro hf
    exact ⟨_, by simp [Method.p2i, hvb, bind, Except.bind, convP2I_num s hf hy], mkNum_represents _ _⟩
  · intro hf
    simp [Method.p2i, hvb, bind, Except.bind, convP2I_flat s hf hy]

/-- **Physical limits are the images of the internal limits**, swapped when the slope is negative
    (`LinSeg.Derived` spells this out with `imageLimit`). -/
theorem C07_linear_phys_limits (ity pty : DType) (sc : Scale) (s : LinSeg) (h : mkLinSeg ity pty sc = .ok s)
    (hd : s.denom ≠ 0) : s.ilo = sc.lo ∧ s.ihi = sc.hi ∧ s.Derived := by
  obtain ⟨_, _, h1, h2, _, _, h3⟩ := mkLinSeg_spec h
  exact ⟨h1, h2, h3 hd⟩

/-- `(1 + 5x)/1` on `[2, 15]`, A_INT32 → A_INT32 (tests/test_compu_methods.py::test_linear_compu_method_limits) -/
def limSeg : LinSeg :=
  { offset := 1, factor := 5, denom := 1, ilo := some ⟨some (.int 2), none⟩, ihi := some ⟨some (.int 15), none⟩, inv := .int 0,
    ity := .int32, pty := .int32, plo := some ⟨some (.int 11), none⟩, phi := some ⟨some (.int 76), none⟩ }

theorem limSeg_wf : mkLinSeg .int32 .int32
      { lo := some ⟨some (.int 2), none⟩, hi := some ⟨some (.int 15), none⟩, coeffs := some ([1, 5], [1]) } = .ok limSeg ∧ limSeg.WF := by
  have hmk : mkLinSeg .int32 .int32
      { lo := some ⟨some (.int 2), none⟩, hi := some ⟨some (.int 15), none⟩, coeffs := some ([1, 5], [1]) } = .ok limSeg := by decide +kernel
  have hd : limSeg.denom ≠ 0 := by decide +kernel
  exact ⟨hmk, (C07_linear_phys_limits _ _ _ _ hmk hd).2.2, hd, rfl, rfl⟩

/-- non-vacuity of the LINEAR theorems: a well-formed segment with limits, a valid value, its image and back -/
example : limSeg.WF ∧ (Method.linear limSeg).validI (.int 4) = .ok true ∧ (Method.linear limSeg).validI (.int 1) = .ok false ∧
    (Method.linear limSeg).i2p (.int 4) = .ok (.int 21) ∧ (Method.linear limSeg).validP (.int 21) = .ok true ∧
    (Method.linear limSeg).validP (.int 77) = .ok false ∧ (Method.linear limSeg).p2i (.int 21) = .ok (.int 4) ∧
    eps ≤ |limSeg.factor| ∧ notOpen limSeg.ilo ∧ notOpen limSeg.ihi ∧ |limSeg.denom| < |limSeg.factor| := by
  refine ⟨limSeg_wf.2, ?_, ?_, ?_, ?_, ?_, ?_, ?_, ?_, ?_, ?_⟩
  · decide +kernel
  · decide +kernel
  · decide +kernel
  · decide +kernel
  · decide +kernel
  · decide +kernel
  · decide +kernel
  · intro l h; cases h; decide
  · intro l h; cases h; decide
  · decide +kernel

/-- **SCALE-LINEAR forward**: the result is the formula of the *first* scale (in document order) whose
    limits contain the value; and a valid value always converts. -/
theorem C07_scale_linear_forward (segs : List LinSeg) (inv : Bool) (v : Val) :
    (∀ p, (Method.scaleLinear segs inv).i2p v = .ok p →
      ∃ pre s post x, segs = pre ++ s :: post ∧ (∀ t ∈ pre, t.intApplies v = .ok false) ∧ s.intApplies v = .ok true ∧
        v.num? = some x ∧ represents s.pty p (linear s.offset s.factor s.denom x)) ∧
    ((Method.scaleLinear segs inv).WF → (Method.scaleLinear segs inv).validI v = .ok true →
      ∃ p, (Method.scaleLinear segs inv).i2p v = .ok p) := by
  constructor
  · intro p hp
    simp only [Method.i2p, bind, Except.bind] at hp
    cases hf : filterR (fun s : LinSeg => s.intApplies v) segs with
    | error e => simp [hf] at hp
    | ok app =>
      simp only [hf] at hp
      cases app with
      | nil => cases hp
      | cons s rest =>
        simp only [] at hp
        obtain ⟨pre, post, e, h1, h2⟩ := filterR_cons_ok hf
        obtain ⟨x, hx, _, rfl⟩ := LinSeg.convI2P_ok hp
        exact ⟨pre, s, post, x, e, h1, h2, hx, mkNum_represents _ _⟩
  · intro hwf hvalid
    have hwf' : ∀ s ∈ segs, s.WF := hwf
    have htot : ∀ s ∈ segs, ∃ b, s.intApplies v = .ok b := by
      intro s hs
      obtain ⟨hder, _, hity, _⟩ := hwf' s hs
      obtain ⟨b, hb, _⟩ := intApplies_spec s hder.ilo_num hder.ihi_num hity v
      exact ⟨b, hb⟩
    obtain ⟨r, hr, hmem⟩ := filterR_total htot
    have hspec := anyR_spec (p := fun s : LinSeg => s.intApplies v) (P := fun s => s.intApplies v = .ok true) (xs := segs)
      (by intro s hs; obtain ⟨b, hb⟩ := htot s hs; exact ⟨b, hb, by rw [hb]; simp⟩)
    obtain ⟨b, hb, hbiff⟩ := hspec
    have hvb : anyR (fun s : LinSeg => s.intApplies v) segs = .ok true := hvalid
    rw [hvb] at hb; cases hb
    obtain ⟨s, hs, hsa⟩ := hbiff.mp rfl
    have hsr : s ∈ r := (hmem s).mpr ⟨hs, hsa⟩
    cases r with
    | nil => cases hsr
    | cons s' rest =>
      have hs' := (hmem s').mp (by simp)
      obtain ⟨hder, hd, hity, _⟩ := hwf' s' hs'.1
      obtain ⟨b', hb', hiff'⟩ := intApplies_spec s' hder.ilo_num hder.ihi_num hity v
      rw [hs'.2] at hb'; cases hb'
      obtain ⟨_, x, hx, _⟩ := hiff'.mp rfl
      exact ⟨mkNum s'.pty (linear s'.offset s'.factor s'.denom x), by simp [Method.i2p, bind, Except.bind, hr, convI2P_num s' hd hx]⟩

/-- **SCALE-LINEAR backward**: an invertible method converts a valid physical value with the inverse formula of
    the first scale whose derived physical limits contain it; a non-invertible method encodes nothing. -/
theorem C07_scale_linear_backward (segs : List LinSeg) (inv : Bool) (v : Val) :
    (∀ i, (Method.scaleLinear segs inv).p2i v = .ok i →
      inv = true ∧ ∃ pre s post y, segs = pre ++ s :: post ∧ (∀ t ∈ pre, t.physApplies v = .ok false) ∧
        s.physApplies v = .ok true ∧ v.num? = some y ∧
        (eps ≤ |s.factor| → represents s.ity i (linearInv s.offset s.factor s.denom y)) ∧
        (|s.factor| < eps → i = s.inv)) ∧
    (inv = false → (Method.scaleLinear segs inv).p2i v = .error .encode) := by
  constructor
  · intro i hi
    cases inv with
    | false => simp [Method.p2i] at hi
    | true =>
      refine ⟨rfl, ?_⟩
      simp only [Method.p2i, bind, Except.bind, Bool.not_true, Bool.false_eq_true, if_false] at hi
      cases hf : filterR (fun s : LinSeg => s.physApplies v) segs with
      | error e => simp [hf] at hi
      | ok app =>
        simp only [hf] at hi
        cases app with
        | nil => cases hi
        | cons s rest =>
          simp only [] at hi
          obtain ⟨pre, post, e, h1, h2⟩ := filterR_cons_ok hf
          cases hy : v.num? with
          | none => simp [LinSeg.convP2I, hy] at hi
          | some y =>
            refine ⟨pre, s, post, y, e, h1, h2, rfl, ?_, ?_⟩
            · intro hfac; rw [convP2I_num s hfac hy] at hi; cases hi; exact mkNum_represents _ _
            · intro hfac; rw [convP2I_flat s hfac hy] at hi; cases hi; rfl
  · intro h; subst h; simp [Method.p2i]

/-- **TAB-INTP forward**: a valid internal value is converted by linear interpolation between the first pair
    of adjacent samples that brackets it (`Interp`), exactly for real types, to a nearest integer otherwise. -/
theorem C07_tab_intp_forward (ity pty : DType) (ipts ppts : List Rat) (hwf : (Method.tabIntp ity pty ipts ppts).WF) (v : Val)
    (hvalid : (Method.tabIntp ity pty ipts ppts).validI v = .ok true) :
    ∃ x r, v.num? = some x ∧ Interp x ipts ppts r ∧
      ∃ p, (Method.tabIntp ity pty ipts ppts).i2p v = .ok p ∧ represents pty p r := by
  obtain ⟨hlen, h2, _, _⟩ := hwf
  simp only [Method.validI] at hvalid
  cases hx : v.num? with
  | none => simp [hx] at hvalid
  | some x =>
    simp only [hx, Except.ok.injEq, Bool.and_eq_true, decide_eq_true_eq] at hvalid
    obtain ⟨r, hr⟩ := interp_isSome x ipts ppts hlen h2 hvalid.2.1 hvalid.2.2
    exact ⟨x, r, rfl, (interp_iff _ _ _ _).mp hr, mkNum pty r, by simp [Method.i2p, hx, hr], mkNum_represents _ _⟩

/-- **TAB-INTP backward**: the same with the roles of the two sample lists exchanged. -/
theorem C07_tab_intp_backward (ity pty : DType) (ipts ppts : List Rat) (hwf : (Method.tabIntp ity pty ipts ppts).WF) (v : Val)
    (hvalid : (Method.tabIntp ity pty ipts ppts).validP v = .ok true) :
    ∃ y r, v.num? = some y ∧ Interp y ppts ipts r ∧
      ∃ i, (Method.tabIntp ity pty ipts ppts).p2i v = .ok i ∧ represents ity i r := by
  obtain ⟨hlen, h2, _, _⟩ := hwf
  simp only [Method.validP] at hvalid
  cases hx : v.num? with
  | none => simp [hx] at hvalid
  | some y =>
    simp only [hx, Except.ok.injEq, Bool.and_eq_true, decide_eq_true_eq] at hvalid
    obtain ⟨r, hr⟩ := interp_isSome y ppts ipts hlen.symm (hlen ▸ h2) hvalid.2.1 hvalid.2.2
    exact ⟨y, r, rfl, (interp_iff _ _ _ _).mp hr, mkNum ity r, by simp [Method.p2i, hx, hr], mkNum_represents _ _⟩

/-- **TAB-INTP rounds** (it does not truncate): whenever an integer-typed conversion succeeds the result is
    `round` of the interpolated value, in both directions. -/
theorem C07_tab_intp_rounds (ity pty : DType) (ipts ppts : List Rat) (v p : Val) :
    (pty.isInt = true → (Method.tabIntp ity pty ipts ppts).i2p v = .ok p →
      ∃ x r, v.num? = some x ∧ Interp x ipts ppts r ∧ p = .int (roundHalfEven r)) ∧
    (ity.isInt = true → (Method.tabIntp ity pty ipts ppts).p2i v = .ok p →
      ∃ y r, v.num? = some y ∧ Interp y ppts ipts r ∧ p = .int (roundHalfEven r)) := by
  constructor
  · intro hint h
    simp only [Method.i2p] at h
    cases hx : v.num? with
    | none => simp [hx] at h
    | some x =>
      simp only [hx] at h
      cases hr : interp x ipts ppts with
      | none => simp [hr] at h
      | some r =>
        simp only [hr, Except.ok.injEq] at h
        exact ⟨x, r, rfl, (interp_iff _ _ _ _).mp hr, by rw [← h]; simp [mkNum, hint]⟩
  · intro hint h
    simp only [Method.p2i] at h
    cases hx : v.num? with
    | none => simp [hx] at h
    | some y =>
      simp only [hx] at h
      cases hr : interp y ppts ipts with
      | none => simp [hr] at h
      | some r =>
        simp only [hr, Except.ok.injEq] at h
        exact ⟨y, r, rfl, (interp_iff _ _ _ _).mp hr, by rw [← h]; simp [mkNum, hint]⟩

example : (Method.tabIntp .uint32 .uint32 [0, 10] [0, 5]).i2p (.int 3) = .ok (.int 2) ∧
    (Method.tabIntp .uint32 .uint32 [0, 10] [0, 5]).i2p (.int 7) = .ok (.int 4) ∧
    (Method.tabIntp .uint32 .uint32 [0, 10] [10, 0]).p2i (.int 6) = .ok (.int 4) := by
  refine ⟨?_, ?_, ?_⟩ <;> decide +kernel

/-- **TAB-INTP image valid** (round 6): in exact arithmetic the image of every valid internal value of a TAB-INTP
    method with a real physical type is a valid physical value — the interpolated value lies between the two samples
    it is interpolated from (`lerp_between`), hence inside `[min, max]` of the physical samples (`interp_in_range`).
    Any table: unsorted, non-monotone, with plateaus.  (The double evaluation of the implementation can miss an
    extreme sample by rounding noise: known finding `tabintp-extreme-sample-rounding`; the proposed clamp between the
    two samples is the identity on the exact value.) -/
theorem C07_tab_intp_image_valid (ity pty : DType) (ipts ppts : List Rat) (hwf : (Method.tabIntp ity pty ipts ppts).WF)
    (hreal : pty.isInt = false) (v : Val) (hvalid : (Method.tabIntp ity pty ipts ppts).validI v = .ok true) :
    ∃ p, (Method.tabIntp ity pty ipts ppts).i2p v = .ok p ∧ (Method.tabIntp ity pty ipts ppts).validP p = .ok true := by
  obtain ⟨hlen, h2, _, hpnum⟩ := hwf
  simp only [Method.validI] at hvalid
  cases hx : v.num? with
  | none => simp [hx] at hvalid
  | some x =>
    simp only [hx, Except.ok.injEq, Bool.and_eq_true, decide_eq_true_eq] at hvalid
    obtain ⟨r, hr⟩ := interp_isSome x ipts ppts hlen h2 hvalid.2.1 hvalid.2.2
    have hrange := interp_in_range x ipts ppts r hr
    refine ⟨.flt r, by simp [Method.i2p, hx, hr, mkNum, hreal], ?_⟩
    have hty : typeOk pty (.flt r) = true := by
      cases pty <;> simp_all [typeOk, numericType, DType.isInt, DType.isFloat]
    simp [Method.validP, Val.num?, hty, hrange.1, hrange.2]

/-- the table of the known finding, exactly: `(84 ↦ 17.3), (110 ↦ −0.8)`; the sample point 110 maps to the sample −0.8
    itself, which is valid and converts back to 110 -/
example : (Method.tabIntp .uint32 .float64 [84, 110] [173/10, -8/10]).i2p (.int 110) = .ok (.flt (-8/10)) ∧
    (Method.tabIntp .uint32 .float64 [84, 110] [173/10, -8/10]).validP (.flt (-8/10)) = .ok true ∧
    (Method.tabIntp .uint32 .float64 [84, 110] [173/10, -8/10]).p2i (.flt (-8/10)) = .ok (.int 110) := by
  refine ⟨?_, ?_, ?_⟩ <;> decide +kernel

/-- **RAT-FUNC forward**: a valid internal value converts to `Σ nₖxᵏ / Σ dₖxᵏ` (denominator 1 when absent),
    provided the denominator does not vanish there. -/
theorem C07_rat_func_forward (f : RatSeg) (b : Option RatSeg) (hwf : (Method.ratFunc f b).WF) (v : Val)
    (hvalid : (Method.ratFunc f b).validI v = .ok true) :
    ∃ x, v.num? = some x ∧ inLimits f.lo f.hi x ∧
      (f.denomAt x ≠ 0 → ∃ p, (Method.ratFunc f b).i2p v = .ok p ∧ represents f.rangeTy p (ratFunc f.num f.den x)) := by
  obtain ⟨b', hb', hiff⟩ := RatSeg.applies_spec f hwf.1 v
  have hvb : f.applies v = .ok true := hvalid
  rw [hvb] at hb'; cases hb'
  obtain ⟨_, x, hx, hin⟩ := hiff.mp rfl
  refine ⟨x, hx, hin, fun hp => ⟨_, ?_, mkNum_represents _ _⟩⟩
  simp [Method.i2p, hvb, bind, Except.bind, RatSeg.convert_num f hx hp]

/-- **RAT-FUNC backward**: only an explicitly given inverse function is used; without COMPU-PHYS-TO-INTERNAL
    nothing is valid and nothing encodes. -/
theorem C07_rat_func_backward (f : RatSeg) (b : Option RatSeg) (hwf : (Method.ratFunc f b).WF) (v : Val) :
    (b = none → (Method.ratFunc f b).p2i v = .error .encode ∧ (Method.ratFunc f b).validP v = .ok false) ∧
    (∀ g, b = some g → (Method.ratFunc f b).validP v = .ok true →
      ∃ y, v.num? = some y ∧ inLimits g.lo g.hi y ∧
        (g.denomAt y ≠ 0 → ∃ i, (Method.ratFunc f b).p2i v = .ok i ∧ represents g.rangeTy i (ratFunc g.num g.den y))) := by
  constructor
  · intro h; subst h; exact ⟨rfl, rfl⟩
  · intro g hg hvalid
    subst hg
    obtain ⟨b', hb', hiff⟩ := RatSeg.applies_spec g (hwf.2 g rfl) v
    have hvb : g.applies v = .ok true := hvalid
    rw [hvb] at hb'; cases hb'
    obtain ⟨_, y, hy, hin⟩ := hiff.mp rfl
    refine ⟨y, hy, hin, fun hp => ⟨_, ?_, mkNum_represents _ _⟩⟩
    simp [Method.p2i, hvb, bind, Except.bind, RatSeg.convert_num g hy hp]

/-- **SCALE-RAT-FUNC forward**: the rational function of the first scale whose limits contain the value. -/
theorem C07_scale_rat_func_forward (f : List RatSeg) (b : Option (List RatSeg)) (v p : Val)
    (h : (Method.scaleRatFunc f b).i2p v = .ok p) :
    ∃ pre s post x, f = pre ++ s :: post ∧ (∀ t ∈ pre, t.applies v = .ok false) ∧ s.applies v = .ok true ∧
      v.num? = some x ∧ s.denomAt x ≠ 0 ∧ represents s.rangeTy p (ratFunc s.num s.den x) := by
  obtain ⟨pre, s, post, e, h1, h2, h3⟩ := firstRat_ok (show firstRat .decode v f = .ok p from h)
  obtain ⟨x, hx, hp, rfl⟩ := RatSeg.convert_ok h3
  exact ⟨pre, s, post, x, e, h1, h2, hx, hp, mkNum_represents _ _⟩

/-- **SCALE-RAT-FUNC backward**: the same over the explicitly given inverse scales; none given → nothing encodes. -/
theorem C07_scale_rat_func_backward (f : List RatSeg) (b : Option (List RatSeg)) (v : Val) :
    (b = none → (Method.scaleRatFunc f b).p2i v = .error .encode ∧ (Method.scaleRatFunc f b).validP v = .ok false) ∧
    (∀ gs i, b = some gs → (Method.scaleRatFunc f b).p2i v = .ok i →
      ∃ pre s post y, gs = pre ++ s :: post ∧ (∀ t ∈ pre, t.applies v = .ok false) ∧ s.applies v = .ok true ∧
        v.num? = some y ∧ s.denomAt y ≠ 0 ∧ represents s.rangeTy i (ratFunc s.num s.den y)) := by
  constructor
  · intro h; subst h; exact ⟨rfl, rfl⟩
  · intro gs i hg h
    subst hg
    obtain ⟨pre, s, post, e, h1, h2, h3⟩ := firstRat_ok (show firstRat .encode v gs = .ok i from h)
    obtain ⟨y, hy, hp, rfl⟩ := RatSeg.convert_ok h3
    exact ⟨pre, s, post, y, e, h1, h2, hy, hp, mkNum_represents _ _⟩

example : (Method.ratFunc { num := [1, 2], den := [], lo := none, hi := none, rangeTy := .float64, domTy := .uint32 }
      (some { num := [-1, 1], den := [2], lo := none, hi := none, rangeTy := .uint32, domTy := .float64 })).i2p (.int 1) = .ok (.flt 3) ∧
    (Method.ratFunc { num := [1, 2], den := [], lo := none, hi := none, rangeTy := .float64, domTy := .uint32 }
      (some { num := [-1, 1], den := [2], lo := none, hi := none, rangeTy := .uint32, domTy := .float64 })).p2i (.flt 3) = .ok (.int 1) := by
  refine ⟨?_, ?_⟩ <;> decide +kernel

/-- **TEXTTABLE forward**: the text of the single scale that applies; the default text when none applies;
    an error when several apply. -/
theorem C07_texttable_forward (ity pty : DType) (scales : List Scale) (pdef idef : Option Val) (v p : Val)
    (h : (Method.textTable ity pty scales pdef idef).i2p v = .ok p) :
    ∃ app, filterR (fun sc : Scale => sc.applies v) scales = .ok app ∧
      ((∃ sc, app = [sc] ∧ sc.const = some p) ∨ (app = [] ∧ pdef = some p)) := by
  simp only [Method.i2p, bind, Except.bind] at h
  cases hf : filterR (fun sc : Scale => sc.applies v) scales with
  | error e => simp [hf] at h
  | ok app =>
    refine ⟨app, rfl, ?_⟩
    simp only [hf] at h
    match app, h with
    | [], h =>
      right
      cases pdef with
      | none => simp [throw, throwThe, MonadExceptOf.throw] at h
      | some d => simp [pure, Except.pure] at h; exact ⟨rfl, by rw [h]⟩
    | [sc], h =>
      left
      cases hc : sc.const with
      | none => simp [hc, throw, throwThe, MonadExceptOf.throw] at h
      | some c => simp [hc, pure, Except.pure] at h; exact ⟨sc, rfl, by rw [← h]; exact hc⟩
    | _ :: _ :: _, h => simp [throw, throwThe, MonadExceptOf.throw] at h

/-- **TEXTTABLE inverse**: a text that names exactly one scale encodes to that scale's COMPU-INVERSE-VALUE,
    else its lower, else its upper limit value; an unknown text encodes to the default internal value; and the
    result converts back to the text whenever it selects that scale again (round trip). -/
theorem C07_texttable_inverse (ity pty : DType) (scales : List Scale) (pdef idef : Option Val) (p i : Val)
    (h : (Method.textTable ity pty scales pdef idef).p2i p = .ok i) :
    ((∃ sc, scales.filter (fun sc => match sc.const with | some c => c.pyEq p | none => false) = [sc] ∧
        sc.inverseValue = .ok i ∧
        (filterR (fun s : Scale => s.applies i) scales = .ok [sc] →
          ∃ p', (Method.textTable ity pty scales pdef idef).i2p i = .ok p' ∧ p'.pyEq p = true)) ∨
     (scales.filter (fun sc => match sc.const with | some c => c.pyEq p | none => false) = [] ∧ idef = some i)) := by
  simp only [Method.p2i] at h
  generalize hm : scales.filter (fun sc => match sc.const with | some c => c.pyEq p | none => false) = m at h
  match m, h with
  | [], h =>
    right
    cases idef with
    | none => cases h
    | some d => simp at h; exact ⟨rfl, by rw [h]⟩
  | [sc], h =>
    left
    refine ⟨sc, rfl, h, ?_⟩
    intro hsel
    have hmem : sc ∈ scales.filter (fun sc => match sc.const with | some c => c.pyEq p | none => false) := by rw [hm]; simp
    have hc := (List.mem_filter.mp hmem).2
    cases hcc : sc.const with
    | none => simp [hcc] at hc
    | some c =>
      simp [hcc] at hc
      exact ⟨c, by simp [Method.i2p, bind, Except.bind, hsel, hcc, pure, Except.pure], hc⟩
  | _ :: _ :: _, h => cases h

example : (Method.textTable .uint32 .str
      [{ lo := some ⟨some (.int 1), none⟩, hi := some ⟨some (.int 1), none⟩, const := some (.str "on") },
       { lo := some ⟨some (.int 2), some .closed⟩, hi := some ⟨some (.int 5), some .open_⟩, const := some (.str "err") }] none none).p2i (.str "err") = .ok (.int 2) ∧
    (Method.textTable .uint32 .str
      [{ lo := some ⟨some (.int 1), none⟩, hi := some ⟨some (.int 1), none⟩, const := some (.str "on") },
       { lo := some ⟨some (.int 2), some .closed⟩, hi := some ⟨some (.int 5), some .open_⟩, const := some (.str "err") }] none none).i2p (.int 4) = .ok (.str "err") := by
  refine ⟨?_, ?_⟩ <;> decide +kernel

/-- **COMPUCODE** is never executed: both directions reject, nothing is valid. -/
theorem C07_compucode_rejects (v : Val) :
    Method.compuCode.i2p v = .error .decode ∧ Method.compuCode.p2i v = .error .encode ∧
    Method.compuCode.validI v = .ok false ∧ Method.compuCode.validP v = .ok false := ⟨rfl, rfl, rfl, rfl⟩

/-! ## validity -/

/-- **An internal value is declared valid exactly when it has an admissible type and lies inside the declared
    scale limits** (`validInternalSpec`), for every category; and the test itself never raises. -/
theorem C07_valid_iff (m : Method) (hwf : m.WF) (v : Val) :
    ∃ b, m.validI v = .ok b ∧ (b = true ↔ m.validInternalSpec v) := by
  cases m with
  | identical ity pty => exact ⟨typeOk ity v, rfl, typeOk_iff _ _⟩
  | compuCode => exact ⟨false, rfl, by simp [Method.validInternalSpec]⟩
  | linear s =>
    obtain ⟨hder, _, hity, _⟩ := hwf
    exact intApplies_spec s hder.ilo_num hder.ihi_num hity v
  | scaleLinear segs inv =>
    have hwf' : ∀ s ∈ segs, s.WF := hwf
    exact anyR_spec (p := fun s : LinSeg => s.intApplies v)
      (P := fun s => admissible s.ity v ∧ ∃ x, v.num? = some x ∧ inLimits s.ilo s.ihi x)
      (fun s hs => by obtain ⟨hder, _, hity, _⟩ := hwf' s hs; exact intApplies_spec s hder.ilo_num hder.ihi_num hity v)
  | tabIntp ity pty ipts ppts =>
    simp only [Method.validI, Method.validInternalSpec]
    cases hx : v.num? with
    | none => exact ⟨false, rfl, by simp⟩
    | some x => exact ⟨_, rfl, by simp [typeOk_iff]⟩
  | ratFunc f b => exact RatSeg.applies_spec f hwf.1 v
  | scaleRatFunc f b =>
    exact anyR_spec (p := fun s : RatSeg => s.applies v)
      (P := fun s => admissible s.domTy v ∧ ∃ x, v.num? = some x ∧ inLimits s.lo s.hi x)
      (fun s hs => RatSeg.applies_spec s (hwf.1 s hs) v)
  | textTable ity pty scales pdef idef =>
    obtain ⟨hty, hsc⟩ := hwf
    simp only [Method.validI, Method.validInternalSpec]
    by_cases ht : typeOk ity v = true
    · have hadm := (typeOk_iff _ _).mp ht
      obtain ⟨x, hx⟩ := typeOk_num hty ht
      by_cases hp : pdef.isSome = true
      · exact ⟨true, by simp [ht, hp], by simp [hadm, hp]⟩
      · obtain ⟨b, hb, hiff⟩ := anyR_spec (p := fun sc : Scale => sc.applies v) (P := fun sc => sc.appliesSem x)
          (xs := scales) (fun sc hs => Scale.applies_spec sc (hsc sc hs) hx)
        refine ⟨b, by simp [ht, hp, hb], ?_⟩
        rw [hiff]
        constructor
        · rintro ⟨sc, hs, ha⟩; exact ⟨hadm, Or.inr ⟨sc, hs, x, hx, ha⟩⟩
        · rintro ⟨_, h | ⟨sc, hs, x', hx', ha⟩⟩
          · exact absurd h hp
          · rw [hx] at hx'; cases hx'; exact ⟨sc, hs, ha⟩
    · have hadm : ¬ admissible ity v := by rw [← typeOk_iff]; exact ht
      exact ⟨false, by simp [ht], by simp [hadm]⟩

/-- **Physical validity** likewise: admissible type ∧ inside the derived physical limits of an invertible
    piecewise-linear method / the limits of the given inverse function / among the texts. -/
theorem C07_valid_physical_iff (m : Method) (hwf : m.WF) (v : Val) :
    ∃ b, m.validP v = .ok b ∧ (b = true ↔ m.validPhysicalSpec v) := by
  cases m with
  | identical ity pty => exact ⟨typeOk pty v, rfl, typeOk_iff _ _⟩
  | compuCode => exact ⟨false, rfl, by simp [Method.validPhysicalSpec]⟩
  | linear s =>
    obtain ⟨hder, _, _, hpty⟩ := hwf
    exact physApplies_spec s hder.plo_num hder.phi_num hpty v
  | scaleLinear segs inv =>
    have hwf' : ∀ s ∈ segs, s.WF := hwf
    cases inv with
    | false => exact ⟨false, rfl, by simp [Method.validPhysicalSpec]⟩
    | true =>
      obtain ⟨b, hb, hiff⟩ := anyR_spec (p := fun s : LinSeg => s.physApplies v)
        (P := fun s => admissible s.pty v ∧ ∃ x, v.num? = some x ∧ inLimits s.plo s.phi x) (xs := segs)
        (fun s hs => by obtain ⟨hder, _, _, hpty⟩ := hwf' s hs; exact physApplies_spec s hder.plo_num hder.phi_num hpty v)
      exact ⟨b, by simp [Method.validP, hb], by simp [Method.validPhysicalSpec, hiff]⟩
  | tabIntp ity pty ipts ppts =>
    simp only [Method.validP, Method.validPhysicalSpec]
    cases hx : v.num? with
    | none => exact ⟨false, rfl, by simp⟩
    | some x => exact ⟨_, rfl, by simp [typeOk_iff]⟩
  | ratFunc f b =>
    cases b with
    | none => exact ⟨false, rfl, by simp [Method.validPhysicalSpec]⟩
    | some g =>
      obtain ⟨b, hb, hiff⟩ := RatSeg.applies_spec g (hwf.2 g rfl) v
      exact ⟨b, by simp [Method.validP, hb], by simp [Method.validPhysicalSpec, hiff]⟩
  | scaleRatFunc f b =>
    cases b with
    | none => exact ⟨false, rfl, by simp [Method.validPhysicalSpec]⟩
    | some gs =>
      obtain ⟨b, hb, hiff⟩ := anyR_spec (p := fun s : RatSeg => s.applies v)
        (P := fun s => admissible s.domTy v ∧ ∃ x, v.num? = some x ∧ inLimits s.lo s.hi x) (xs := gs)
        (fun s hs => RatSeg.applies_spec s (hwf.2 gs rfl s hs) v)
      exact ⟨b, by simp [Method.validP, hb], by simp [Method.validPhysicalSpec, hiff]⟩
  | textTable ity pty scales pdef idef =>
    simp only [Method.validP, Method.validPhysicalSpec]
    by_cases ht : typeOk pty v = true
    · have hadm := (typeOk_iff _ _).mp ht
      by_cases hp : idef.isSome = true
      · exact ⟨true, by simp [ht, hp], by simp [hadm, hp]⟩
      · refine ⟨_, by simp only [ht, hp]; rfl, ?_⟩
        have hp' : idef.isSome = false := by simpa using hp
        simp only [List.any_eq_true, hadm, hp', true_and, Bool.false_eq_true, false_or]
        constructor
        · rintro ⟨sc, hs, h⟩
          cases hc : sc.const with
          | none => simp [hc] at h
          | some c => exact ⟨sc, hs, c, hc, by simpa [hc] using h⟩
        · rintro ⟨sc, hs, c, hc, h⟩; exact ⟨sc, hs, by simp [hc, h]⟩
    · have hadm : ¬ admissible pty v := by rw [← typeOk_iff]; exact ht
      exact ⟨false, by simp [ht], by simp [hadm]⟩

/-- **Every physical value declared valid converts without error** (inside `EncodeEnvelope`: no pole of a
    given inverse function at the value, texts name at most one scale). -/
theorem C07_valid_converts (m : Method) (hwf : m.WF) (p : Val) (henv : m.EncodeEnvelope p)
    (hvalid : m.validP p = .ok true) : ∃ i, m.p2i p = .ok i := by
  cases m with
  | identical ity pty => exact ⟨p, rfl⟩
  | compuCode => cases hvalid
  | linear s =>
    obtain ⟨y, hy, _, _⟩ := C07_linear_backward s hwf p hvalid
    have hvb : s.physApplies p = .ok true := hvalid
    obtain ⟨i, hi⟩ := s.convP2I_total hy
    exact ⟨i, by simp [Method.p2i, hvb, bind, Except.bind, hi]⟩
  | scaleLinear segs inv =>
    have hwf' : ∀ s ∈ segs, s.WF := hwf
    cases inv with
    | false => cases hvalid
    | true =>
      have htot : ∀ s ∈ segs, ∃ b, s.physApplies p = .ok b := by
        intro s hs
        obtain ⟨hder, _, _, hpty⟩ := hwf' s hs
        obtain ⟨b, hb, _⟩ := physApplies_spec s hder.plo_num hder.phi_num hpty p
        exact ⟨b, hb⟩
      obtain ⟨r, hr, hmem⟩ := filterR_total htot
      obtain ⟨b, hb, hbiff⟩ := anyR_spec (p := fun s : LinSeg => s.physApplies p) (P := fun s => s.physApplies p = .ok true)
        (xs := segs) (by intro s hs; obtain ⟨b, hb⟩ := htot s hs; exact ⟨b, hb, by rw [hb]; simp⟩)
      have hvb : anyR (fun s : LinSeg => s.physApplies p) segs = .ok true := hvalid
      rw [hvb] at hb; cases hb
      obtain ⟨s, hs, hsa⟩ := hbiff.mp rfl
      have hsr : s ∈ r := (hmem s).mpr ⟨hs, hsa⟩
      cases r with
      | nil => cases hsr
      | cons s' rest =>
        have hs' := (hmem s').mp (by simp)
        obtain ⟨hder, _, _, hpty⟩ := hwf' s' hs'.1
        obtain ⟨b', hb', hiff'⟩ := physApplies_spec s' hder.plo_num hder.phi_num hpty p
        rw [hs'.2] at hb'; cases hb'
        obtain ⟨_, y, hy, _⟩ := hiff'.mp rfl
        obtain ⟨i, hi⟩ := s'.convP2I_total hy
        exact ⟨i, by simp [Method.p2i, bind, Except.bind, hr, hi]⟩
  | tabIntp ity pty ipts ppts =>
    obtain ⟨_, _, _, _, i, hi, _⟩ := C07_tab_intp_backward ity pty ipts ppts hwf p hvalid
    exact ⟨i, hi⟩
  | ratFunc f b =>
    cases b with
    | none => cases hvalid
    | some g =>
      obtain ⟨y, hy, _, h⟩ := (C07_rat_func_backward f (some g) hwf p).2 g rfl hvalid
      obtain ⟨i, hi, _⟩ := h (henv y hy)
      exact ⟨i, hi⟩
  | scaleRatFunc f b =>
    cases b with
    | none => cases hvalid
    | some gs =>
      have hw : ∀ s ∈ gs, s.WF := hwf.2 gs rfl
      have htot : ∀ s ∈ gs, ∃ b, s.applies p = .ok b := fun s hs => by
        obtain ⟨b, hb, _⟩ := RatSeg.applies_spec s (hw s hs) p; exact ⟨b, hb⟩
      have hconv : ∀ s ∈ gs, s.applies p = .ok true → ∃ q, s.convert p = .ok q := by
        intro s hs ha
        obtain ⟨b, hb, hiff⟩ := RatSeg.applies_spec s (hw s hs) p
        rw [ha] at hb; cases hb
        obtain ⟨_, y, hy, _⟩ := hiff.mp rfl
        exact ⟨_, RatSeg.convert_num s hy (henv s hs y hy)⟩
      obtain ⟨b, hb, hbiff⟩ := anyR_spec (p := fun s : RatSeg => s.applies p) (P := fun s => s.applies p = .ok true)
        (xs := gs) (by intro s hs; obtain ⟨b, hb⟩ := htot s hs; exact ⟨b, hb, by rw [hb]; simp⟩)
      have hvb : anyR (fun s : RatSeg => s.applies p) gs = .ok true := hvalid
      rw [hvb] at hb; cases hb
      exact firstRat_of_any htot hconv (hbiff.mp rfl)
  | textTable ity pty scales pdef idef =>
    obtain ⟨hlen, hinv⟩ := henv
    obtain ⟨b, hb, hiff⟩ := C07_valid_physical_iff (.textTable ity pty scales pdef idef) hwf p
    rw [hvalid] at hb; cases hb
    obtain ⟨_, hcase⟩ := hiff.mp rfl
    simp only [Method.p2i]
    generalize hm : scales.filter (fun sc => match sc.const with | some c => c.pyEq p | none => false) = m at hlen
    match m, hlen with
    | [], _ =>
      rcases hcase with h | ⟨sc, hs, c, hc, heq⟩
      · cases idef with
        | none => cases h
        | some d => exact ⟨d, rfl⟩
      · have : sc ∈ scales.filter (fun sc => match sc.const with | some c => c.pyEq p | none => false) :=
          List.mem_filter.mpr ⟨hs, by simp [hc, heq]⟩
        rw [hm] at this; cases this
    | [sc], _ =>
      have : sc ∈ scales.filter (fun sc => match sc.const with | some c => c.pyEq p | none => false) := by rw [hm]; simp
      exact hinv sc (List.mem_filter.mp this).1
    | _ :: _ :: _, hl => simp at hl

/-! ## injective conversions: image valid, round trips -/

/-- **The physical image of every valid internal value is itself declared valid** — for a real physical type
    and non-zero slope with any interval types (limits correspond exactly), and for every physical type and
    slope when no limit is OPEN (rounding is monotone, so closed limits are preserved). -/
theorem C07_image_valid_linear (s : LinSeg) (hwf : s.WF) (v p : Val)
    (hcase : (s.pty.isInt = false ∧ s.factor ≠ 0) ∨ (notOpen s.ilo ∧ notOpen s.ihi))
    (hvalid : (Method.linear s).validI v = .ok true) (hconv : (Method.linear s).i2p v = .ok p) :
    (Method.linear s).validP p = .ok true := by
  obtain ⟨x, hx, hin, p', hp', _⟩ := C07_linear_forward s hwf v hvalid
  obtain ⟨hder, hd, _, hpty⟩ := hwf
  have hvb : s.intApplies v = .ok true := hvalid
  have hpe : p = mkNum s.pty (linear s.offset s.factor s.denom x) := by
    simp [Method.i2p, hvb, bind, Except.bind, convI2P_num s hd hx] at hconv; exact hconv.symm
  obtain ⟨b, hb, hiff⟩ := physApplies_spec s hder.plo_num hder.phi_num hpty p
  have : b = true := by
    rw [hiff]
    refine ⟨by rw [hpe, ← typeOk_iff]; exact typeOk_mkNum hpty _, mkNumQ s.pty (linear s.offset s.factor s.denom x),
      by rw [hpe]; exact mkNum_num' _ _, ?_⟩
    rcases hcase with ⟨hreal, hf⟩ | ⟨hlo, hhi⟩
    · rw [mkNumQ_real hreal]; exact (inLimits_image_iff s hreal hder hf hd x).mpr hin
    · exact inLimits_image_closed s hder hd hlo hhi x hin
  subst this
  exact hb

/-- **Round trip internal → physical → internal** for an integer internal type: the image is declared valid
    and converts back to the same value, when the physical type is real, or integral with `|slope| ≥ 1`, no
    OPEN limit, and — for `|slope| = 1` — the exact image is not half-way between two integers. -/
theorem C07_roundtrip_linear (s : LinSeg) (hwf : s.WF) (i : Int) (hity : s.ity.isInt = true) (hf : eps ≤ |s.factor|)
    (hcase : s.pty.isInt = false ∨
      (notOpen s.ilo ∧ notOpen s.ihi ∧ |s.denom| ≤ |s.factor| ∧
        (|s.denom| < |s.factor| ∨ ¬ isTie (linear s.offset s.factor s.denom i))))
    (hvalid : (Method.linear s).validI (.int i) = .ok true) :
    ∃ p, (Method.linear s).i2p (.int i) = .ok p ∧ (Method.linear s).validP p = .ok true ∧
      (Method.linear s).p2i p = .ok (.int i) := by
  have hf0 : s.factor ≠ 0 := by
    intro h0; rw [h0] at hf; simp [eps] at hf; linarith
  obtain ⟨x, hx, hin, p, hp, _⟩ := C07_linear_forward s hwf (.int i) hvalid
  have hxi : x = (i : Rat) := by simp [Val.num?] at hx; exact hx.symm
  subst hxi
  have hvp : (Method.linear s).validP p = .ok true := by
    apply C07_image_valid_linear s hwf (.int i) p _ hvalid hp
    rcases hcase with h | ⟨h1, h2, _⟩
    · exact Or.inl ⟨h, hf0⟩
    · exact Or.inr ⟨h1, h2⟩
  refine ⟨p, hp, hvp, ?_⟩
  obtain ⟨hder, hd, _, hpty⟩ := hwf
  have hvb : s.intApplies (.int i) = .ok true := hvalid
  have hpe : p = mkNum s.pty (linear s.offset s.factor s.denom i) := by
    simp [Method.i2p, hvb, bind, Except.bind, convI2P_num s hd hx] at hp; exact hp.symm
  have hpb : s.physApplies p = .ok true := hvp
  have hpn : p.num? = some (mkNumQ s.pty (linear s.offset s.factor s.denom i)) := by rw [hpe]; exact mkNum_num' _ _
  have hgoal : roundHalfEven (linearInv s.offset s.factor s.denom (mkNumQ s.pty (linear s.offset s.factor s.denom i))) = i := by
    by_cases hreal : s.pty.isInt = false
    · rw [mkNumQ_real hreal, linearInv_linear _ _ _ _ hf0 hd]
      exact roundHalfEven_intCast i
    · have hint : s.pty.isInt = true := by simpa using hreal
      rcases hcase with hreal' | ⟨_, _, hle, hstrict⟩
      · exact absurd hreal' hreal
      · simp only [mkNumQ, hint, if_true]
        rw [linearInv_near s.offset s.factor s.denom i _ hf0 hd]
        generalize hq : linear s.offset s.factor s.denom i = q at hstrict ⊢
        generalize he : (roundHalfEven q : Rat) - q = e
        generalize hδ : e * (s.denom / s.factor) = δ
        have hfpos : 0 < |s.factor| := abs_pos.mpr hf0
        have hnear := roundHalfEven_nearest q
        have hE : |e| ≤ 1/2 := by
          rw [abs_le, ← he]; constructor
          · linarith [hnear.1]
          · linarith [hnear.2]
        have h1 : δ * s.factor = e * s.denom := by rw [← hδ]; field_simp
        have h2 : |δ| * |s.factor| = |e| * |s.denom| := by rw [← abs_mul, ← abs_mul, h1]
        have h0 : 0 ≤ |e| := abs_nonneg _
        have hd0 : 0 ≤ |s.denom| := abs_nonneg _
        have hlt : |δ| < 1/2 := by
          by_contra hc
          have hc := not_lt.mp hc
          have h3 : 1/2 * |s.factor| ≤ |δ| * |s.factor| := mul_le_mul_of_nonneg_right hc hfpos.le
          rcases hstrict with hs | hnt
          · have h4 : |e| * |s.denom| ≤ 1/2 * |s.denom| := mul_le_mul_of_nonneg_right hE hd0
            linarith
          · have hnt' := round_dist_lt_of_not_tie hnt
            have hE' : |e| < 1/2 := by
              rw [abs_lt, ← he]; constructor
              · linarith [hnt'.1]
              · linarith [hnt'.2]
            have h4 : |e| * |s.denom| ≤ |e| * |s.factor| := mul_le_mul_of_nonneg_left hle h0
            have h5 : |e| * |s.factor| < 1/2 * |s.factor| := mul_lt_mul_of_pos_right hE' hfpos
            linarith
        rw [abs_lt] at hlt
        exact roundHalfEven_int_add i _ hlt.1 hlt.2
  simp [Method.p2i, hpb, bind, Except.bind, convP2I_num s hf hpn, mkNum, hity, hgoal]

/-- **Round trip physical → internal → physical** for real internal and physical types: every valid physical
    value converts to a valid internal value which converts back to it. -/
theorem C07_roundtrip_linear_phys (s : LinSeg) (hwf : s.WF) (p : Val) (hity : s.ity.isInt = false) (hpty : s.pty.isInt = false)
    (hf : eps ≤ |s.factor|) (hvalid : (Method.linear s).validP p = .ok true) :
    ∃ i y, p.num? = some y ∧ (Method.linear s).p2i p = .ok i ∧ (Method.linear s).validI i = .ok true ∧
      (Method.linear s).i2p i = .ok (.flt y) := by
  have hf0 : s.factor ≠ 0 := by
    intro h0; rw [h0] at hf; simp [eps] at hf; linarith
  obtain ⟨y, hy, hin, h1, _⟩ := C07_linear_backward s hwf p hvalid
  obtain ⟨hder, hd, hnity, _⟩ := hwf
  have hvb : s.physApplies p = .ok true := hvalid
  have hi : (Method.linear s).p2i p = .ok (.flt (linearInv s.offset s.factor s.denom y)) := by
    simp [Method.p2i, hvb, bind, Except.bind, convP2I_num s hf hy, mkNum, hity]
  refine ⟨_, y, hy, hi, ?_, ?_⟩
  · obtain ⟨b, hb, hiff⟩ := intApplies_spec s hder.ilo_num hder.ihi_num hnity (.flt (linearInv s.offset s.factor s.denom y))
    have : b = true := by
      rw [hiff]
      refine ⟨?_, _, rfl, ?_⟩
      · cases hs : s.ity <;> simp_all [admissible, numericType, DType.isInt, DType.isFloat]
      · rw [← inLimits_image_iff s hpty hder hf0 hd, linear_linearInv _ _ _ _ hf0 hd]; exact hin
    subst this; exact hb
  · have hvi : s.intApplies (.flt (linearInv s.offset s.factor s.denom y)) = .ok true := by
      obtain ⟨b, hb, hiff⟩ := intApplies_spec s hder.ilo_num hder.ihi_num hnity (.flt (linearInv s.offset s.factor s.denom y))
      have : b = true := by
        rw [hiff]
        refine ⟨?_, _, rfl, ?_⟩
        · cases hs : s.ity <;> simp_all [admissible, numericType, DType.isInt, DType.isFloat]
        · rw [← inLimits_image_iff s hpty hder hf0 hd, linear_linearInv _ _ _ _ hf0 hd]; exact hin
      subst this; exact hb
    have hn : (Val.flt (linearInv s.offset s.factor s.denom y)).num? = some (linearInv s.offset s.factor s.denom y) := rfl
    simp [Method.i2p, hvi, bind, Except.bind, convI2P_num s hd hn, mkNum, hpty, linear_linearInv _ _ _ _ hf0 hd]

/-- the LINEAR method `(1 + 2x)/2`, A_UINT32 → A_UINT32 (DESIGN.md §7 row 15) -/
def tieSeg : LinSeg :=
  { offset := 1, factor := 2, denom := 2, ilo := none, ihi := none, inv := .int 0, ity := .uint32, pty := .uint32 }

/-- **The no-tie hypothesis of `C07_roundtrip_linear` is needed.** `(1+2x)/2` has slope 1, no limits, integer
    types; the exact images of 1 and 2 are 1½ and 2½, `round` sends both to 2, and 2 converts back to 2: the
    valid internal value 1 does not survive the round trip. (Python's `round` and the model agree here; this is
    the open known finding `linear-rounding-tie`.) -/
theorem C07_roundtrip_linear_tie_counterexample :
    mkLinSeg .uint32 .uint32 { coeffs := some ([1, 2], [2]) } = .ok tieSeg ∧ tieSeg.WF ∧
    |tieSeg.denom| ≤ |tieSeg.factor| ∧ eps ≤ |tieSeg.factor| ∧ notOpen tieSeg.ilo ∧ notOpen tieSeg.ihi ∧
    isTie (linear tieSeg.offset tieSeg.factor tieSeg.denom 1) ∧
    (Method.linear tieSeg).validI (.int 1) = .ok true ∧
    (Method.linear tieSeg).i2p (.int 1) = .ok (.int 2) ∧ (Method.linear tieSeg).i2p (.int 2) = .ok (.int 2) ∧
    (Method.linear tieSeg).p2i (.int 2) = .ok (.int 2) := by
  have hmk : mkLinSeg .uint32 .uint32 { coeffs := some ([1, 2], [2]) } = .ok tieSeg := by decide +kernel
  have hd : tieSeg.denom ≠ 0 := by decide +kernel
  refine ⟨hmk, ⟨(C07_linear_phys_limits _ _ _ _ hmk hd).2.2, hd, rfl, rfl⟩, ?_, ?_, ?_, ?_, ?_, ?_, ?_, ?_, ?_⟩
  · decide +kernel
  · decide +kernel
  · intro l h; cases h
  · intro l h; cases h
  · unfold isTie; decide +kernel
  · decide +kernel
  · decide +kernel
  · decide +kernel
  · decide +kernel

/-- non-vacuity of `C07_roundtrip_linear`: `(1 + 3x)/2` (slope 1½) satisfies its hypotheses at every internal
    value; e.g. 1 ↦ 2 ↦ 1 and 2 ↦ 4 ↦ 2 although 3½ is a tie -/
example : (Method.linear { offset := 1, factor := 3, denom := 2, ilo := none, ihi := none, inv := .int 0, ity := .uint32, pty := .uint32 }).i2p (.int 2) = .ok (.int 4) ∧
    (Method.linear { offset := 1, factor := 3, denom := 2, ilo := none, ihi := none, inv := .int 0, ity := .uint32, pty := .uint32 }).p2i (.int 4) = .ok (.int 2) := by
  refine ⟨?_, ?_⟩ <;> decide +kernel

/-! ## SCALE-LINEAR invertibility -/

/-- how `ScaleLinearCompuMethod.__post_init__` decides invertibility: the loop over adjacent segments,
    started with the factor of the first one -/
theorem C07_build_scale_linear (d : Desc) (m : Method) (hcat : d.cat = .scaleLinear) (h : build d = .ok m) :
    ∃ s0 rest inv, m = .scaleLinear (s0 :: rest) inv ∧ invertibleLoop s0.factor (s0 :: rest) = .ok inv := by
  unfold build at h
  rw [hcat] at h
  simp only [] at h
  split at h
  · cases h
  · split at h
    · cases h
    · rename_i side _
      simp only [bind, Except.bind] at h
      split at h
      · cases h
      · rename_i segs _
        cases segs with
        | nil => cases h
        | cons s0 rest =>
          simp only [] at h
          split at h
          · cases h
          · rename_i inv hinv
            simp only [pure, Except.pure] at h
            cases h
            exact ⟨s0, rest, inv, rfl, hinv⟩

/-- **A monotone continuous piecewise-linear method can always encode**: if all factors have the same sign (or
    are 0), adjacent scales meet at a common finite boundary with (up to 1e-10) the same value there, and
    denominators are non-zero, the invertibility analysis answers *invertible*; and then every physical value
    declared valid is encoded. -/
theorem C07_monotone_can_encode (s0 : LinSeg) (rest : List LinSeg)
    (hwf : ∀ s ∈ s0 :: rest, s.WF)
    (hsign : ∀ a ∈ s0 :: rest, ∀ b ∈ s0 :: rest, 0 ≤ a.factor * b.factor)
    (hmeet : List.IsChain Meets (s0 :: rest)) :
    invertibleLoop s0.factor (s0 :: rest) = .ok true ∧
    ∀ p, (Method.scaleLinear (s0 :: rest) true).validP p = .ok true →
      ∃ i, (Method.scaleLinear (s0 :: rest) true).p2i p = .ok i := by
  constructor
  · apply invertibleLoop_true _ _ (fun s hs => (hwf s hs).2.1) hsign _ hmeet
    intro s hs
    exact hsign s0 (by simp) s (by simp at hs ⊢; exact Or.inr hs)
  · intro p hp
    exact C07_valid_converts (.scaleLinear (s0 :: rest) true) hwf p trivial hp

/-- the SCALE-LINEAR method `[0,10] y = x; [10,20] y = 2x − 10` (DESIGN.md §7 row 12) -/
def contScaleLinear : Desc :=
  { cat := .scaleLinear
    ity := .uint32
    pty := .uint32
    p2i := none
    i2p := some { scales := [
      { lo := some ⟨some (.int 0), some .closed⟩, hi := some ⟨some (.int 10), some .closed⟩, coeffs := some ([0, 1], [1]) },
      { lo := some ⟨some (.int 10), some .closed⟩, hi := some ⟨some (.int 20), some .closed⟩, coeffs := some ([-10, 2], [1]) }] } }

def contSeg0 : LinSeg :=
  { offset := 0, factor := 1, denom := 1, ilo := some ⟨some (.int 0), some .closed⟩, ihi := some ⟨some (.int 10), some .closed⟩,
    inv := .int 0, ity := .uint32, pty := .uint32, plo := some ⟨some (.int 0), some .closed⟩, phi := some ⟨some (.int 10), some .closed⟩ }

def contSeg1 : LinSeg :=
  { offset := -10, factor := 2, denom := 1, ilo := some ⟨some (.int 10), some .closed⟩, ihi := some ⟨some (.int 20), some .closed⟩,
    inv := .int 0, ity := .uint32, pty := .uint32, plo := some ⟨some (.int 10), some .closed⟩, phi := some ⟨some (.int 30), some .closed⟩ }

/-- non-vacuity of `C07_monotone_can_encode`: the constructor builds exactly these two segments, and they
    satisfy its hypotheses (well-formed, same sign, meeting at 10 with value 10 on both sides) -/
example : build contScaleLinear = .ok (.scaleLinear [contSeg0, contSeg1] true) ∧
    (∀ s ∈ [contSeg0, contSeg1], s.WF) ∧
    (∀ a ∈ [contSeg0, contSeg1], ∀ b ∈ [contSeg0, contSeg1], 0 ≤ a.factor * b.factor) ∧
    List.IsChain Meets [contSeg0, contSeg1] := by
  have h0 : mkLinSeg .uint32 .uint32 { lo := some ⟨some (.int 0), some .closed⟩, hi := some ⟨some (.int 10), some .closed⟩, coeffs := some ([0, 1], [1]) } = .ok contSeg0 := by
    decide +kernel
  have h1 : mkLinSeg .uint32 .uint32 { lo := some ⟨some (.int 10), some .closed⟩, hi := some ⟨some (.int 20), some .closed⟩, coeffs := some ([-10, 2], [1]) } = .ok contSeg1 := by
    decide +kernel
  have hd0 : contSeg0.denom ≠ 0 := by decide +kernel
  have hd1 : contSeg1.denom ≠ 0 := by decide +kernel
  refine ⟨by decide +kernel, ?_, ?_, ?_⟩
  · intro s hs
    simp only [List.mem_cons, List.not_mem_nil, or_false] at hs
    rcases hs with rfl | rfl
    · exact ⟨(C07_linear_phys_limits _ _ _ _ h0 hd0).2.2, hd0, rfl, rfl⟩
    · exact ⟨(C07_linear_phys_limits _ _ _ _ h1 hd1).2.2, hd1, rfl, rfl⟩
  · intro a ha b hb
    simp only [List.mem_cons, List.not_mem_nil, or_false] at ha hb
    rcases ha with rfl | rfl <;> rcases hb with rfl | rfl <;> decide +kernel
  · refine List.IsChain.cons_cons ?_ (List.IsChain.singleton _)
    refine ⟨⟨some (.int 10), some .closed⟩, ⟨some (.int 10), some .closed⟩, .int 10, .int 10, 10, rfl, rfl, rfl, rfl, by decide +kernel,
      by decide +kernel, by decide, by decide, ?_⟩
    have e0 : mkNumQ contSeg0.pty (linear contSeg0.offset contSeg0.factor contSeg0.denom 10) = 10 := by decide +kernel
    have e1 : mkNumQ contSeg1.pty (linear contSeg1.offset contSeg1.factor contSeg1.denom 10) = 10 := by decide +kernel
    rw [e0, e1]; simp [eps]

/-- it is continuous and monotone, so it is invertible, and 20 is encoded as 15 -/
example : (match build contScaleLinear with | .ok (.scaleLinear _ inv) => inv | _ => false) = true ∧
    (build contScaleLinear >>= fun m => m.p2i (.int 20)) = .ok (.int 15) ∧
    (build contScaleLinear >>= fun m => m.i2p (.int 15)) = .ok (.int 20) := by
  refine ⟨?_, ?_, ?_⟩ <;> decide +kernel

end OdxVerif.Compu
