import OdxVerif.Props.C08Nested2
import OdxVerif.Proofs.CodecRequiredGenEq
/-! # C08 — the GENERATED `is_required` family against the nested tier's notion of "required"

    Built and audited in the environment of `Props/C08Nested2.lean` (`audit_nested` of `harness/props/c08.py`): `PKind.required`
    (`Proofs/CompCore.lean`) is the notion of the theorems `C08_required_nested*`, `C08_not_required_nested*`,
    `C08_required_iff_not_omittable*`; here it is shown to be what the current source of the `is_required` properties and of
    `composite_codec_get_required_parameters` computes (`Gen/CodecRequired.lean`, regenerated on every run of C08). -/
namespace OdxVerif.Codec

theorem PKind.isRequired_eq_required (k : PKind) : k.isRequired = k.required := by
  cases k with
  | value d dflt => cases dflt <;> rfl
  | _ => rfl

/-- **Tie, nested tier.** For every parameter list the rendered `composite_codec_get_required_parameters` (classes outside the
    model answering `False`) returns the parameters with `PKind.required`, in order; per parameter of a modelled class the rendered
    `is_required` is `PKind.required` -/
theorem C08_gen_required_nested (other : Py.M Bool) (ps : List Param) :
    Gen.requiredParametersE (.ok false) ps = .ok (ps.filter fun p => p.kind.required) ∧
    (∀ p : Param, p.kind.modelled = true → Gen.isRequiredE other p = .ok p.kind.required) := by
  refine ⟨?_, fun p h => ?_⟩
  · rw [gen_required_eq_all]
    have hf : (fun p : Param => p.kind.isRequired) = fun p => p.kind.required := funext fun p => PKind.isRequired_eq_required _
    rw [hf]
  · rw [gen_isRequired_modelled other p h, PKind.isRequired_eq_required]

/-- **C08, required ⇔ not omittable, for the generated property**: for every described parameter (`DescribedP2`: any depth, all
    leaf kinds) — it can be omitted iff the `is_required` of its class, as the source is now, answers `False` -/
theorem C08_gen_required_iff_not_omittable (other : Py.M Bool) (p : PDesc) (h : DescribedP2 p) (hm : p.param.kind.modelled = true) :
    Gen.isRequiredE other p.param = .ok (!(p.fill none).isSome) := by
  rw [C08_required_iff_not_omittable2 p h, Bool.not_not]
  exact (C08_gen_required_nested other []).2 p.param hm

/-! non-vacuity: the description `kDesc` of `Props/C08Nested2.lean` (all nine leaf kinds) -/
example : (Gen.requiredParametersE (.ok false) (kDesc.map (·.param))).toOption.map (·.map Param.name) =
    some ((kDesc.filter fun p => p.param.kind.required).map (·.name)) := by
  rw [(C08_gen_required_nested (.ok false) _).1]
  simp [Except.toOption, List.filter_map, PDesc.name, Function.comp_def]

end OdxVerif.Codec
