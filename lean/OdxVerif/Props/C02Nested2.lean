import OdxVerif.Proofs.CompBits2Msg
import OdxVerif.Props.C02Nested
/-! # C02, nested tier, second edition (task W17) — bit-exact PDUs for the round-6 constructors (`Described2`):
    STRUCTUREs with BYTE-SIZE, MIN-MAX-LENGTH / LEADING-LENGTH leaves at any depth, MATCHING-REQUEST-PARAM,
    DYNAMIC-ENDMARKER-FIELD.  (Separate file; imported by `Props/C03Nested2.lean` only.) -/
namespace OdxVerif.Codec
open OdxVerif.Bits OdxVerif.OdxM

/-- no two entries claim the same bit -/
def LDisj2 (L : List Ent2) : Prop := L.Pairwise (fun e1 e2 => ∀ a, ¬ (e1.claims a ∧ e2.claims a))

theorem LDisj2_iff (L : List Ent2) : LDisj2 L ↔ LDisj (L.map Ent2.geo) := by
  unfold LDisj2 LDisj
  rw [List.pairwise_map]
  exact Iff.rfl

/- Full statement of C02: see `Props/C02Nested.lean`.  Proved here: the instance where every top-level parameter is a
   well-formed `Desc2` (the syntactic mirror of `Described2` / `DescribedTop`, `Proofs/CompBits2Desc.lean`).
   The clause "an overlap warning is issued exactly when two described objects claim the same bit" is FALSE for the model and for
   odxtools when the padding of a STRUCTURE with BYTE-SIZE counts as a described object: `BasicStructure.encode_into_pdu` marks the
   bytes between the end of the content and BYTE-SIZE as used WITHOUT an overlap check and without writing them
   (`exPadOverlap` below: a structure with BYTE-SIZE placed over an earlier parameter — no warning).  Hence the hypothesis
   `Descs2.padOk` (decidable from the layout alone: no `sizePadding` entry hits a bit claimed by an entry before it) in the
   direction "no warning ⇒ disjoint"; the direction "disjoint ⇒ no warning" and the zero / length clauses need nothing.
   Still missing relative to the full statement: LENGTH-KEY / TABLE-KEY, PARAM-LENGTH-INFO leaves, RESERVED / NRC-CONST inside a
   `Desc2` (layout without entry: `Lay2.skip`, not wired in), BIT-MASK, compu methods other than IDENTICAL, tables, env data. -/

/-- **C02, nested tier, second edition.**  `ds` = a request (`trig = none`) or a response to the request `trig` whose parameters
    are descriptions with values (`Desc2`): everything `C02_bit_exact_nested` covers, and VALUE parameters over a
    MIN-MAX-LENGTH-TYPE (terminated / of MAX-LENGTH / ended by the end of the PDU) or LEADING-LENGTH-INFO-TYPE at any depth,
    STRUCTUREs and field items with BYTE-SIZE, DYNAMIC-ENDMARKER-FIELDs (at the end of the PDU, or with the end marker written),
    and MATCHING-REQUEST-PARAMs at the top level (`Descs2.ok`: the side conditions of `C01_roundtrip_nested2`).
    `Descs2.layout ds` — computed from the description and the values alone (`Desc2.lay`) — lists every leaf and every derived
    object (`Role2`): additionally the `terminator` (termination sequence, present iff the value is terminated), the
    `lengthPrefix` (= the payload's byte length), the `echo` (bytes of the triggering request), the `marker` (TERMINATION-VALUE
    through the DYN-END-DOP) and the `sizePadding` (zero bytes from the end of a structure's content to BYTE-SIZE).
    If strict `encode` returns a PDU without an overlap warning then
    (1)+(3) — provided no BYTE-SIZE padding hits a bit claimed by an earlier entry (`Descs2.padOk`) — bit `j` of every entry's
        pattern sits at absolute bit `absBit pos k hl (j + bp)` of the PDU, and the entries are pairwise disjoint;
    (2) every bit of the PDU that no entry claims is zero;
    (4) the PDU is exactly as long as the furthest byte an entry reaches. -/
theorem C02_bit_exact_nested2 (ds : List Desc2) (trig : Option Bytes) (hok : Descs2.ok trig ds) (pdu : Bytes)
    (henc : encodeMessage none (Descs2.params ds) (.dict (Descs2.supplied ds)) trig true = .ok (pdu, 0)) :
    (Descs2.padOk ds →
      (∀ e ∈ Descs2.layout ds, ∀ j, j < e.bl → getBit pdu (absBit e.pos e.k e.hl (j + e.bp)) = e.raw.testBit j) ∧
      LDisj2 (Descs2.layout ds)) ∧
    (∀ a, (∀ e ∈ Descs2.layout ds, ¬ e.claims a) → getBit pdu a = false) ∧
    pdu.length = Descs2.extent ds := by
  rw [descs2_encodeMessage trig ds hok] at henc
  simp only [Except.ok.injEq, Prod.mk.injEq] at henc
  obtain ⟨hpdu, hwarn⟩ := henc
  subst hpdu
  refine ⟨fun hp => ?_, descs2_pure_outside trig ds hok.1, descs2_pure_length trig ds hok.1⟩
  have hd := descs2_pure_disj_of trig ds hok.1 hwarn hp
  exact ⟨descs2_pure_inside trig ds hok.1 hd, (LDisj2_iff _).mpr hd⟩

/-- **C02, overlap clause, second edition.**  Strict `encode` of a well-formed description never fails; if the entries of the
    layout are pairwise disjoint there is no overlap warning; conversely no warning means pairwise disjoint entries — unless a
    BYTE-SIZE padding hits a bit claimed before it (`Descs2.padOk`; see `exPadOverlap`). -/
theorem C02_overlap_iff_nested2 (ds : List Desc2) (trig : Option Bytes) (hok : Descs2.ok trig ds) :
    ∃ pdu w, encodeMessage none (Descs2.params ds) (.dict (Descs2.supplied ds)) trig true = .ok (pdu, w) ∧
      (LDisj2 (Descs2.layout ds) → w = 0) ∧ (Descs2.padOk ds → (w = 0 ↔ LDisj2 (Descs2.layout ds))) :=
  ⟨_, _, descs2_encodeMessage trig ds hok,
    fun hd => descs2_pure_nowarn_of trig ds hok.1 ((LDisj2_iff _).mp hd),
    fun hp => ⟨fun hw => (LDisj2_iff _).mpr (descs2_pure_disj_of trig ds hok.1 hw hp),
      fun hd => descs2_pure_nowarn_of trig ds hok.1 ((LDisj2_iff _).mp hd)⟩⟩

/-- descriptions without BYTE-SIZE padding: `padOk` is vacuous, the overlap clause is an equivalence -/
theorem Descs2.padOk_of_noSizePadding (ds : List Desc2) (h : ∀ e ∈ Descs2.layout ds, e.role ≠ .sizePadding) : Descs2.padOk ds :=
  PadOk_of_noSilent _ _ h

/-- pairwise disjoint entries are in particular `padOk` -/
theorem Descs2.padOk_of_disj (ds : List Desc2) (h : LDisj2 (Descs2.layout ds)) : Descs2.padOk ds :=
  PadOk_of_disj _ _ ((LDisj2_iff _).mp h) (fun _ _ _ _ hf => hf)

/-! ### the layout of the new constructs (all by `rfl`) -/

/-- a terminated MIN-MAX-LENGTH value at `p = posOf bytePos org c`: the payload, then the termination sequence -/
theorem layout_minmaxMid (l : MMLeaf) (hr : l.raw ≠ []) (ht : l.tseq ≠ []) (org c : Nat) :
    (Desc2.minmaxMid l).lay.ents org c =
      [⟨.value, l.name, posOf l.bytePos org c, l.raw.length, true, 0, 8 * l.raw.length, ofBytesBE l.raw⟩,
       ⟨.terminator, l.name, posOf l.bytePos org c + l.raw.length, l.tseq.length, true, 0, 8 * l.tseq.length, ofBytesBE l.tseq⟩] := by
  simp only [Desc2.lay, MMLeaf.layMid, Lay2.atPos, Lay2.seq, Lay2.bytes, if_neg hr, if_neg ht]
  rfl
/-- a MIN-MAX-LENGTH value of MAX-LENGTH bytes / at the end of the PDU: the payload alone -/
theorem layout_minmaxFull (l : MMLeaf) (hr : l.raw ≠ []) (org c : Nat) :
    (Desc2.minmaxFull l).lay.ents org c =
      [⟨.value, l.name, posOf l.bytePos org c, l.raw.length, true, 0, 8 * l.raw.length, ofBytesBE l.raw⟩] := by
  simp only [Desc2.lay, MMLeaf.layEnd, Lay2.atPos, Lay2.bytes, if_neg hr]
  rfl
/-- a LEADING-LENGTH value: the prefix at the parameter's position (value = the payload's byte length), then the payload -/
theorem layout_leading (l : LeadLeaf) (hr : l.raw ≠ []) (org c : Nat) :
    (Desc2.leading l).lay.ents org c =
      [⟨.lengthPrefix, l.name, l.lenObj.pos org c, l.lenObj.k, l.hl, l.lenObj.bp, l.bitLen, l.lenObj.specRepr (.int l.raw.length)⟩,
       ⟨.value, l.name, l.lenObj.pos org c + l.lenObj.k, l.raw.length, true, 0, 8 * l.raw.length, ofBytesBE l.raw⟩] := by
  simp only [Desc2.lay, LeadLeaf.lay, Lay2.seq, Lay2.bytes, Lay2.obj, if_neg hr]
  rfl
/-- a STRUCTURE with BYTE-SIZE `bs` at `p`: the content (origin `p`), then the padding from the cursor behind it to `p + bs` -/
theorem layout_structBS (n : String) (bp : Option Nat) (bs : Nat) (kids : List Desc2) (org c : Nat) :
    (Desc2.struct n bp (some bs) kids).lay.ents org c =
      (Descs2.lay kids).ents (posOf bp org c) (posOf bp org c) ++
      (if (Descs2.lay kids).cur (posOf bp org c) (posOf bp org c) - posOf bp org c < bs
        then [Ent2.pad .sizePadding (posOf bp org c + ((Descs2.lay kids).cur (posOf bp org c) (posOf bp org c) - posOf bp org c))
                (bs - ((Descs2.lay kids).cur (posOf bp org c) (posOf bp org c) - posOf bp org c))]
        else []) := rfl
/-- a DYNAMIC-ENDMARKER-FIELD with end marker at `p`: the items from `p`, then the TERMINATION-VALUE at the cursor behind them -/
theorem layout_endMarkerMid (n : String) (bp : Option Nat) (l : EmLayout) (bso : Option Nat) (shape : List Param)
    (items : List (List Desc2)) (org c : Nat) :
    (Desc2.endMarkerMid n bp l bso shape items).lay.ents org c =
      (Descss2.layDyn bso items).ents (posOf bp org c) (posOf bp org c) ++
      [⟨.marker, "", (Descss2.layDyn bso items).cur (posOf bp org c) (posOf bp org c), l.obj.k, l.hl, 0, l.bl,
        l.obj.specRepr (.int l.tv)⟩] := rfl

/-! ### non-vacuity: the response of `Props/C01Nested2.lean` (`ex2`), every new constructor
    positive response to `22 F1 90` = [ sid (CODED-CONST 0x62, omitted); echo : MATCHING-REQUEST-PARAM pos 1 len 2;
      hdr : STRUCTURE BYTE-SIZE 4 { n };
      st : STRUCTURE { s : MIN-MAX A_BYTEFIELD 1..4 ZERO (terminated); l : LEADING-LENGTH A_BYTEFIELD, 8-bit prefix;
                       em : DYNAMIC-ENDMARKER-FIELD u8/0xFF, items {id} (end marker written); z @ BYTE-POSITION 10 };
      tail : DYNAMIC-ENDMARKER-FIELD u8/0 at the end of the PDU, items = STRUCTURE BYTE-SIZE 3 { id; v } ] -/
def b2Trig : Bytes := [0x22, 0xF1, 0x90]
def b2S : MMLeaf :=
  { name := "s", bytePos := none, bt := .bytefield, enc := none, hl := true, minLen := 1, maxLen := some 4, term := .zero,
    v := .bytes [0xAA, 0xBB], raw := [0xAA, 0xBB] }
def b2L : LeadLeaf :=
  { name := "l", bytePos := none, bitPos := none, bt := .bytefield, enc := none, hl := true, bitLen := 8,
    v := .bytes [1, 2, 3], raw := [1, 2, 3] }
def b2Em : EmLayout := { hl := true, bl := 8, tv := 0xFF }
def b2EmItem (id : Int) : List Desc2 := [.value (b2Em.named "id") (.int id)]
def b2EmField : Desc2 := .endMarkerMid "em" none b2Em none (Descs2.params (b2EmItem 0)) [b2EmItem 1, b2EmItem 2]
def b2St : Desc2 :=
  .struct "st" none none [.minmaxMid b2S, .leading b2L, b2EmField, .value ⟨"z", some 10, none, none, true, 8, .uint32⟩ (.int 0x5A)]
def b2Hdr : Desc2 := .struct "hdr" none (some 4) [.value (bU8 "n") (.int 7)]
def b2Tl : EmLayout := { hl := true, bl := 8, tv := 0 }
def b2TailItem (id v : Int) : List Desc2 := [.value (b2Tl.named "id") (.int id), .value (bU8 "v") (.int v)]
def b2Tail : Desc2 :=
  .endMarkerEop "tail" none b2Tl (some 3) (Descs2.params (b2TailItem 0 0)) [b2TailItem 1 0x11, b2TailItem 2 0x22]
def exBits2 : List Desc2 := [.const (bU8 "sid") (.int 0x62) false, .matching "echo" none 1 2 b2Trig, b2Hdr, b2St, b2Tail]

def exBits2Pdu : Bytes :=
  [0x62, 0xF1, 0x90, 0x07, 0x00, 0x00, 0x00, 0xAA, 0xBB, 0x00, 0x03, 0x01, 0x02, 0x03, 0x01, 0x02, 0xFF, 0x5A,
   0x01, 0x11, 0x00, 0x02, 0x22, 0x00]

/-- the PDU (no overlap warning) -/
theorem exBits2_pdu : encodeMessage none (Descs2.params exBits2) (.dict (Descs2.supplied exBits2)) (some b2Trig) true
    = .ok (exBits2Pdu, 0) :=
  Except.eq_ok_of_toOption' (by decide +kernel)

/-- **the layout of the example**: the echo of request bytes 1–2, the three padding bytes of `hdr`, payload + terminator of `s`,
    length prefix (= 3) + payload of `l`, the end marker 0xFF of `em` (behind it `z` at byte 10 of `st` = 17), one padding
    byte per item of `tail` (no end marker: end of the PDU) -/
example : Descs2.layout exBits2 =
    [⟨.codedConst, "sid", 0, 1, true, 0, 8, 0x62⟩, ⟨.echo, "echo", 1, 2, true, 0, 16, 0xF190⟩,
     ⟨.value, "n", 3, 1, true, 0, 8, 7⟩, ⟨.sizePadding, "", 4, 3, true, 0, 24, 0⟩,
     ⟨.value, "s", 7, 2, true, 0, 16, 0xAABB⟩, ⟨.terminator, "s", 9, 1, true, 0, 8, 0⟩,
     ⟨.lengthPrefix, "l", 10, 1, true, 0, 8, 3⟩, ⟨.value, "l", 11, 3, true, 0, 24, 0x010203⟩,
     ⟨.value, "id", 14, 1, true, 0, 8, 1⟩, ⟨.value, "id", 15, 1, true, 0, 8, 2⟩, ⟨.marker, "", 16, 1, true, 0, 8, 0xFF⟩,
     ⟨.value, "z", 17, 1, true, 0, 8, 0x5A⟩,
     ⟨.value, "id", 18, 1, true, 0, 8, 1⟩, ⟨.value, "v", 19, 1, true, 0, 8, 0x11⟩, ⟨.sizePadding, "", 20, 1, true, 0, 8, 0⟩,
     ⟨.value, "id", 21, 1, true, 0, 8, 2⟩, ⟨.value, "v", 22, 1, true, 0, 8, 0x22⟩, ⟨.sizePadding, "", 23, 1, true, 0, 8, 0⟩] := by
  decide +kernel
example : Descs2.extent exBits2 = 24 ∧ Descs2.endCursor exBits2 = 24 := by decide +kernel

end OdxVerif.Codec
