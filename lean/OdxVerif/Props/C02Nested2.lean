import OdxVerif.Proofs.CompBits2Msg
import OdxVerif.Proofs.CompBits2Embed
import OdxVerif.Props.C02Nested
/-! # C02, nested tier, second edition (task W17) — bit-exact PDUs for the round-6 constructors (`Described2`):
    STRUCTUREs with BYTE-SIZE, MIN-MAX-LENGTH / LEADING-LENGTH leaves at any depth, MATCHING-REQUEST-PARAM,
    DYNAMIC-ENDMARKER-FIELD.  (Separate file; imported by `Props/C03Nested2.lean` only.) -/
namespace OdxVerif.Codec
open OdxVerif.Bits OdxVerif.OdxM

/-- no two entries claim the same bit -/
def LDisj2 (L : List Ent2) : Prop := L.Pairwise (fun e1 e2 => ∀ a, ¬ (e1.claims a ∧ e2.claims a))

theorem LDisj2_iff (L : List Ent2) : LDisj2 L ↔ LDisj (L.map Ent2.geo) := by
  unfold LDisj2 LDisj
  rw [List.pairwise_map]
  exact Iff.rfl

/- Full statement of C02: see `Props/C02Nested.lean`.  Proved here: the instance where every top-level parameter is a
   well-formed `Desc2` (the syntactic mirror of `Described2` / `DescribedTop`, `Proofs/CompBits2Desc.lean`).
   The clause "an overlap warning is issued exactly when two described objects claim the same bit" is FALSE for the model and for
   odxtools when the padding of a STRUCTURE with BYTE-SIZE counts as a described object: `BasicStructure.encode_into_pdu` marks the
   bytes between the end of the content and BYTE-SIZE as used WITHOUT an overlap check and without writing them
   (`exPadOverlap` below: a structure with BYTE-SIZE placed over an earlier parameter — no warning).  Hence the hypothesis
   `Descs2.padOk` (decidable from the layout alone: no `sizePadding` entry hits a bit claimed by an entry before it) in the
   direction "no warning ⇒ disjoint"; the direction "disjoint ⇒ no warning" and the zero / length clauses need nothing.
   Still missing relative to the full statement: LENGTH-KEY / TABLE-KEY, PARAM-LENGTH-INFO leaves, RESERVED / NRC-CONST inside a
   `Desc2` (layout without entry: `Lay2.skip`, not wired in), BIT-MASK, compu methods other than IDENTICAL, tables, env data. -/

/-- **C02, nested tier, second edition.**  `ds` = a request (`trig = none`) or a response to the request `trig` whose parameters
    are descriptions with values (`Desc2`): everything `C02_bit_exact_nested` covers, and VALUE parameters over a
    MIN-MAX-LENGTH-TYPE (terminated / of MAX-LENGTH / ended by the end of the PDU) or LEADING-LENGTH-INFO-TYPE at any depth,
    STRUCTUREs and field items with BYTE-SIZE, DYNAMIC-ENDMARKER-FIELDs (at the end of the PDU, or with the end marker written),
    and MATCHING-REQUEST-PARAMs at the top level (`Descs2.ok`: the side conditions of `C01_roundtrip_nested2`).
    `Descs2.layout ds` — computed from the description and the values alone (`Desc2.lay`) — lists every leaf and every derived
    object (`Role2`): additionally the `terminator` (termination sequence, present iff the value is terminated), the
    `lengthPrefix` (= the payload's byte length), the `echo` (bytes of the triggering request), the `marker` (TERMINATION-VALUE
    through the DYN-END-DOP) and the `sizePadding` (zero bytes from the end of a structure's content to BYTE-SIZE).
    If strict `encode` returns a PDU without an overlap warning then
    (1)+(3) — provided no BYTE-SIZE padding hits a bit claimed by an earlier entry (`Descs2.padOk`) — bit `j` of every entry's
        pattern sits at absolute bit `absBit pos k hl (j + bp)` of the PDU, and the entries are pairwise disjoint;
    (2) every bit of the PDU that no entry claims is zero;
    (4) the PDU is exactly as long as the furthest byte an entry reaches. -/
theorem C02_bit_exact_nested2 (ds : List Desc2) (trig : Option Bytes) (hok : Descs2.ok trig ds) (pdu : Bytes)
    (henc : encodeMessage none (Descs2.params ds) (.dict (Descs2.supplied ds)) trig true = .ok (pdu, 0)) :
    (Descs2.padOk ds →
      (∀ e ∈ Descs2.layout ds, ∀ j, j < e.bl → getBit pdu (absBit e.pos e.k e.hl (j + e.bp)) = e.raw.testBit j) ∧
      LDisj2 (Descs2.layout ds)) ∧
    (∀ a, (∀ e ∈ Descs2.layout ds, ¬ e.claims a) → getBit pdu a = false) ∧
    pdu.length = Descs2.extent ds := by
  rw [descs2_encodeMessage trig ds hok] at henc
  simp only [Except.ok.injEq, Prod.mk.injEq] at henc
  obtain ⟨hpdu, hwarn⟩ := henc
  subst hpdu
  refine ⟨fun hp => ?_, descs2_pure_outside trig ds hok.1, descs2_pure_length trig ds hok.1⟩
  have hd := descs2_pure_disj_of trig ds hok.1 hwarn hp
  exact ⟨descs2_pure_inside trig ds hok.1 hd, (LDisj2_iff _).mpr hd⟩

/-- **C02, overlap clause, second edition.**  Strict `encode` of a well-formed description never fails; if the entries of the
    layout are pairwise disjoint there is no overlap warning; conversely no warning means pairwise disjoint entries — unless a
    BYTE-SIZE padding hits a bit claimed before it (`Descs2.padOk`; see `exPadOverlap`). -/
theorem C02_overlap_iff_nested2 (ds : List Desc2) (trig : Option Bytes) (hok : Descs2.ok trig ds) :
    ∃ pdu w, encodeMessage none (Descs2.params ds) (.dict (Descs2.supplied ds)) trig true = .ok (pdu, w) ∧
      (LDisj2 (Descs2.layout ds) → w = 0) ∧ (Descs2.padOk ds → (w = 0 ↔ LDisj2 (Descs2.layout ds))) :=
  ⟨_, _, descs2_encodeMessage trig ds hok,
    fun hd => descs2_pure_nowarn_of trig ds hok.1 ((LDisj2_iff _).mp hd),
    fun hp => ⟨fun hw => (LDisj2_iff _).mpr (descs2_pure_disj_of trig ds hok.1 hw hp),
      fun hd => descs2_pure_nowarn_of trig ds hok.1 ((LDisj2_iff _).mp hd)⟩⟩

/-- descriptions without BYTE-SIZE padding: `padOk` is vacuous, the overlap clause is an equivalence -/
theorem Descs2.padOk_of_noSizePadding (ds : List Desc2) (h : ∀ e ∈ Descs2.layout ds, e.role ≠ .sizePadding) : Descs2.padOk ds :=
  PadOk_of_noSilent _ _ h

/-- pairwise disjoint entries are in particular `padOk` -/
theorem Descs2.padOk_of_disj (ds : List Desc2) (h : LDisj2 (Descs2.layout ds)) : Descs2.padOk ds :=
  PadOk_of_disj _ _ ((LDisj2_iff _).mp h) (fun _ _ _ _ hf => hf)

/-! ### a decidable sufficient condition for `padOk`: byte ranges -/

/-- the byte ranges of two entries do not meet -/
def Ent2.byteDisj (e1 e2 : Ent2) : Bool := decide (e1.pos + e1.k ≤ e2.pos ∨ e2.pos + e2.k ≤ e1.pos)

/-- every entry lies within its bytes, and the byte range of every `sizePadding` entry misses the byte ranges of all entries
    before it (`prev`: the entries before, in reverse order) -/
def padOkB : List Ent2 → List Ent2 → Bool
  | [], _ => true
  | e :: L, prev =>
    decide (e.bl + e.bp ≤ 8 * e.k) && (decide (e.role ≠ .sizePadding) || prev.all (fun p => p.byteDisj e)) && padOkB L (e :: prev)

theorem padOk_of_B : (L prev : List Ent2) → (U : Nat → Prop) → (∀ a, U a → ∃ p ∈ prev, p.claims a) →
    (∀ p ∈ prev, p.geo.wf) → padOkB L prev = true → PadOk L U
  | [], _, _, _, _, _ => trivial
  | e :: L, prev, U, hU, hwf, hB => by
    simp only [padOkB, Bool.and_eq_true, Bool.or_eq_true, decide_eq_true_eq] at hB
    obtain ⟨⟨hewf, hc⟩, hrest⟩ := hB
    refine ⟨?_, padOk_of_B L (e :: prev) _ ?_ ?_ hrest⟩
    · intro hs a hca hu
      rcases hc with hc | hc
      · exact hc hs
      · obtain ⟨p, hp, hpa⟩ := hU a hu
        have hd := List.all_eq_true.mp hc p hp
        simp only [Ent2.byteDisj, decide_eq_true_eq] at hd
        have h1 := Ent.claims_bytes p.geo (hwf p hp) a hpa
        have h2 := Ent.claims_bytes e.geo hewf a hca
        have e1 : p.geo.pos = p.pos := rfl
        have e2 : p.geo.k = p.k := rfl
        have e3 : e.geo.pos = e.pos := rfl
        have e4 : e.geo.k = e.k := rfl
        omega
    · intro a ha
      rcases ha with ha | ha
      · obtain ⟨p, hp, hpa⟩ := hU a ha
        exact ⟨p, List.mem_cons_of_mem _ hp, hpa⟩
      · exact ⟨e, List.mem_cons_self .., ha⟩
    · intro p hp
      rcases List.mem_cons.mp hp with rfl | hp
      · exact hewf
      · exact hwf p hp

/-- the check on the layout of a request / response -/
def Descs2.padCheck (ds : List Desc2) : Bool := padOkB (Descs2.layout ds) []

theorem Descs2.padOk_of_check (ds : List Desc2) (h : Descs2.padCheck ds = true) : Descs2.padOk ds :=
  padOk_of_B _ [] _ (fun _ hf => hf.elim) (fun _ hp => nomatch hp) h

/-! ### the layout of the new constructs (all by `rfl`) -/

/-- a terminated MIN-MAX-LENGTH value at `p = posOf bytePos org c`: the payload, then the termination sequence -/
theorem layout_minmaxMid (l : MMLeaf) (hr : l.raw ≠ []) (ht : l.tseq ≠ []) (org c : Nat) :
    (Desc2.minmaxMid l).lay.ents org c =
      [⟨.value, l.name, posOf l.bytePos org c, l.raw.length, true, 0, 8 * l.raw.length, ofBytesBE l.raw⟩,
       ⟨.terminator, l.name, posOf l.bytePos org c + l.raw.length, l.tseq.length, true, 0, 8 * l.tseq.length, ofBytesBE l.tseq⟩] := by
  simp only [Desc2.lay, MMLeaf.layMid, Lay2.atPos, Lay2.seq, Lay2.bytes, if_neg hr, if_neg ht]
  rfl
/-- a MIN-MAX-LENGTH value of MAX-LENGTH bytes / at the end of the PDU: the payload alone -/
theorem layout_minmaxFull (l : MMLeaf) (hr : l.raw ≠ []) (org c : Nat) :
    (Desc2.minmaxFull l).lay.ents org c =
      [⟨.value, l.name, posOf l.bytePos org c, l.raw.length, true, 0, 8 * l.raw.length, ofBytesBE l.raw⟩] := by
  simp only [Desc2.lay, MMLeaf.layEnd, Lay2.atPos, Lay2.bytes, if_neg hr]
  rfl
/-- a LEADING-LENGTH value: the prefix at the parameter's position (value = the payload's byte length), then the payload -/
theorem layout_leading (l : LeadLeaf) (hr : l.raw ≠ []) (org c : Nat) :
    (Desc2.leading l).lay.ents org c =
      [⟨.lengthPrefix, l.name, l.lenObj.pos org c, l.lenObj.k, l.hl, l.lenObj.bp, l.bitLen, l.lenObj.specRepr (.int l.raw.length)⟩,
       ⟨.value, l.name, l.lenObj.pos org c + l.lenObj.k, l.raw.length, true, 0, 8 * l.raw.length, ofBytesBE l.raw⟩] := by
  simp only [Desc2.lay, LeadLeaf.lay, Lay2.seq, Lay2.bytes, Lay2.obj, if_neg hr]
  rfl
/-- a STRUCTURE with BYTE-SIZE `bs` at `p`: the content (origin `p`), then the padding from the cursor behind it to `p + bs` -/
theorem layout_structBS (n : String) (bp : Option Nat) (bs : Nat) (kids : List Desc2) (org c : Nat) :
    (Desc2.struct n bp (some bs) kids).lay.ents org c =
      (Descs2.lay kids).ents (posOf bp org c) (posOf bp org c) ++
      (if (Descs2.lay kids).cur (posOf bp org c) (posOf bp org c) - posOf bp org c < bs
        then [Ent2.pad .sizePadding (posOf bp org c + ((Descs2.lay kids).cur (posOf bp org c) (posOf bp org c) - posOf bp org c))
                (bs - ((Descs2.lay kids).cur (posOf bp org c) (posOf bp org c) - posOf bp org c))]
        else []) := rfl
/-- a DYNAMIC-ENDMARKER-FIELD with end marker at `p`: the items from `p`, then the TERMINATION-VALUE at the cursor behind them -/
theorem layout_endMarkerMid (n : String) (bp : Option Nat) (l : EmLayout) (bso : Option Nat) (shape : List Param)
    (items : List (List Desc2)) (org c : Nat) :
    (Desc2.endMarkerMid n bp l bso shape items).lay.ents org c =
      (Descss2.layDyn bso items).ents (posOf bp org c) (posOf bp org c) ++
      [⟨.marker, "", (Descss2.layDyn bso items).cur (posOf bp org c) (posOf bp org c), l.obj.k, l.hl, 0, l.bl,
        l.obj.specRepr (.int l.tv)⟩] := rfl

/-! ### non-vacuity: the response of `Props/C01Nested2.lean` (`ex2`), every new constructor
    positive response to `22 F1 90` = [ sid (CODED-CONST 0x62, omitted); echo : MATCHING-REQUEST-PARAM pos 1 len 2;
      hdr : STRUCTURE BYTE-SIZE 4 { n };
      st : STRUCTURE { s : MIN-MAX A_BYTEFIELD 1..4 ZERO (terminated); l : LEADING-LENGTH A_BYTEFIELD, 8-bit prefix;
                       em : DYNAMIC-ENDMARKER-FIELD u8/0xFF, items {id} (end marker written); z @ BYTE-POSITION 10 };
      tail : DYNAMIC-ENDMARKER-FIELD u8/0 at the end of the PDU, items = STRUCTURE BYTE-SIZE 3 { id; v } ] -/
def b2Trig : Bytes := [0x22, 0xF1, 0x90]
def b2S : MMLeaf :=
  { name := "s", bytePos := none, bt := .bytefield, enc := none, hl := true, minLen := 1, maxLen := some 4, term := .zero,
    v := .bytes [0xAA, 0xBB], raw := [0xAA, 0xBB] }
def b2L : LeadLeaf :=
  { name := "l", bytePos := none, bitPos := none, bt := .bytefield, enc := none, hl := true, bitLen := 8,
    v := .bytes [1, 2, 3], raw := [1, 2, 3] }
def b2Em : EmLayout := { hl := true, bl := 8, tv := 0xFF }
def b2EmItem (id : Int) : List Desc2 := [.value (b2Em.named "id") (.int id)]
def b2EmField : Desc2 := .endMarkerMid "em" none b2Em none (Descs2.params (b2EmItem 0)) [b2EmItem 1, b2EmItem 2]
def b2St : Desc2 :=
  .struct "st" none none [.minmaxMid b2S, .leading b2L, b2EmField, .value ⟨"z", some 10, none, none, true, 8, .uint32⟩ (.int 0x5A)]
def b2Hdr : Desc2 := .struct "hdr" none (some 4) [.value (bU8 "n") (.int 7)]
def b2Tl : EmLayout := { hl := true, bl := 8, tv := 0 }
def b2TailItem (id v : Int) : List Desc2 := [.value (b2Tl.named "id") (.int id), .value (bU8 "v") (.int v)]
def b2Tail : Desc2 :=
  .endMarkerEop "tail" none b2Tl (some 3) (Descs2.params (b2TailItem 0 0)) [b2TailItem 1 0x11, b2TailItem 2 0x22]
def exBits2 : List Desc2 := [.const (bU8 "sid") (.int 0x62) false, .matching "echo" none 1 2 b2Trig, b2Hdr, b2St, b2Tail]

def exBits2Pdu : Bytes :=
  [0x62, 0xF1, 0x90, 0x07, 0x00, 0x00, 0x00, 0xAA, 0xBB, 0x00, 0x03, 0x01, 0x02, 0x03, 0x01, 0x02, 0xFF, 0x5A,
   0x01, 0x11, 0x00, 0x02, 0x22, 0x00]

/-- the PDU (no overlap warning) -/
theorem exBits2_pdu : encodeMessage none (Descs2.params exBits2) (.dict (Descs2.supplied exBits2)) (some b2Trig) true
    = .ok (exBits2Pdu, 0) :=
  Except.eq_ok_of_toOption' (by decide +kernel)

/-- **the layout of the example**: the echo of request bytes 1–2, the three padding bytes of `hdr`, payload + terminator of `s`,
    length prefix (= 3) + payload of `l`, the end marker 0xFF of `em` (behind it `z` at byte 10 of `st` = 17), one padding
    byte per item of `tail` (no end marker: end of the PDU) -/
example : Descs2.layout exBits2 =
    [⟨.codedConst, "sid", 0, 1, true, 0, 8, 0x62⟩, ⟨.echo, "echo", 1, 2, true, 0, 16, 0xF190⟩,
     ⟨.value, "n", 3, 1, true, 0, 8, 7⟩, ⟨.sizePadding, "", 4, 3, true, 0, 24, 0⟩,
     ⟨.value, "s", 7, 2, true, 0, 16, 0xAABB⟩, ⟨.terminator, "s", 9, 1, true, 0, 8, 0⟩,
     ⟨.lengthPrefix, "l", 10, 1, true, 0, 8, 3⟩, ⟨.value, "l", 11, 3, true, 0, 24, 0x010203⟩,
     ⟨.value, "id", 14, 1, true, 0, 8, 1⟩, ⟨.value, "id", 15, 1, true, 0, 8, 2⟩, ⟨.marker, "", 16, 1, true, 0, 8, 0xFF⟩,
     ⟨.value, "z", 17, 1, true, 0, 8, 0x5A⟩,
     ⟨.value, "id", 18, 1, true, 0, 8, 1⟩, ⟨.value, "v", 19, 1, true, 0, 8, 0x11⟩, ⟨.sizePadding, "", 20, 1, true, 0, 8, 0⟩,
     ⟨.value, "id", 21, 1, true, 0, 8, 2⟩, ⟨.value, "v", 22, 1, true, 0, 8, 0x22⟩, ⟨.sizePadding, "", 23, 1, true, 0, 8, 0⟩] := by
  decide +kernel
example : Descs2.extent exBits2 = 24 ∧ Descs2.endCursor exBits2 = 24 := by decide +kernel

/-! the example is well-formed -/
theorem wf2_byte (n : String) (bp : Option Nat) (v : Int) (h0 : 0 ≤ v) (h1 : v < 256) :
    (Desc2.value ⟨n, bp, none, none, true, 8, .uint32⟩ (.int v)).wf := by
  simp only [Desc2.wf]
  exact ⟨by simp [Obj.ok, Obj.encOk, Obj.sizeOk], by simp [Obj.inRange]; omega⟩

theorem b2Em_ok : b2Em.ok := ⟨by simp [EmLayout.obj, b2Em, Obj.ok, Obj.encOk, Obj.sizeOk], by simp [EmLayout.obj, b2Em, Obj.inRange]⟩
theorem b2Tl_ok : b2Tl.ok := ⟨by simp [EmLayout.obj, b2Tl, Obj.ok, Obj.encOk, Obj.sizeOk], by simp [EmLayout.obj, b2Tl, Obj.inRange]⟩
theorem b2S_ok : b2S.okMid :=
  ⟨⟨⟨allBytes_of_all _ (by decide), Or.inl ⟨rfl, rfl, Or.inl rfl⟩⟩, by decide, fun mx h => by cases h; decide, fun _ => by decide⟩,
    by decide, by decide, by decide, fun mx h => by cases h; decide⟩
theorem b2L_ok : b2L.ok :=
  ⟨by decide, by decide, by decide, ⟨allBytes_of_all _ (by decide), Or.inl ⟨rfl, rfl, Or.inl rfl⟩⟩, rfl⟩

theorem b2EmItem_side (id : Int) (hid : id ≠ 0xFF) :
    itemSideS none (Descs2.params (b2EmItem 0)) (Descs2.mcs (b2EmItem id)) ∧
      1 ≤ (DComp.structO none (MComps.cs (Descs2.mcs (b2EmItem id)))).size ∧
      b2Em.miss (DComp.structO none (MComps.cs (Descs2.mcs (b2EmItem id)))) :=
  ⟨⟨rfl, bNames1 _, rfl, fun _ h => nomatch h⟩, Nat.le_refl 1, EmLayout.miss_of_first b2Em "id" id [] hid⟩

theorem wf_b2EmField : b2EmField.wf := by
  simp only [b2EmField, Desc2.wf, Descss2.wf, Descs2.wf, Descss2.mcss]
  exact ⟨⟨⟨wf2_byte "id" none 1 (by decide) (by decide), trivial⟩, ⟨wf2_byte "id" none 2 (by decide) (by decide), trivial⟩, trivial⟩,
    b2Em_ok, forall_mem2' _ _ (b2EmItem_side 1 (by decide)) (b2EmItem_side 2 (by decide))⟩

theorem wf_b2St : b2St.wf := by
  simp only [b2St, Desc2.wf, Descs2.wf]
  refine ⟨⟨b2S_ok, b2L_ok, wf_b2EmField, wf2_byte "z" (some 10) 0x5A (by decide) (by decide), trivial⟩, ?_, ⟨rfl, rfl, rfl, trivial⟩,
    fun _ h => nomatch h⟩
  simp [Comps.namesOk, Descs2.comps, Descs2.mcs, Desc2.mc, MComps.cs, Comp.name, Param.name, Comp.ofMinMaxMid, Comp.ofMItem,
    Comp.ofGItem, MMLeaf.toMid, MMLeaf.toParam, b2S, Comp.ofLeading, LeadLeaf.toG, LeadLeaf.toParam, b2L, b2EmField, Comp.ofValue,
    Comp.ofObjValue, Obj.toParam]

theorem wf_b2Hdr : b2Hdr.wf := by
  simp only [b2Hdr, Desc2.wf, Descs2.wf]
  exact ⟨⟨wf2_byte "n" none 7 (by decide) (by decide), trivial⟩, bNames1 _, trivial, fun bs h => by cases h; exact ⟨by decide, rfl⟩⟩

theorem b2TailItem_side (id v : Int) (hid : id ≠ 0) :
    itemSideS (some 3) (Descs2.params (b2TailItem 0 0)) (Descs2.mcs (b2TailItem id v)) ∧
      1 ≤ (DComp.structO (some 3) (MComps.cs (Descs2.mcs (b2TailItem id v)))).size ∧
      b2Tl.miss (DComp.structO (some 3) (MComps.cs (Descs2.mcs (b2TailItem id v)))) :=
  ⟨⟨rfl, bNames2 _ _ (by show "id" ≠ "v"; decide), rfl, fun bs h => by cases h; exact ⟨by show 2 ≤ 3; omega, rfl⟩⟩,
    by show 1 ≤ 3; omega,
    EmLayout.miss_withByteSize b2Tl 3 _ _ (EmLayout.miss_of_first b2Tl "id" id [Comp.ofObjValue (bU8 "v") (.int v)] hid)⟩

theorem wf_b2Tail : b2Tail.wf := by
  simp only [b2Tail, Desc2.wf, Descss2.wf, Descs2.wf, Descss2.mcss]
  refine ⟨⟨⟨wf2_byte "id" none 1 (by decide) (by decide), wf2_byte "v" none 0x11 (by decide) (by decide), trivial⟩,
    ⟨wf2_byte "id" none 2 (by decide) (by decide), wf2_byte "v" none 0x22 (by decide) (by decide), trivial⟩, trivial⟩,
    b2Tl_ok, forall_mem2' _ _ (b2TailItem_side 1 0x11 (by decide)) (b2TailItem_side 2 0x22 (by decide)), ?_⟩
  intro k hk
  have : k = Descs2.mcs (b2TailItem 2 0x22) := by simpa using hk.symm
  subst this; rfl

theorem exBits2_ok : Descs2.ok (some b2Trig) exBits2 := by
  refine ⟨⟨?_, ⟨rfl, allBytes_of_all _ (by decide), by decide, by decide, by decide⟩, wf_b2Hdr, wf_b2St, wf_b2Tail, trivial⟩, ?_,
    ⟨rfl, rfl, rfl, rfl, trivial⟩, rfl, by decide⟩
  · show (bU8 "sid").ok ∧ (bU8 "sid").inRange (.int 0x62)
    exact ⟨bU8_ok _, bU8_range _ _ (by decide) (by decide)⟩
  · simp [Comps.namesOk, exBits2, Descs2.comps, Descs2.mcs, Desc2.mc, MComps.cs, Comp.name, Param.name, Comp.ofObjConst,
      Obj.toConstParam, Comp.matchingReq, b2Hdr, b2St, b2Tail, Comp.ofValue, bU8]

/-- no BYTE-SIZE padding of the example hits an earlier entry -/
theorem exBits2_padOk : Descs2.padOk exBits2 := Descs2.padOk_of_check _ (by decide +kernel)

/-- **the theorem applies to the example**: all conclusions hold of the concrete PDU -/
example : ((∀ e ∈ Descs2.layout exBits2, ∀ j, j < e.bl → getBit exBits2Pdu (absBit e.pos e.k e.hl (j + e.bp)) = e.raw.testBit j) ∧
      LDisj2 (Descs2.layout exBits2)) ∧
    (∀ a, (∀ e ∈ Descs2.layout exBits2, ¬ e.claims a) → getBit exBits2Pdu a = false) ∧
    exBits2Pdu.length = Descs2.extent exBits2 :=
  have h := C02_bit_exact_nested2 exBits2 (some b2Trig) exBits2_ok _ exBits2_pdu
  ⟨h.1 exBits2_padOk, h.2⟩

/-! ### the excluded point of `padOk` — finding `byte-size-padding-claims-silently`
    request = [ x @ BYTE-POSITION 2; st @ BYTE-POSITION 0 : STRUCTURE BYTE-SIZE 4 { a } ]: the padding of `st` (bytes 1–3) covers `x`
    (byte 2), yet strict `encode` returns `07 00 5A 00` WITHOUT overlap warning (the STATIC-FIELD padding, written with
    `emplace_bytes`, would warn).  So "a warning exactly when two described objects claim the same bit" fails when the
    BYTE-SIZE padding counts as a described object. -/
def exPadOverlap : List Desc2 :=
  [.value ⟨"x", some 2, none, none, true, 8, .uint32⟩ (.int 0x5A), .struct "st" (some 0) (some 4) [.value (bU8 "a") (.int 7)]]

theorem exPadOverlap_ok : Descs2.ok none exPadOverlap := by
  refine ⟨⟨wf2_byte "x" (some 2) 0x5A (by decide) (by decide), ?_, trivial⟩, ?_, ⟨rfl, trivial⟩, rfl, by decide⟩
  · show Desc2.wf (.struct "st" (some 0) (some 4) [.value (bU8 "a") (.int 7)])
    simp only [Desc2.wf, Descs2.wf]
    exact ⟨⟨wf2_byte "a" none 7 (by decide) (by decide), trivial⟩, bNames1 _, trivial, fun bs h => by cases h; exact ⟨by decide, rfl⟩⟩
  · exact bNames2 _ _ (by decide)

theorem exPadOverlap_layout : Descs2.layout exPadOverlap =
    [⟨.value, "x", 2, 1, true, 0, 8, 0x5A⟩, ⟨.value, "a", 0, 1, true, 0, 8, 7⟩, ⟨.sizePadding, "", 1, 3, true, 0, 24, 0⟩] := by
  decide +kernel

/-- no warning although the padding entry and `x` both claim bit 16 -/
theorem C02_bytesize_padding_silent :
    encodeMessage none (Descs2.params exPadOverlap) (.dict (Descs2.supplied exPadOverlap)) none true = .ok ([0x07, 0x00, 0x5A, 0x00], 0) ∧
    ¬ LDisj2 (Descs2.layout exPadOverlap) ∧ ¬ Descs2.padOk exPadOverlap := by
  have hnd : ¬ LDisj2 (Descs2.layout exPadOverlap) := by
    intro h
    rw [exPadOverlap_layout] at h
    have h1 := (List.pairwise_cons.mp h).1 ⟨.sizePadding, "", 1, 3, true, 0, 24, 0⟩ (by simp) 16
    exact h1 ⟨⟨0, by decide, by decide⟩, ⟨8, by decide, by decide⟩⟩
  refine ⟨Except.eq_ok_of_toOption' (by decide +kernel), hnd, ?_⟩
  intro hp
  obtain ⟨pdu, w, henc, _, hiff⟩ := C02_overlap_iff_nested2 exPadOverlap none exPadOverlap_ok
  have hw : w = 0 := by
    have h2 : encodeMessage none (Descs2.params exPadOverlap) (.dict (Descs2.supplied exPadOverlap)) none true
        = .ok ([0x07, 0x00, 0x5A, 0x00], 0) := Except.eq_ok_of_toOption' (by decide +kernel)
    rw [h2] at henc
    simp only [Except.ok.injEq, Prod.mk.injEq] at henc
    exact henc.2.symm
  exact hnd ((hiff hp).mp hw)

/-! ### the second edition covers the first: `C02_bit_exact_nested` re-derived from `C02_bit_exact_nested2` via `Desc.to2` -/

/-- every instance of `C02_bit_exact_nested` is an instance of `C02_bit_exact_nested2` (`Descs.to2_ok`, `Descs.to2_layout`,
    `Descs.to2_padOk`: no BYTE-SIZE padding, so the side condition is vacuous) -/
theorem C02_nested2_covers_nested (ds : List Desc) (hok : Descs.ok ds) (trig : Option Bytes) (pdu : Bytes)
    (henc : encodeMessage none (Descs.params ds) (.dict (Descs.supplied ds)) trig true = .ok (pdu, 0)) :
    (∀ e ∈ Descs.layout ds, ∀ j, j < e.bl → getBit pdu (absBit e.pos e.k e.hl (j + e.bp)) = e.raw.testBit j) ∧
    (∀ a, (∀ e ∈ Descs.layout ds, ¬ e.claims a) → getBit pdu a = false) ∧
    LDisj (Descs.layout ds) ∧ pdu.length = Descs.extent ds := by
  have henc2 : encodeMessage none (Descs2.params (Descs.to2 ds)) (.dict (Descs2.supplied (Descs.to2 ds))) trig true = .ok (pdu, 0) := by
    rw [Descs.to2_params, Descs.to2_supplied]; exact henc
  obtain ⟨h1, h2, h4⟩ := C02_bit_exact_nested2 (Descs.to2 ds) trig (Descs.to2_ok trig ds hok) pdu henc2
  obtain ⟨hb, hd⟩ := h1 (Descs.to2_padOk ds)
  rw [Descs.to2_layout] at hb h2 hd
  refine ⟨fun e he j hj => hb e.to2 (List.mem_map.mpr ⟨e, he, rfl⟩) j hj, ?_, ?_, by rw [h4, Descs.to2_extent]⟩
  · intro a ha
    apply h2 a
    intro e2 he2 hc
    obtain ⟨e, he, rfl⟩ := List.mem_map.mp he2
    exact ha e he hc
  · have := (LDisj2_iff _).mp hd
    rw [List.map_map] at this
    exact (LDisj_geo _).mp this

end OdxVerif.Codec
