import OdxVerif.Proofs.CompRes2
import OdxVerif.Props.C01Nested2R
/-! # C01, nested tier, extension W25 — the wire condition of `C01_roundtrip_nested2R` discharged from the layout.
    (Separate file; imported by nothing else.) -/
namespace OdxVerif.Codec
open OdxVerif.Bits OdxVerif.OdxM

/- Full statement of C01: see `Props/C01.lean` / `Props/C01Nested2R.lean`.  `C01_roundtrip_nested2R` carries the wire condition
   `hres : Descs2R.resPre ds { msg := pdu }` ("every skipped object lies inside the PDU and reads as the node's `r`").  For
   RESERVED parameters that no other parameter overlaps this is not a hypothesis on the PDU but a consequence of the layout:
   the encoder extends the message behind the object (`emplace_bytes(b"")`) and writes no bit of it, so it reads as 0.
   Proved here: that consequence, for the WHOLE description at once (`C01_wire_condition_of_layout`, by induction over `Desc2R`,
   the decoder states of `resPre` related to the layout coordinates through the round-trip clause `Good.rt`), and the round trip
   without the wire hypothesis (`C01_roundtrip_nested2R_reserved_free`) under the decidable check `Descs2R.resFree`.
   Still missing: NRC-CONST nodes / overlapped RESERVED nodes mixed with free ones in one statement (use `C01_roundtrip_nested2R`
   with `hres`: the overlapped nodes read as what the overlapping parameters wrote), RESERVED / NRC-CONST inside field items
   and multiplexer cases (`Props/C01Nested2U.lean` says why). -/

/-- **the wire condition follows from the layout.**  `ds : List Desc2R` well-formed (`Descs2R.ok`), strict `encode` returns `pdu`
    without overlap warning.  If the description has no NRC-CONST node, every RESERVED node has `r = 0`, and no entry of the
    layout claims a bit of a RESERVED node (`Descs2R.resAll … ds 0 0`: the nodes visited in layout coordinates, to any depth of
    STRUCTUREs with or without BYTE-SIZE / BYTE-POSITION), then every RESERVED object lies inside `pdu` and reads as 0 at the
    decoder state in which it is reached. -/
theorem C01_wire_condition_of_layout (ds : List Desc2R) (trig : Option Bytes) (hok : Descs2R.ok trig ds) (pdu : Bytes)
    (henc : encodeMessage none (Descs2R.params ds) (.dict (Descs2R.supplied ds)) trig true = .ok (pdu, 0))
    (hfree : Descs2R.resAll (fun a => ∀ e ∈ Descs2R.layout ds, ¬ e.claims a) ds 0 0) :
    Descs2R.resPre ds { msg := pdu } :=
  Descs2R.resPre_of_layout ds trig hok pdu henc hfree

/-- **C01, nested tier, RESERVED parameters nobody overlaps: no wire hypothesis.**  As `C01_roundtrip_nested2R`, with `hres`
    replaced by the decidable check `Descs2R.resFree ds` (no NRC-CONST node; every RESERVED node has `r = 0` and none of its bits
    is claimed by an entry of the layout).  Then: strict `encode` returns the PDU without overlap warning ⇒ strict `decode`
    returns the complete dictionary — with the entries `name ↦ 0` for the RESERVED parameters — and the cursor where the encoder
    stopped. -/
theorem C01_roundtrip_nested2R_reserved_free (ds : List Desc2R) (trig : Option Bytes) (hok : Descs2R.ok trig ds) (pdu : Bytes)
    (hend : Comps.anyEop (Descs2R.comps ds) = true → Descs2R.endCursor ds = pdu.length)
    (hfree : Descs2R.resFree ds = true)
    (henc : encodeMessage none (Descs2R.params ds) (.dict (Descs2R.supplied ds)) trig true = .ok (pdu, 0)) :
    decodeMessage none (Descs2R.params ds) pdu true = .ok (.dict (Descs2R.decoded ds), Descs2R.endCursor ds) :=
  C01_roundtrip_nested2R ds trig hok pdu hend
    (C01_wire_condition_of_layout ds trig hok pdu henc (Descs2R.resAll_of_resFree ds hfree)) henc

/-- … **consumes the whole PDU** when the last listed parameter ends where the PDU ends -/
theorem C01_roundtrip_nested2R_reserved_free_whole (ds : List Desc2R) (trig : Option Bytes) (hok : Descs2R.ok trig ds) (pdu : Bytes)
    (hwire : Descs2R.endCursor ds = pdu.length) (hfree : Descs2R.resFree ds = true)
    (henc : encodeMessage none (Descs2R.params ds) (.dict (Descs2R.supplied ds)) trig true = .ok (pdu, 0)) :
    decodeMessage none (Descs2R.params ds) pdu true = .ok (.dict (Descs2R.decoded ds), pdu.length) := by
  have h := C01_roundtrip_nested2R_reserved_free ds trig hok pdu (fun _ => hwire) hfree henc
  rw [hwire] at h
  exact h

/-! ### non-vacuity: the examples of W22 without their hand-made wire conditions -/

/-- `exRes` = [sid; a; st { k; rs : RESERVED 12 }; z; tail : RESERVED 12]: the check holds (`rs` at bytes 3–4, `tail` at bytes 6–7,
    the entries at bytes 0, 1, 2, 5) -/
theorem exRes_free : Descs2R.resFree exRes = true := by decide +kernel

/-- **the theorem applies**: `22 05 09 00 00 77 00 00` decoded completely, `rs ↦ 0`, `tail ↦ 0`, all 8 bytes consumed -/
example : decodeMessage none (Descs2R.params exRes) exResPdu true = .ok (.dict (Descs2R.decoded exRes), 8) :=
  C01_roundtrip_nested2R_reserved_free_whole exRes none exRes_ok exResPdu (by decide +kernel) exRes_free exRes_enc

/-- `exU16Req` = [sid; s { k; txt : A_UNICODE2STRING low-high; rs : RESERVED 8 }; z]: the RESERVED byte lies inside a nested
    structure behind a 6-byte string -/
theorem exU16Req_free : Descs2R.resFree exU16Req = true := by decide +kernel
example : decodeMessage none (Descs2R.params exU16Req) exU16Pdu true = .ok (.dict (Descs2R.decoded exU16Req), 10) :=
  C01_roundtrip_nested2R_reserved_free_whole exU16Req none exU16Req_ok exU16Pdu (by decide +kernel) exU16Req_free exU16Req_enc

/-- the check is not void: `exResOverlap` (a VALUE parameter lies over the RESERVED one, which then reads as 10) fails it -/
example : Descs2R.resFree exResOverlap = false := by decide +kernel
/-- … and so does a description with an NRC-CONST node -/
example : Descs2R.resFree exNrcR = false := by decide +kernel

/-- a RESERVED parameter inside a STRUCTURE with BYTE-SIZE and BYTE-POSITION, 4 bits at bit 4 of the structure's second byte, next
    to a 4-bit VALUE at bit 0 of the same byte: request [sid; st @ byte 2, BYTE-SIZE 3 { k; lo : 4 bits @ byte 1 bit 0 = 5;
    hi : RESERVED 4 bits @ byte 1 bit 4 }; z @ byte 1] → 22 | 77 | 09 05 00 -/
def exResBS : List Desc2R :=
  [.base (.const (rU8 "sid") (.int 0x22) false),
   .struct "st" (some 2) (some 3) [.base (.value (rU8 "k") (.int 9)), .base (.value (rU4 "lo" (some 1) (some 0)) (.int 5)),
     .reserved "hi" (some 1) (some 4) 4 0],
   .base (.value (rU8 "z" (some 1)) (.int 0x77))]
def exResBSPdu : Bytes := [0x22, 0x77, 0x09, 0x05, 0x00]
theorem exResBS_enc : encodeMessage none (Descs2R.params exResBS) (.dict (Descs2R.supplied exResBS)) none true = .ok (exResBSPdu, 0) :=
  Except.eq_ok_of_toOption_r (by decide +kernel)
theorem exResBS_ok : Descs2R.ok none exResBS := by
  refine ⟨⟨rU8_wf _ _ _ (by decide) (by decide), ?_, rU8_wf _ _ _ (by decide) (by decide), trivial⟩, ?_, ⟨rfl, rfl, trivial⟩, rfl,
    by decide⟩
  · refine ⟨⟨rU8_wf _ _ _ (by decide) (by decide), rU4_wf _ _ _ _ (by decide) (by decide), ⟨by decide, by decide⟩, trivial⟩, ?_,
      ⟨rfl, rfl, trivial⟩, fun bs h => ?_⟩
    · simp [Comps.namesOk, Descs2R.comps, Descs2R.mcs, MComps.cs, Desc2R.mc, Desc2.mc, Comp.name, Param.name, Comp.ofObjValue,
        Obj.toParam, Comp.reserved, rU8, rU4]
    · cases h
      exact ⟨by decide +kernel, rfl⟩
  · simp [Comps.namesOk, exResBS, Descs2R.comps, Descs2R.mcs, MComps.cs, Desc2R.mc, Desc2.mc, Comp.name, Param.name, Comp.ofObjConst,
      Obj.toConstParam, Comp.ofObjValue, Obj.toParam, Comp.ofValue, rU8]
theorem exResBS_free : Descs2R.resFree exResBS = true := by decide +kernel
example : decodeMessage none (Descs2R.params exResBS) exResBSPdu true = .ok (.dict (Descs2R.decoded exResBS), 2) :=
  C01_roundtrip_nested2R_reserved_free exResBS none exResBS_ok exResBSPdu (fun h => by cases h) exResBS_free exResBS_enc
example : Descs2R.decoded exResBS =
    [("sid", .atom (.int 0x22)), ("st", .dict [("k", .atom (.int 9)), ("lo", .atom (.int 5)), ("hi", .atom (.int 0))]),
     ("z", .atom (.int 0x77))] := rfl

/-! ### the wire condition in static form (overlapped RESERVED, NRC-CONST) -/

/-- **C01, nested tier, RESERVED / NRC-CONST, wire condition stated on the PDU alone.**  As `C01_roundtrip_nested2R`, with `hres`
    (a conjunction evaluated at the decoder states in which the nodes are reached) replaced by `Descs2R.resWire pdu ds 0 0`: every
    RESERVED / NRC-CONST node, at its LAYOUT coordinates (origin / cursor as the layout `Lay2` moves them, to any depth of
    STRUCTUREs), lies inside `pdu` and reads as its `r`.  Covers what `Descs2R.resFree` excludes: RESERVED parameters that ARE
    overlapped (`r` = what the overlapping parameters wrote) and NRC-CONST parameters. -/
theorem C01_roundtrip_nested2R_static_wire (ds : List Desc2R) (trig : Option Bytes) (hok : Descs2R.ok trig ds) (pdu : Bytes)
    (hend : Comps.anyEop (Descs2R.comps ds) = true → Descs2R.endCursor ds = pdu.length)
    (hw : Descs2R.resWire pdu ds 0 0)
    (henc : encodeMessage none (Descs2R.params ds) (.dict (Descs2R.supplied ds)) trig true = .ok (pdu, 0)) :
    decodeMessage none (Descs2R.params ds) pdu true = .ok (.dict (Descs2R.decoded ds), Descs2R.endCursor ds) :=
  C01_roundtrip_nested2R ds trig hok pdu hend (Descs2R.resPre_of_static ds trig hok pdu henc hw) henc

/-- `exResOverlap`: the RESERVED nibble at byte 1 bit 4 of `22 A3` reads as 10 -/
example : decodeMessage none (Descs2R.params exResOverlap) [0x22, 0xA3] true = .ok (.dict (Descs2R.decoded exResOverlap), 2) :=
  C01_roundtrip_nested2R_static_wire exResOverlap none exResOverlap_ok _ (fun h => by cases h)
    ⟨trivial, ⟨by decide +kernel, by decide +kernel⟩, trivial, trivial, trivial⟩ exResOverlap_enc

/-- `exNrcR`: the NRC-CONST at byte 2 of `7F 22 11` reads as 0x11 -/
example : decodeMessage none (Descs2R.params exNrcR) [0x7F, 0x22, 0x11] true = .ok (.dict (Descs2R.decoded exNrcR), 3) :=
  C01_roundtrip_nested2R_static_wire exNrcR (some exNrcRTrig) exNrcR_ok _ (fun h => by cases h)
    ⟨trivial, trivial, ⟨⟨by decide +kernel, trivial⟩, by decide +kernel⟩, trivial, trivial⟩ exNrcR_enc

end OdxVerif.Codec
