import OdxVerif.Proofs.PdxEscape
import OdxVerif.Proofs.PdxSchema
import OdxVerif.Proofs.PdxOrder
import OdxVerif.Gen.PdxSchema
/-! # C11 — writing a database to PDX and loading it back preserves it   (**partial**)

  Property theorems only; lemmas live in `Proofs/PdxEscape.lean`, `Proofs/PdxSchema.lean`, `Proofs/PdxOrder.lean`,
  definitions in `Model/Pdx.lean`, the read/write table in `Gen/PdxSchema.lean` (regenerated from the source of
  odxtools on every run).

  Full statement of the property:  `∀ db, load (write db) ≈ db  ∧  write (load (write db)) = write db  ∧
  behaviour (load (write db)) = behaviour db  ∧  load is independent of file order / entry point`.
  `write` is 51 Jinja2 templates and `load` is ~150 `from_et` functions over expat; neither is modelled.  What is
  proved here is the logic around them; that each template line renders its field correctly is established by
  the differential round trip of `harness/props/c11.py` only.  Proved:

  * `C11_escape*`   — the escaping the (fixed) writer applies to every text and attribute value is inverted by the
                      decoding an XML processor applies, for every string inside the stated envelope; the envelope
                      boundary (CR in text; TAB/LF/CR in attribute values) and the unescaped `make_xml_attrib` of the
                      pinned commit are counterexample theorems.
  * `C11_schema_*`  — necessary condition "no slot the parser reads is missing from what the templates can emit":
                      generic lemma + the obligation over the generated table, by `decide +kernel`.
  * `C11_order*`    — the database built from a set of files does not depend on their order (strict mode), and
                      the three entry points classify file names alike.
-/
namespace OdxVerif.Pdx
open OdxVerif.Gen

/-! ## (a) escaping -/

/-- `markupsafe.escape` (Jinja2 autoescape / `|e`, and `make_xml_attrib` after the fix) is inverted by the decoding
    of the five references, for **every** string -/
theorem C11_escape (s : List Nat) : unescape (escape s) = some s := unescape_escape s

/-- two different values are never written as the same text -/
theorem C11_escape_injective {a b : List Nat} (h : escape a = escape b) : a = b := escape_injective h

/-- character data: with the processing an XML parser really does (forbidden characters, `]]>`, end-of-line
    normalisation) every string of XML characters without CR is read back unchanged -/
theorem C11_escape_text (s : List Nat) (h : ∀ c ∈ s, xmlChar c = true ∧ c ≠ 13) :
    decodeText (escape s) = some s := decodeText_escape s h

/-- attribute values (always written as `NAME="…"`): every string of XML characters without TAB, LF, CR is read
    back unchanged -/
theorem C11_escape_attr (s : List Nat) (h : ∀ c ∈ s, xmlChar c = true ∧ c ≠ 13 ∧ c ≠ 10 ∧ c ≠ 9) :
    decodeAttr (escape s) = some s := decodeAttr_escape s h

example : decodeText (escape [97, 38, 60, 62, 34, 39, 252, 8364, 10]) = some [97, 38, 60, 62, 34, 39, 252, 8364, 10] := by decide
example : decodeAttr (escape [38, 97, 109, 112, 59, 34]) = some [38, 97, 109, 112, 59, 34] := by decide

/-- envelope boundary: white space that XML normalises is *not* preserved (`"a\rb"` is read as `"a\nb"`; a line
    feed in an attribute value is read as a space) — escaping as `&#13;` / `&#10;` would be needed -/
theorem C11_escape_whitespace_counterexample :
    decodeText (escape [97, 13, 98]) = some [97, 10, 98] ∧ decodeAttr (escape [97, 10, 98]) = some [97, 32, 98] :=
  ⟨decodeText_cr_counterexample, decodeAttr_ws_counterexample⟩

/-- the pinned commit's `make_xml_attrib` (`f' {name}="{value}"'`, no escaping) does **not** round-trip: `a&b` and
    `a"b` give ill-formed XML, `&lt;` is read back as `<` -/
theorem C11_make_xml_attrib_counterexample :
    ¬ (∀ v : List Nat, (∀ c ∈ v, xmlChar c = true ∧ c ≠ 13 ∧ c ≠ 10 ∧ c ≠ 9) → decodeAttr (rawAttrib v) = some v) ∧
    decodeAttr (rawAttrib [97, 38, 98]) = none ∧ decodeAttr (rawAttrib [97, 34, 98]) = none ∧
    decodeAttr (rawAttrib [38, 108, 116, 59]) = some [60] :=
  ⟨rawAttrib_counterexample, rawAttrib_amp, rawAttrib_quote, rawAttrib_changed⟩

/-! ## (b) the generic schema lemma -/

/-- an element written with slot schema `W` and read with slot schema `R ⊆ W` gives back exactly the part of the
    element that `R` can see -/
theorem C11_schema_generic {V : Type} (R W : List Slot) (e : Elem V) (h : ∀ s ∈ R, s ∈ W) :
    read R (write W e) = restrict R e := schema_generic R W e h

/-- without the inclusion: exactly the slots of `R` outside `W` are lost … -/
theorem C11_schema_general {V : Type} (R W : List Slot) (e : Elem V) :
    ∀ s, read R (write W e) s = if s ∈ W then restrict R e s else none := schema_general R W e

/-- … and such a slot really is lost whenever the object has it (the inclusion is necessary) -/
theorem C11_schema_loss {V : Type} (R W : List Slot) (e : Elem V) (s : Slot) (v : V) :
    s ∈ R → s ∉ W → e.lookup s = some v → read R (write W e) s ≠ restrict R e s := schema_loss R W e s v

example : read ["@ID", "SHORT-NAME"] (write ["SHORT-NAME", "@ID", "DESC"] [("@ID", 1), ("DESC", 2), ("SHORT-NAME", 3)]) "@ID" = some 1 := by
  decide

/-! ## (c) the obligation over the generated table -/

/-- slots the parser reads on purpose although the writer never emits them: alternatives of older ODX versions
    (the writer always produces MODEL-VERSION 2.2.0).  Each entry is justified in `design_notes/C11.md`. -/
def allowlist : List Allow := [
  -- ODX 2.0: the content of COMPARAM-SUBSET lived in COMPARAM-SPEC (database.py:104-106)
  ⟨"ComparamSubset", "COMPARAM-SPEC", "@CATEGORY"⟩,
  ⟨"ComparamSubset", "COMPARAM-SPEC", "COMPARAMS/COMPARAM"⟩,
  ⟨"ComparamSubset", "COMPARAM-SPEC", "COMPLEX-COMPARAMS/COMPLEX-COMPARAM"⟩,
  ⟨"ComparamSubset", "COMPARAM-SPEC", "DATA-OBJECT-PROPS/DATA-OBJECT-PROP"⟩,
  ⟨"ComparamSubset", "COMPARAM-SPEC", "UNIT-SPEC"⟩,
  -- ODX 2.0.0: COMPARAM-REF/VALUE, replaced by SIMPLE-VALUE | COMPLEX-VALUE (comparaminstance.py:34-39)
  ⟨"ComparamInstance", "COMPARAM-REF", "VALUE"⟩,
  -- ODX 2.0: ENV-DATA objects inside ENV-DATA-DESC, replaced by ENV-DATA-REFS (environmentdatadescription.py:72-83)
  ⟨"DiagDataDictionarySpec", "DIAG-DATA-DICTIONARY-SPEC", "ENV-DATA-DESCS/ENV-DATA-DESC/ENV-DATAS/ENV-DATA"⟩,
  ⟨"EnvironmentDataDescription", "ENV-DATA-DESC", "ENV-DATAS/ENV-DATA"⟩,
  -- ODX 2.0: DATA-OBJECT-PROP-REF of a DYNAMIC-ENDMARKER-FIELD, replaced by DYN-END-DOP-REF (dynamicendmarkerfield.py:30-32)
  ⟨"DynamicEndmarkerField", "DYNAMIC-ENDMARKER-FIELD", "DATA-OBJECT-PROP-REF"⟩
]

/-- slots that are read, are *not* written and *should* be: the open known findings of this property
    (`fixes/known_C11.jsonl`); listed separately so that they are not mistaken for legitimate exceptions -/
def knownGaps : List Allow := [
  -- c11-docref: an ODXLINK reference into another document is written without DOCREF/DOCTYPE by all but four templates
  ⟨"*", "*", "@DOCREF"⟩, ⟨"*", "*", "@DOCTYPE"⟩,
  -- c11-diag-variables: no document template imports printDiagVariable.xml.jinja2 (and it does not compile)
  ⟨"*", "*", "DIAG-VARIABLES/DIAG-VARIABLE"⟩, ⟨"*", "*", "DIAG-VARIABLES/DIAG-VARIABLE-REF"⟩,
  ⟨"*", "*", "VARIABLE-GROUPS/VARIABLE-GROUP"⟩,
  -- c11-pos-response-suppressable: printPosResponseSuppressible is never called
  ⟨"DiagService", "DIAG-SERVICE", "POS-RESPONSE-SUPPRESSABLE"⟩
]

/-- **the obligation**: for every element class and every tag it is parsed from, every slot (attribute, child tag,
    or path of them) that its `from_et` reads can be emitted by the templates below an element with that tag —
    except the allow-listed ODX 2.0 alternatives and the listed open findings.  The table is regenerated from
    `/repo` on every run: a template line dropped, a tag misspelt on either side, an attribute read newly added
    without a template line breaks this theorem. -/
theorem C11_schema_table : tableOk (allowlist ++ knownGaps) pdxSchema = true := by decide +kernel

/-- what the checked table means, row by row -/
theorem C11_schema_table_spec :
    ∀ c ∈ pdxSchema, ∀ s ∈ c.reads, s ∈ c.writes ∨ allowed (allowlist ++ knownGaps) c s = true :=
  tableOk_spec C11_schema_table

/-- … and in terms of the generic element model: every class of the table round-trips every slot that is not
    explicitly excused -/
theorem C11_schema_roundtrip {V : Type} :
    ∀ c ∈ pdxSchema, ∀ (e : Elem V) s, allowed (allowlist ++ knownGaps) c s = false →
      read c.reads (write c.writes e) s = restrict c.reads e s :=
  table_roundtrip C11_schema_table

/-- non-vacuity: the table is not empty, has rows with many reads, and the exceptions are few -/
example : 100 ≤ pdxSchema.length ∧ 800 ≤ (pdxSchema.map (·.reads.length)).sum := by decide +kernel
example : tableOk [] [⟨"Comparam", "COMPARAM", ["@DISPLAY_LEVEL"], ["@DISPLAY-LEVEL"]⟩] = false := by decide

/-! ## (d) load order and entry points -/

/-- strict mode, pairwise distinct document fragments: processing a permutation of the files fails iff the original
    order fails (two files of different MODEL-VERSION), and otherwise yields the same three container sets, the
    same model version and the same ODXLINK map (as a function of the key) -/
theorem C11_order (fs fs' : List File) (hp : fs.Perm fs') (hd : distinctFragments fs) :
    (processAll fs = .error () ↔ processAll fs' = .error ()) ∧
    ∀ db db', processAll fs = .ok db → processAll fs' = .ok db' →
      db.dlcs.Perm db'.dlcs ∧ db.subsets.Perm db'.subsets ∧ db.specs.Perm db'.specs ∧
      db.version = db'.version ∧ ∀ k, linkLookup db k = linkLookup db' k :=
  load_order fs fs' hp hd

/-- … and so does everything `refresh()` derives from that map for a layer: the communication parameters that apply to
    it (`layer.comparam_refs`) and, per object category, the objects it ends up with after value inheritance.  Both
    are computed by recursion through `parent_ref.layer` over described attributes only (model: the PARENT-REF chains
    unfolded through the ODXLINK map, then `Comparam.available` / `Inherit.computeAvailable`, the models of C15 / C09),
    so a derived layer whose document is added before its parent's document gets the same result -/
theorem C11_order_effective (fs fs' : List File) (hp : fs.Perm fs') (hd : distinctFragments fs) (db db' : Db)
    (h : processAll fs = .ok db) (h' : processAll fs' = .ok db') (raw : Nat → Option RawLayer) (fuel : Nat)
    (k : Key) :
    effectiveComparams db raw fuel k = effectiveComparams db' raw fuel k ∧
    effectiveObjects db raw fuel k = effectiveObjects db' raw fuel k :=
  effective_order fs fs' hp hd db db' h h' raw fuel k

example : distinctFragments exLayerFiles ∧ exLayerFiles.Perm exLayerFiles.reverse ∧
    exTags (processAll exLayerFiles) (("V", .container), "e") = some [20, 11, 21] ∧
    exTags (processAll exLayerFiles.reverse) (("V", .container), "e") = some [20, 11, 21] :=
  ⟨by unfold distinctFragments; decide, (List.reverse_perm _).symm, by decide, by decide⟩

/-- round 7 — namesake documents are inside the theorem: a container, a comparam subset and a comparam spec that share
    the short name `N` are pairwise distinct fragments (their short names are not distinct); in both orders all three
    documents are kept -/
example : distinctFragments exNamesakes ∧ ¬ (exNamesakes.map (·.frag)).Nodup ∧
    processAll exNamesakes = processAll exNamesakes.reverse ∧
    (processAll exNamesakes).toOption.map (fun db => (db.dlcs.length, db.subsets.length, db.specs.length)) = some (1, 1, 1) :=
  ⟨by unfold distinctFragments; decide, by decide, by rfl, by rfl⟩

/-- when loading fails: exactly when two files disagree about the model version — a property of the set of files -/
theorem C11_order_error_iff (fs : List File) :
    processAll fs = .error () ↔ ∃ f ∈ fs, ∃ g ∈ fs, f.version ≠ g.version := processAll_error_iff fs

/-- in non-strict mode the version check only warns and the *last* file's version wins: order dependent.  Strict
    mode is therefore an assumption of `C11_order` -/
theorem C11_order_lenient_counterexample :
    ∃ fs fs', fs.Perm fs' ∧ distinctFragments fs ∧ (processAllLenient fs).version ≠ (processAllLenient fs').version :=
  load_order_counterexample_lenient

example : distinctFragments exFiles ∧ exFiles.length = 3 := ⟨by unfold distinctFragments; decide, rfl⟩

/-- the three entry points (`Database.add_pdx_file` over archive members, `load_files`, `load_directory`) classify
    every file name alike, except that the latter two hand a nested `.pdx` to the archive reader -/
theorem C11_entry_points_agree (suffix name : String) (h : suffix ≠ ".pdx") :
    dispatch .files suffix name = dispatch .pdx suffix name ∧ dispatch .dir suffix name = dispatch .pdx suffix name := by
  simp only [dispatch, h, beq_iff_eq, bne_iff_ne, ne_eq, if_false]
  constructor <;> (split <;> first | rfl | (by_cases hn : name = "index.xml" <;> simp [hn]))

example : dispatch .pdx ".odx-cs" "a.odx-cs" = .odx ∧ dispatch .dir "" "index.xml" = .index ∧ dispatch .files ".jar" "x.jar" = .aux := by
  decide

end OdxVerif.Pdx
