import OdxVerif.Proofs.IsoTpProv
/-! # C13 — malformed or lossy CAN traffic never crashes or fabricates telegrams
    All statements are about **arbitrary** frame lists: no well-formedness hypothesis anywhere.
    "Never raises": the model's `step` is a total function whose only outcomes are a new slot and a list
    of callbacks/yields — it has no error outcome. That the Python code has none either is what the
    correspondence check establishes on every run (an exception there is a disagreement *and* a
    violation found by the direct oracle). -/
namespace OdxVerif.IsoTp

/-- **Provenance and at-most-once.** For every frame list, the reported telegrams are — in order,
    one for one — explained by `expls`: each is the payload of a single frame of the list, or the
    announced-length prefix of a first frame `fs[j]` followed by consecutive frames `fs[c]`, `c ∈ cs`,
    with increasing indices after `j` and sequence numbers 1,2,…,15,0,…; and the first-frame indices
    of the explanations are strictly increasing, so no first frame yields more than one telegram. -/
theorem C13_provenance (fs : List Bytes) :
    ∃ expls : List Expl,
      expls.map Expl.payload = telegrams (run {} fs).2 ∧
      (∀ e ∈ expls, ValidExpl fs e) ∧
      (expls.filterMap Expl.ffIndex?).Pairwise (· < ·) := by
  refine ⟨(grun 0 ⟨{}, none⟩ fs).2, (grun_erase 0 ⟨{}, none⟩ fs).2, ?_, ?_⟩
  · intro e he
    have := (grun_inv fs [] ⟨{}, none⟩ rfl (by simp [lb])).1 e he
    simpa using this.1
  · exact (grun_inv fs [] ⟨{}, none⟩ rfl (by simp [lb])).2

/-- the same for one ID among several: what is reported for ID `i` is explained by the frames of ID `i` alone -/
theorem C13_provenance_multi (ids : List Nat) (i k : Nat) (hk : slotIndex ids i = some k) (fs : List (Nat × Bytes)) :
    ∃ expls : List Expl,
      expls.map Expl.payload = telegramsOf i (feedAll (St.init ids) fs).2 ∧
      (∀ e ∈ expls, ValidExpl ((fs.filter fun f => f.1 = i).map (·.2)) e) ∧
      (expls.filterMap Expl.ffIndex?).Pairwise (· < ·) := by
  have hlt : k < (St.init ids).slots.length := by simp [St.init]; exact slotIndex_lt ids i k hk
  have hp := (feedAll_project i k fs (St.init ids) hk hlt).1
  have hslot : (St.init ids).slots.getD k {} = {} := by
    simp [St.init, List.getD_eq_getElem?_getD]
    cases h : (ids[k]?) <;> simp
  obtain ⟨ex, h1, h2, h3⟩ := C13_provenance ((fs.filter fun f => f.1 = i).map (·.2))
  refine ⟨ex, ?_, h2, h3⟩
  unfold telegramsOf
  rw [hp, hslot]; exact h1

/-- **Recovery.** After *any* frame history — faults included — the next well-formed transfer is
    reassembled correctly (1…4095 bytes, any frame size, any padding). -/
theorem C13_recovery (junk : List Bytes) (x : Xfer) (hx : x.ok) :
    telegrams (run (run {} junk).1 x.frames).2 = [x.p] :=
  (run_segment x.dl hx.1 x.pad x.p _ hx.2.1 hx.2.2).1

/-- a completed or never-started transfer leaves no buffer behind: a stray consecutive frame reports nothing -/
theorem C13_stray_consecutive (s : Slot) (h : s.data = none) (sn : Nat) (hsn : sn < 16) (rest : Bytes) :
    telegrams (step s ((32 + sn) :: rest)).2 = [] ∧ (step s ((32 + sn) :: rest)).1 = s := by
  have a : (32 + sn) / 16 = 2 := by omega
  simp [step, a, h, telegrams]

/-- and a well-formed transfer always ends in that state (or was a single frame, which does not touch the slot) -/
theorem C13_transfer_leaves_clean (x : Xfer) (hx : x.ok) (s : Slot) :
    (run s x.frames).1.data = none ∨ (run s x.frames).1 = s :=
  (run_segment x.dl hx.1 x.pad x.p s hx.2.1 hx.2.2).2

/-! non-vacuity / regression witnesses (the three defects of the pinned commit, now theorems the other way):
    stray CF first, empty frame, truncated first frame, and the stale-buffer replay -/
example : telegrams (run {} [[0x21, 1, 2, 3], [], [0x10]]).2 = [] := by decide
example : telegrams (run {} [[0x10, 8, 1,2,3,4,5,6], [0x21, 7,8, 0xAA], [0x22, 9,9,9]]).2
            = [[1,2,3,4,5,6,7,8]] := by decide

end OdxVerif.IsoTp
