import OdxVerif.Props.C09
import OdxVerif.Proofs.InheritPrioGenEq
/-! # C09 — priorities and the order of the parents through the functions GENERATED from the source

    `Gen.inheritancePriorityE` and `Gen.parentRefsSortedByPriorityE` (`Gen/InheritPrio.lean`) are regenerated from
    `DiagLayerType.inheritance_priority` (`diaglayertype.py`) and `HierarchyElement._get_parent_refs_sorted_by_priority`
    (`hierarchyelement.py`) on every run of C09 (`harness/extract/py2lean.py`); the theorems below are re-checked against the
    current source. (`Gen/LayerPrio.lean`, the *table* extracted by `harness/extract/layerprio.py`, stays: the enum `LayerKind`
    and `LayerKind.prio` of the models come from it; `gen_inheritancePriority_eq` ties the two extractions to each other.) -/
namespace OdxVerif.Inherit
open OdxVerif.Gen

/-- **Tie.** (a) the rendered property never raises and returns the table entry; (b) for every list of parent references the
    rendered `_get_parent_refs_sorted_by_priority(reverse=True)` raises nothing and is the model's `sortDesc`; (c) for any
    record type and either direction it is the stable sort by priority -/
theorem C09_gen_priority_tie :
    (∀ k : LayerKind, Gen.inheritancePriorityE k = .ok k.prio) ∧
    (∀ rs : List ParentRes, Gen.parentRefsSortedByPriorityE ParentRes.kind rs true = .ok (sortDesc rs)) ∧
    (∀ (α : Type) (kindOf : α → LayerKind) (rs : List α) (reverse : Bool),
      Gen.parentRefsSortedByPriorityE kindOf rs reverse = .ok (Py.stableSort (fun r => (kindOf r).prio) reverse rs)) :=
  ⟨gen_inheritancePriority_eq, gen_sortDesc_eq, fun _ kindOf rs reverse => gen_parentRefs_eq kindOf rs reverse⟩

/-- **`C09_priority_table` for the rendered source**: the priorities the rendered property returns are strict and order the
    layer types as ISO 22901-1 §7.3.2.4 demands -/
theorem C09_gen_priority_table :
    (∀ a b : LayerKind, ∃ pa pb, Gen.inheritancePriorityE a = .ok pa ∧ Gen.inheritancePriorityE b = .ok pb ∧
      (pa < pb ↔ odxRank a < odxRank b) ∧ (pa = pb → a = b)) := by
  intro a b
  refine ⟨a.prio, b.prio, gen_inheritancePriority_eq a, gen_inheritancePriority_eq b, ?_, C09_priority_table.2.1 a b⟩
  cases a <;> cases b <;> decide

/-- **The order in which `_compute_available_objects` visits the parents** (rendered source): a permutation of the parent
    references, highest priority first, parents of equal priority in document order (`sortDesc`) -/
theorem C09_gen_parent_order (rs : List ParentRes) :
    ∃ out, Gen.parentRefsSortedByPriorityE ParentRes.kind rs true = .ok out ∧ out.Perm rs ∧
      out.Pairwise (fun a b => b.prio ≤ a.prio) :=
  ⟨sortDesc rs, gen_sortDesc_eq rs, sortDesc_perm rs, sortDesc_sorted rs⟩

/-! non-vacuity on the generated functions themselves -/
example : Gen.inheritancePriorityE .ecuSharedData = .ok 100 ∧ Gen.inheritancePriorityE .protocol = .ok 1 := by decide
/-- two base variants around an ECU-SHARED-DATA layer and a protocol: descending, the base variants keep their order -/
example : (Gen.parentRefsSortedByPriorityE ParentRes.kind
      [⟨.baseVariant, [1], []⟩, ⟨.protocol, [], []⟩, ⟨.ecuSharedData, [], []⟩, ⟨.baseVariant, [2], []⟩] true).map (·.map fun r => (r.kind, r.excl))
    = .ok [(.ecuSharedData, []), (.baseVariant, [1]), (.baseVariant, [2]), (.protocol, [])] := by decide
example : (Gen.parentRefsSortedByPriorityE ParentRes.kind
      [⟨.baseVariant, [1], []⟩, ⟨.protocol, [], []⟩, ⟨.ecuSharedData, [], []⟩, ⟨.baseVariant, [2], []⟩] false).map (·.map fun r => (r.kind, r.excl))
    = .ok [(.protocol, []), (.baseVariant, [1]), (.baseVariant, [2]), (.ecuSharedData, [])] := by decide

end OdxVerif.Inherit
