import OdxVerif.Proofs.Compare
import OdxVerif.Proofs.CompareDb
/-! # C18 — the comparison and listing tools report the true differences and counts
    Property theorems only; lemmas live in `Proofs/Compare.lean`, `Proofs/CompareDb.lean`.
    `compareLayers new old` models `Comparison.compare_diagnostic_layers(dl1, dl2)` of the *fixed* code
    (`fixes/c18-*.patch`); layers are lists of services of any length. -/
namespace OdxVerif.Compare

/-! ## hypotheses (decidable) -/

/- `distinctNames`, `hasRequests` (every service has a request; the XML loader guarantees it) are defined in
   `Proofs/Compare.lean`. -/

/-- the constant request prefix of `s` does not occur in `l` -/
def prefixAbsent (s : Service) (l : List Service) : Prop := s.pfx ∉ prefixes l
instance (s : Service) (l : List Service) : Decidable (prefixAbsent s l) := by unfold prefixAbsent; infer_instance

/-- constant request prefixes are pairwise distinct within the layer (implies `prefixAbsent` for each member) -/
def distinctPrefixes (l : List Service) : Prop := l.Pairwise (fun a b => a.pfx ≠ b.pfx)
instance (l : List Service) : Decidable (distinctPrefixes l) := by unfold distinctPrefixes; infer_instance

theorem distinctPrefixes_middle {l₁ l₂ : List Service} {s : Service} (h : distinctPrefixes (l₁ ++ s :: l₂)) :
    prefixAbsent s (l₁ ++ l₂) := by
  unfold distinctPrefixes at h
  rw [List.pairwise_append] at h
  obtain ⟨_, h2, h3⟩ := h
  have h2' := List.pairwise_cons.mp h2
  intro hm
  obtain ⟨x, hx, hxp⟩ := List.mem_map.mp hm
  rcases List.mem_append.mp hx with hx | hx
  · exact h3 x hx s (List.mem_cons_self ..) hxp
  · exact h2'.1 x hx hxp.symm

/-! ## concrete witnesses used by the non-vacuity examples and the counterexample theorems -/
namespace Ex
def d8 : DopInfo := ⟨0, "d8", some ⟨0, "km", "km"⟩, some "A_UINT32"⟩
def d16 : DopInfo := ⟨1, "d16", none, some "A_INT32"⟩
def pSid (v : Int) : Param := ⟨"sid", none, some 8, none, "CODED-CONST", .codedConst "A_UINT32" (.int v)⟩
def pX : Param := ⟨"x", some 1, some 8, none, "VALUE", .withDop d8 (.value none)⟩
/-- service `n` (identity `k`): request `sid, x`, one positive response `sid+0x40, x`, one negative `0x7f` -/
def svc (n : String) (k : Nat) (sid : Nat) : Service :=
  ⟨n, some [sid], k, some [pSid sid, pX], [[pSid (sid + 0x40), pX]], [[pSid 0x7f]]⟩
def A := svc "A" 0 0x22
def B := svc "B" 1 0x23
def C := svc "C" 2 0x24
/-- `A` renamed to `A2` -/
def A2 : Service := { A with name := "A2", eqKey := 7 }
/-- a service using the same request prefix as `A` -/
def A' := svc "Ap" 3 0x22
/-- a different service that is also called `A` -/
def Adup : Service := { svc "A" 4 0x25 with pos := [] }
/-- `A` without a request -/
def Anoreq : Service := { A with request := none, pfx := none }
end Ex
open Ex

/-! ## self comparison -/

/-- comparing a layer with itself reports nothing -/
theorem C18_self (l : List Service) (hd : distinctNames l) (hr : hasRequests l) : compareLayers l l = {} :=
  compareLayers_self l hd hr

example : distinctNames [A, B, C] ∧ hasRequests [A, B, C] ∧ compareLayers [A, B, C] [A, B, C] = {} := by decide

/-- `distinctNames` is needed: two different services of the same name are reported as changed -/
theorem C18_self_needs_distinctNames :
    ∃ l, hasRequests l ∧ ¬ distinctNames l ∧ compareLayers l l ≠ {} := ⟨[A, Adup], by decide⟩

/-- `hasRequests` is needed: a service without a request is reported as changed against itself -/
theorem C18_self_needs_hasRequests :
    ∃ l, distinctNames l ∧ ¬ hasRequests l ∧ compareLayers l l ≠ {} := ⟨[Anoreq], by decide⟩

/-! ## one service added -/

/-- the new layer has one more service `s` (anywhere), with a request prefix the old layer does not use:
    exactly `s` is reported, as new, and nothing else -/
theorem C18_add (l₁ l₂ : List Service) (s : Service)
    (hd : distinctNames (l₁ ++ s :: l₂)) (hr : hasRequests (l₁ ++ s :: l₂))
    (hp : prefixAbsent s (l₁ ++ l₂)) :
    compareLayers (l₁ ++ s :: l₂) (l₁ ++ l₂) = { new := [s] } := by
  obtain ⟨hd2, hne⟩ := distinctNames_middle hd
  have hquiet : ∀ x ∈ l₁ ++ l₂, ∀ a, outerStep (l₁ ++ l₂) a x = a := fun x hx a =>
    outerStep_mem hd2 hx (hr x (mem_middle hx)) a
  have hname : s.name ∉ names (l₁ ++ l₂) := not_mem_names.mpr hne
  have hany : (l₁ ++ l₂).any (s.pyEq ·) = false := by
    rw [List.any_eq_false]
    intro x hx he
    exact hne x hx (pyEq_name he).symm
  have hfind : (l₁ ++ l₂).find? (fun s2 => s2.pfx = s.pfx) = none := by
    rw [List.find?_eq_none]
    intro x hx he
    exact hp (List.mem_map.mpr ⟨x, hx, by simpa using he⟩)
  have hs : outerStep (l₁ ++ l₂) {} s = { new := [s] } := by
    unfold outerStep
    have hp' : s.pfx ∉ prefixes (l₁ ++ l₂) := hp
    simp only [hany, hname, hp', hfind]
    simp only [Bool.false_eq_true, not_false_eq_true, or_true, and_self, if_true, true_and]
    have hin : ∀ acc, (l₁ ++ l₂).foldl (innerStep s) acc = acc := fun acc =>
      inner_noop s _ acc (fun s2 hs2 hn => absurd hn.symm (hne s2 hs2))
    split <;> simp [hin]
  unfold compareLayers
  rw [foldl_middle _ _ _ _ _ hquiet, hs]
  apply foldl_noop
  intro x hx a
  exact deletedStep_noop (mem_names (mem_middle hx)) a

example : distinctNames ([A] ++ C :: [B]) ∧ hasRequests ([A] ++ C :: [B]) ∧ prefixAbsent C ([A] ++ [B]) ∧
    compareLayers [A, C, B] [A, B] = { new := [C] } := by decide

/-- `prefixAbsent` is needed: a new service sharing the constant prefix of an old one is reported as a rename -/
theorem C18_add_needs_prefixAbsent :
    ∃ l₁ s l₂, distinctNames (l₁ ++ s :: l₂) ∧ hasRequests (l₁ ++ s :: l₂) ∧ ¬ prefixAbsent s (l₁ ++ l₂) ∧
      compareLayers (l₁ ++ s :: l₂) (l₁ ++ l₂) ≠ { new := [s] } := ⟨[A], A', [B], by decide⟩

/-- `distinctNames` is needed: a second service of an existing name is also reported under parameter changes -/
theorem C18_add_needs_distinctNames :
    ∃ l₁ s l₂, ¬ distinctNames (l₁ ++ s :: l₂) ∧ hasRequests (l₁ ++ s :: l₂) ∧ prefixAbsent s (l₁ ++ l₂) ∧
      compareLayers (l₁ ++ s :: l₂) (l₁ ++ l₂) ≠ { new := [s] } := ⟨[A], Adup, [B], by decide⟩

/-! ## one service deleted -/

/-- the new layer lacks one service `s` of the old one, and no remaining service uses its request prefix:
    exactly `s` is reported, as deleted, and nothing else (also when the new layer is empty) -/
theorem C18_delete (l₁ l₂ : List Service) (s : Service)
    (hd : distinctNames (l₁ ++ s :: l₂)) (hr : hasRequests (l₁ ++ s :: l₂))
    (hp : prefixAbsent s (l₁ ++ l₂)) :
    compareLayers (l₁ ++ l₂) (l₁ ++ s :: l₂) = { deleted := [s] } := by
  obtain ⟨_, hne⟩ := distinctNames_middle hd
  have hmem : ∀ x ∈ l₁ ++ l₂, x ∈ l₁ ++ s :: l₂ := fun x hx => mem_middle hx
  unfold compareLayers
  rw [foldl_noop (outerStep _) (l₁ ++ l₂) {} (fun x hx a => outerStep_mem hd (hmem x hx) (hr x (hmem x hx)) a)]
  rw [foldl_middle _ _ _ _ _ (fun x hx a => deletedStep_noop (mem_names hx) a)]
  have hname : s.name ∉ names (l₁ ++ l₂) := not_mem_names.mpr hne
  have hp' : s.pfx ∉ prefixes (l₁ ++ l₂) := hp
  simp [deletedStep, hname, hp']

example : distinctNames ([A] ++ C :: [B]) ∧ hasRequests ([A] ++ C :: [B]) ∧ prefixAbsent C ([A] ++ [B]) ∧
    compareLayers [A, B] [A, C, B] = { deleted := [C] } := by decide

/-- also the only service of a layer (the pinned commit reports nothing here, see below) -/
example : compareLayers [] [A] = { deleted := [A] } := by decide

/-- `prefixAbsent` is needed: a deleted service whose constant prefix is still in use is not reported -/
theorem C18_delete_needs_prefixAbsent :
    ∃ l₁ s l₂, distinctNames (l₁ ++ s :: l₂) ∧ hasRequests (l₁ ++ s :: l₂) ∧ ¬ prefixAbsent s (l₁ ++ l₂) ∧
      compareLayers (l₁ ++ l₂) (l₁ ++ s :: l₂) ≠ { deleted := [s] } := ⟨[A], A', [B], by decide⟩

/-! ## one service renamed -/

/-- `s'` is `s` under a new name: same request prefix, same parameters (any identity) -/
def Renamed (s s' : Service) : Prop :=
  s'.pfx = s.pfx ∧ s'.request = s.request ∧ s'.pos = s.pos ∧ s'.neg = s.neg
instance (s s' : Service) : Decidable (Renamed s s') := by unfold Renamed; infer_instance

/-- service `s` of the old layer appears in the new layer under a name the old layer does not use, with
    the same constant request prefix (which no other old service shares) and the same content:
    exactly one rename entry (new service, old name) and nothing else -/
theorem C18_rename (l₁ l₂ : List Service) (s s' : Service)
    (hd : distinctNames (l₁ ++ s :: l₂)) (hr : hasRequests (l₁ ++ s :: l₂))
    (hnew : s'.name ∉ names (l₁ ++ s :: l₂))
    (hren : Renamed s s') (hpfx : s.pfx ≠ none) (hp : prefixAbsent s (l₁ ++ l₂)) :
    compareLayers (l₁ ++ s' :: l₂) (l₁ ++ s :: l₂) = { renamed := [(s', s.name)] } := by
  obtain ⟨hd2, hne⟩ := distinctNames_middle hd
  obtain ⟨hp1, hq1, hq2, hq3⟩ := hren
  have hmem : ∀ x ∈ l₁ ++ l₂, x ∈ l₁ ++ s :: l₂ := fun x hx => mem_middle hx
  have hsmem : s ∈ l₁ ++ s :: l₂ := by simp
  have hquiet : ∀ x ∈ l₁ ++ l₂, ∀ a, outerStep (l₁ ++ s :: l₂) a x = a := fun x hx a =>
    outerStep_mem hd (hmem x hx) (hr x (hmem x hx)) a
  have hnew' := not_mem_names.mp hnew
  have hany : (l₁ ++ s :: l₂).any (s'.pyEq ·) = false := by
    rw [List.any_eq_false]
    intro x hx he
    exact hnew' x hx (pyEq_name he).symm
  have hpin : s'.pfx ∈ prefixes (l₁ ++ s :: l₂) := hp1 ▸ mem_prefixes hsmem
  have hfind : (l₁ ++ s :: l₂).find? (fun s2 => s2.pfx = s'.pfx) = some s := by
    rw [List.find?_append]
    have h1 : l₁.find? (fun s2 => decide (s2.pfx = s'.pfx)) = none := by
      rw [List.find?_eq_none]
      intro x hx he
      exact hp (List.mem_map.mpr ⟨x, List.mem_append_left _ hx, by rw [hp1] at he; simpa using he⟩)
    rw [h1]
    simp [hp1]
  have hcs : compareServices s' s = [] :=
    compareServices_same_content s' s hq1 (hr s hsmem) hq2 hq3
  have hs : outerStep (l₁ ++ s :: l₂) {} s' = { renamed := [(s', s.name)] } := by
    unfold outerStep
    have hpn : s'.pfx ≠ none := hp1 ▸ hpfx
    simp only [hany, hnew, hpin, hpn, hfind]
    have hin : ∀ acc, (l₁ ++ s :: l₂).foldl (innerStep s') acc = acc := fun acc =>
      inner_noop s' _ acc (fun s2 hs2 hn => absurd hn.symm (hnew' s2 hs2))
    simp [hin, addChanged, hcs, hpn]
  unfold compareLayers
  rw [foldl_middle _ _ _ _ _ hquiet, hs]
  -- deleted loop: the others are still there by name; `s` is gone by name but its prefix is still in use
  have hdel_s : ∀ a, deletedStep (l₁ ++ s' :: l₂) a s = a := by
    intro a
    have : s.pfx ∈ prefixes (l₁ ++ s' :: l₂) := hp1 ▸ mem_prefixes (by simp)
    simp [deletedStep, this]
  rw [List.foldl_append, List.foldl_cons,
    foldl_noop _ l₁ _ (fun x hx a => deletedStep_noop (mem_names (by simp [hx])) a), hdel_s,
    foldl_noop _ l₂ _ (fun x hx a => deletedStep_noop (mem_names (by simp [hx])) a)]

example : distinctNames ([B] ++ A :: [C]) ∧ hasRequests ([B] ++ A :: [C]) ∧ A2.name ∉ names ([B] ++ A :: [C]) ∧
    Renamed A A2 ∧ A.pfx ≠ none ∧ prefixAbsent A ([B] ++ [C]) ∧
    compareLayers [B, A2, C] [B, A, C] = { renamed := [(A2, "A")] } := by decide

/-- `prefixAbsent` is needed: with a shared prefix the rename is attributed to the wrong old service -/
theorem C18_rename_needs_prefixAbsent :
    ∃ l₁ s s' l₂, distinctNames (l₁ ++ s :: l₂) ∧ hasRequests (l₁ ++ s :: l₂) ∧ s'.name ∉ names (l₁ ++ s :: l₂) ∧
      Renamed s s' ∧ s.pfx ≠ none ∧ ¬ prefixAbsent s (l₁ ++ l₂) ∧
      compareLayers (l₁ ++ s' :: l₂) (l₁ ++ s :: l₂) ≠ { renamed := [(s', s.name)] } :=
  ⟨[A'], A, A2, [B], by decide⟩

/-- a constant prefix is needed: a renamed service without one is reported as new -/
theorem C18_rename_needs_prefix :
    ∃ l₁ s s' l₂, distinctNames (l₁ ++ s :: l₂) ∧ s'.name ∉ names (l₁ ++ s :: l₂) ∧
      Renamed s s' ∧ s.pfx = none ∧ prefixAbsent s (l₁ ++ l₂) ∧
      compareLayers (l₁ ++ s' :: l₂) (l₁ ++ s :: l₂) ≠ { renamed := [(s', s.name)] } :=
  ⟨[B], Anoreq, { Anoreq with name := "A2" }, [], by decide⟩

/-- the new name must be new: "renaming" `A` to the name of another old service is a parameter change of that one -/
theorem C18_rename_needs_newName :
    ∃ l₁ s s' l₂, distinctNames (l₁ ++ s :: l₂) ∧ hasRequests (l₁ ++ s :: l₂) ∧ ¬ s'.name ∉ names (l₁ ++ s :: l₂) ∧
      Renamed s s' ∧ s.pfx ≠ none ∧ prefixAbsent s (l₁ ++ l₂) ∧
      compareLayers (l₁ ++ s' :: l₂) (l₁ ++ s :: l₂) ≠ { renamed := [(s', s.name)] } :=
  ⟨[B], A, { A with name := "B" }, [], by decide⟩

/-! ## one attribute of one parameter changed -/

/-- service `s'` of the new layer is `s` with one attribute (byte position, bit length, coded value,
    semantic, data type or linked DOP — `e`) of one parameter `p` (of the request, a positive or a negative
    response — `k`) changed: exactly that service is reported, under "parameter changes" only, with exactly
    one table, for exactly that parameter, listing exactly the rows `e.expected p` -/
theorem C18_param_change (l₁ l₂ : List Service) (s s' : Service) (p : Param) (e : AttrEdit) (k : EntryKind)
    (hd : distinctNames (l₁ ++ s :: l₂)) (hr : hasRequests (l₁ ++ s :: l₂))
    (hedit : ParamEdit p (e.apply p) s s' k) (hch : e.changes p = true) :
    compareLayers (l₁ ++ s' :: l₂) (l₁ ++ s :: l₂) = { changed := [(s', [⟨k, p.name, e.expected p⟩])] } := by
  obtain ⟨hd2, hne⟩ := distinctNames_middle hd
  obtain ⟨hn, hk, _⟩ := hedit.name_eq
  have hmem : ∀ x ∈ l₁ ++ l₂, x ∈ l₁ ++ s :: l₂ := fun x hx => mem_middle hx
  have hsmem : s ∈ l₁ ++ s :: l₂ := by simp
  have hquiet : ∀ x ∈ l₁ ++ l₂, ∀ a, outerStep (l₁ ++ s :: l₂) a x = a := fun x hx a =>
    outerStep_mem hd (hmem x hx) (hr x (hmem x hx)) a
  have hany : (l₁ ++ s :: l₂).any (s'.pyEq ·) = true :=
    List.any_eq_true.mpr ⟨s, hsmem, by simp [Service.pyEq, hn, hk]⟩
  have hname : s'.name ∈ names (l₁ ++ s :: l₂) := hn ▸ mem_names hsmem
  have hcs : compareServices s' s = [⟨k, p.name, e.expected p⟩] := by
    rw [compareServices_paramEdit hedit, compareParams_edit e p hch, if_pos (expected_ne_nil e p hch)]
  have hs : outerStep (l₁ ++ s :: l₂) {} s' = { changed := [(s', [⟨k, p.name, e.expected p⟩])] } := by
    unfold outerStep
    simp only [hany, hname, not_true_eq_false, false_and, if_false]
    rw [foldl_middle]
    · simp [innerStep, hn, addChanged, hcs]
    · intro y hy a
      have : s'.name ≠ y.name := fun h => hne y hy (h.symm.trans hn)
      simp [innerStep, this]
  unfold compareLayers
  rw [foldl_middle _ _ _ _ _ hquiet, hs]
  apply foldl_noop
  intro x hx a
  apply deletedStep_noop
  rcases List.mem_append.mp hx with hx | hx
  · exact mem_names (by simp [hx])
  · rcases List.mem_cons.mp hx with rfl | hx
    · rw [← hn]; exact mem_names (by simp)
    · exact mem_names (by simp [hx])

/-- … and the rows are non-empty and mention only the attribute that was edited (for a re-linked DOP:
    the DOP-related properties, and the bit length when the new DOP's differs) -/
theorem C18_param_change_rows (e : AttrEdit) (p : Param) (hch : e.changes p = true) :
    e.expected p ≠ [] ∧ (∀ r ∈ e.expected p, r.attr ∈ e.attrs) ∧
    (e.isRelink = false → ∃ r, e.expected p = [r]) := by
  refine ⟨expected_ne_nil e p hch, expected_attrs e p, ?_⟩
  intro hrl
  cases e with
  | bytePos b => exact ⟨_, rfl⟩
  | bitLen b => exact ⟨_, rfl⟩
  | semantic s => exact ⟨_, rfl⟩
  | codedValue v =>
    cases hk : p.kind <;> simp [AttrEdit.changes, hk] at hch
    obtain ⟨o, n, hv⟩ := valueRows_ne .value hch p.bitLen p.bitLen
    exact ⟨⟨.value, o, n⟩, by simp [AttrEdit.expected, hk, hv]⟩
  | dataType t =>
    cases hk : p.kind <;> simp [AttrEdit.changes, hk] at hch <;> simp [AttrEdit.expected, hk]
  | linkedDop d' bl' => simp [AttrEdit.isRelink] at hrl

/-- every kind of edit, on the request, a positive and a negative response -/
example : ParamEdit pX ((AttrEdit.bytePos (some 3)).apply pX) A { A with request := some ([pSid 0x22] ++ (AttrEdit.bytePos (some 3)).apply pX :: []) } .req :=
  .req A [pSid 0x22] [] rfl
example : (AttrEdit.bytePos (some 3)).changes pX = true ∧ (AttrEdit.semantic (some "DATA")).changes pX = true ∧
    (AttrEdit.bitLen (some 16)).changes (pSid 0x22) = true ∧ (AttrEdit.codedValue (.int 0x25)).changes (pSid 0x22) = true ∧
    (AttrEdit.dataType "A_INT32").changes (pSid 0x22) = true ∧ (AttrEdit.linkedDop d16 (some 16)).changes pX = true := by decide
example : compareLayers [B, { A with request := some [pSid 0x22, (AttrEdit.bytePos (some 3)).apply pX] }, C] [B, A, C]
    = { changed := [({ A with request := some [pSid 0x22, (AttrEdit.bytePos (some 3)).apply pX] },
                     [⟨.req, "x", [⟨.bytePosition, "1", "3"⟩]⟩])] } := by decide
example : compareLayers [{ A with request := some [(AttrEdit.codedValue (.int 0x25)).apply (pSid 0x22), pX], pfx := some [0x25] }] [A]
    = { changed := [({ A with request := some [pSid 0x25, pX], pfx := some [0x25] },
                     [⟨.req, "sid", [⟨.value, "0x22", "0x25"⟩]⟩])] } := by decide +kernel
example : compareLayers [{ A with pos := [[pSid 0x62, (AttrEdit.linkedDop d16 (some 16)).apply pX]] }] [A]
    = { changed := [({ A with pos := [[pSid 0x62, (AttrEdit.linkedDop d16 (some 16)).apply pX]] },
                     [⟨.pos, "x", [⟨.bitLength, "8", "16"⟩, ⟨.linkedDop, "", ""⟩, ⟨.dopName, "d8", "d16"⟩,
                                   ⟨.dopPhysType, "A_UINT32", "A_INT32"⟩]⟩])] } := by decide +kernel
example : compareLayers [{ A with neg := [[(AttrEdit.dataType "A_INT32").apply (pSid 0x7f)]] }] [A]
    = { changed := [({ A with neg := [[(AttrEdit.dataType "A_INT32").apply (pSid 0x7f)]] },
                     [⟨.neg, "sid", [⟨.dataType, "A_UINT32", "A_INT32"⟩]⟩])] } := by decide

/-- `distinctNames` is needed: with a second service of the same name the change is reported more than once -/
theorem C18_param_change_needs_distinctNames :
    ∃ l₁ s s' l₂ p e k, ¬ distinctNames (l₁ ++ s :: l₂) ∧ hasRequests (l₁ ++ s :: l₂) ∧
      ParamEdit p (AttrEdit.apply e p) s s' k ∧ e.changes p = true ∧
      compareLayers (l₁ ++ s' :: l₂) (l₁ ++ s :: l₂) ≠ { changed := [(s', [⟨k, p.name, e.expected p⟩])] } :=
  ⟨[Adup], A, _, [], pX, .bytePos (some 3), .req, by decide, by decide, .req A [pSid 0x22] [] rfl, by decide, by decide⟩

/-! ## the pinned commit violates the property (the three defects repaired by `fixes/c18-*.patch`) -/

/-- pinned commit: under exactly the hypotheses of `C18_rename` a renamed service is reported as nothing at all -/
theorem C18_rename_pinned_counterexample :
    ∃ l₁ s s' l₂, distinctNames (l₁ ++ s :: l₂) ∧ hasRequests (l₁ ++ s :: l₂) ∧ s'.name ∉ names (l₁ ++ s :: l₂) ∧
      Renamed s s' ∧ s.pfx ≠ none ∧ prefixAbsent s (l₁ ++ l₂) ∧
      compareLayersPinned (l₁ ++ s' :: l₂) (l₁ ++ s :: l₂) = {} :=
  ⟨[B], A, A2, [C], by decide⟩

/-- pinned commit: deleting the only service of a layer is reported as nothing -/
theorem C18_delete_pinned_counterexample :
    ∃ l₁ s l₂, distinctNames (l₁ ++ s :: l₂) ∧ hasRequests (l₁ ++ s :: l₂) ∧ prefixAbsent s (l₁ ++ l₂) ∧
      compareLayersPinned (l₁ ++ l₂) (l₁ ++ s :: l₂) = {} :=
  ⟨[], A, [], by decide⟩

/-- pinned commit: the communication parameter count is 0 whatever the layer has -/
theorem C18_metrics_pinned_counterexample :
    ∃ l : LayerM, (metricsRowPinned l).nComparams.toNat? ≠ some (l.comparams.getD []).length :=
  ⟨⟨"BV", "BASE-VARIANT", ["A"], ["d8"], some ["CP_a", "CP_b"]⟩, by
    show (toString 0).toNat? ≠ some 2
    rw [toString_toNat?]; decide⟩

/-! ## databases -/

/-- comparing a database with itself: no new layer, no deleted layer, and every per-layer report is empty -/
theorem C18_self_db (db : List LayerD) (sel : List String) (hd : distinctLayerNames db) (hw : wfLayers db) :
    (compareDatabases db db sel).newLayers = [] ∧ (compareDatabases db db sel).deletedLayers = [] ∧
    ∀ kv ∈ (compareDatabases db db sel).layers, kv.2 = {} := by
  obtain ⟨h1, h2, h3⟩ := compareDatabases_sound db db sel (fun l hl => List.mem_map.mpr ⟨l, hl, rfl⟩)
    (fun l hl => List.mem_map.mpr ⟨l, hl, rfl⟩)
  refine ⟨h1, h2, ?_⟩
  intro kv hkv
  obtain ⟨l1, hl1, l2, hl2, hn1, hn2, he⟩ := h3 kv hkv
  have : l1 = l2 := distinctLayerNames_inj hd hl1 hl2 (hn1.trans hn2.symm)
  subst this
  rw [he]
  exact compareLayers_self _ (hw l1 hl1).1 (hw l1 hl1).2

/-- an edit inside one layer `n` of a database (services `x2` → `x1`): the report for `n` is the layer
    comparison of the two versions (to which `C18_add` … `C18_param_change` apply), every other report is
    empty, no layer is new or deleted, and `n` has a report whenever it is selected -/
theorem C18_db_edit (d₁ d₂ : List LayerD) (n : String) (x1 x2 : List Service) (sel : List String)
    (hd : distinctLayerNames (d₁ ++ ⟨n, x2⟩ :: d₂)) (hw : wfLayers (d₁ ++ d₂)) :
    let r := compareDatabases (d₁ ++ ⟨n, x1⟩ :: d₂) (d₁ ++ ⟨n, x2⟩ :: d₂) sel
    r.newLayers = [] ∧ r.deletedLayers = [] ∧
    (∀ kv ∈ r.layers, (kv.1 = n → kv.2 = compareLayers x1 x2) ∧ (kv.1 ≠ n → kv.2 = {})) ∧
    (n ∈ sel → n ∈ r.layers.map (·.1)) := by
  intro r
  have hnames : (d₁ ++ ⟨n, x1⟩ :: d₂).map (·.name) = (d₁ ++ ⟨n, x2⟩ :: d₂).map (·.name) := by simp
  have hd' : distinctLayerNames (d₁ ++ ⟨n, x1⟩ :: d₂) := by
    unfold distinctLayerNames at hd ⊢
    have e : ∀ l : List LayerD, l.Pairwise (fun a b => a.name ≠ b.name) ↔ (l.map (·.name)).Pairwise (· ≠ ·) :=
      fun l => by rw [List.pairwise_map]
    rw [e] at hd ⊢
    rw [hnames]; exact hd
  obtain ⟨h1, h2, h3⟩ := compareDatabases_sound (d₁ ++ ⟨n, x1⟩ :: d₂) (d₁ ++ ⟨n, x2⟩ :: d₂) sel
    (fun l hl => hnames ▸ List.mem_map.mpr ⟨l, hl, rfl⟩) (fun l hl => hnames ▸ List.mem_map.mpr ⟨l, hl, rfl⟩)
  refine ⟨h1, h2, ?_, ?_⟩
  · intro kv hkv
    obtain ⟨l1, hl1, l2, hl2, hn1, hn2, he⟩ := h3 kv hkv
    have hm1 : (⟨n, x1⟩ : LayerD) ∈ d₁ ++ ⟨n, x1⟩ :: d₂ := by simp
    have hm2 : (⟨n, x2⟩ : LayerD) ∈ d₁ ++ ⟨n, x2⟩ :: d₂ := by simp
    constructor
    · intro hk
      have e1 : l1 = ⟨n, x1⟩ := distinctLayerNames_inj hd' hl1 hm1 (hn1.trans hk)
      have e2 : l2 = ⟨n, x2⟩ := distinctLayerNames_inj hd hl2 hm2 (hn2.trans hk)
      rw [he, e1, e2]
    · intro hk
      have hl1' : l1 ∈ d₁ ++ d₂ := by
        simp only [List.mem_append, List.mem_cons] at hl1 ⊢
        rcases hl1 with h | h | h
        · exact Or.inl h
        · exact absurd (by rw [← hn1, h]) hk
        · exact Or.inr h
      have hl2' : l2 ∈ d₁ ++ d₂ := by
        simp only [List.mem_append, List.mem_cons] at hl2 ⊢
        rcases hl2 with h | h | h
        · exact Or.inl h
        · exact absurd (by rw [← hn2, h]) hk
        · exact Or.inr h
      have : l1 = l2 := distinctLayerNames_inj hd (mem_middle hl1') hl2 (hn1.trans hn2.symm)
      subst this
      rw [he]
      exact compareLayers_self _ (hw l1 hl1').1 (hw l1 hl1').2
  · intro hs
    exact compareDatabases_complete _ _ sel (l1 := ⟨n, x1⟩) (l2 := ⟨n, x2⟩) (by simp) (by simp) rfl hs

/-! ## metrics: the overview table -/

/-- the overview row of a layer shows its name and type and the actual numbers of services, data object
    properties and communication parameters (as decimal numerals) -/
theorem C18_metrics (l : LayerM) :
    (metricsRow l).name = l.name ∧ (metricsRow l).vtype = l.vtype ∧
    (metricsRow l).nServices.toNat? = some l.services.length ∧
    (metricsRow l).nDops.toNat? = some l.dops.length ∧
    (metricsRow l).nComparams.toNat? = some (l.comparams.getD []).length ∧
    (metrics [l] = [metricsRow l]) :=
  ⟨rfl, rfl, toString_toNat? _, toString_toNat? _, toString_toNat? _, rfl⟩

/-- one row per layer, in order -/
theorem C18_metrics_rows (ls : List LayerM) : (metrics ls).map (·.name) = ls.map (·.name) := by
  simp [metrics, metricsRow]

example : metrics [⟨"BV", "BASE-VARIANT", ["A", "B"], ["d8", "d16", "d32"], some ["CP_a"]⟩, ⟨"ESD", "ECU-SHARED-DATA", [], ["d8"], none⟩]
    = [⟨"BV", "BASE-VARIANT", "2", "3", "1"⟩, ⟨"ESD", "ECU-SHARED-DATA", "0", "1", "0"⟩] := by decide +kernel

end OdxVerif.Compare
