import OdxVerif.Proofs.DecodeErrs
import OdxVerif.Proofs.Truncated
/-! # C05 — decoding arbitrary bytes is total: it returns or raises a decode error
    *Totality*: `decodeMessage` is a total Lean function (`Except Err (PVal × Nat)`), so in the model
    every byte string yields a result or an error — the Python `while` loops are modelled with fuel; a loop
    that would not terminate (an end-of-PDU / end-marker field over an item that consumes no byte) ends in
    `Err.unmodelled`, which the driver reports as `(unsupported)` and the harness's 5-second guard turns
    into a failing input on the real code.
    *Error classes* (theorem below): no foreign exception, for every description, message and mode.
    *No invention* (atomic tier): a value is only ever produced from bytes that exist. -/
namespace OdxVerif.Codec
open OdxVerif.OdxM OdxVerif.Bits

/-- **Only library errors escape the decoder** — for *every* description the model covers, *every* byte
    string, strict and lenient mode alike: the error is `DecodeError`/`DecodeMismatch`, or a plain `OdxError`
    (raised only by the `odxraise`/`odxassert` calls that reject an ill-formed *description*: a bit position
    on a field, an illegal encoding, a float of the wrong width, a missing length key), or the model gave up. -/
theorem C05_error_classes (bs : Option Nat) (ps : List Param) (msg : Bytes) (strict : Bool) (e : Err)
    (h : decodeMessage bs ps msg strict = .error e) : DecErr e := by
  unfold decodeMessage at h
  have hs := (errs_decode_all modelFuel).1 (.struct bs ps)
  unfold ErrsIn at hs
  cases hm : decodeDop modelFuel (.struct bs ps) { msg := msg } strict with
  | ok p => rw [hm] at h; cases h
  | error x =>
    obtain ⟨e0, s0⟩ := x
    rw [hm] at h
    simp only [Except.error.injEq] at h
    rw [← h]
    exact hs _ _ _ _ hm

theorem C05_never_foreign (bs : Option Nat) (ps : List Param) (msg : Bytes) (strict : Bool) :
    decodeMessage bs ps msg strict ≠ .error .foreign := by
  intro h
  have := C05_error_classes bs ps msg strict .foreign h
  simp [DecErr] at this

/-- **No invented values (atomic tier).** If `extract_atomic_value` returns, the object's
    ⌈(bl+bp)/8⌉ bytes all lie inside the message and the cursor ends right behind them: a PDU that ends
    before the object is rejected (`DecodeError "Expected a longer message."`), never completed. -/
theorem C05_no_invention (bl : Nat) (bt : BaseType) (enc : Option Enc) (hl : Bool) (d : DecState) (st : Bool)
    (v : IVal) (d' : DecState) (h : extractCore bl bt enc hl d st = .ok (v, d')) :
    d.cursorByte + (bl + d.cursorBit + 7) / 8 ≤ d.msg.length := by
  unfold extractCore at h
  simp only [bind, run_bind, run_getS] at h
  by_cases hlen : d.cursorByte + (bl + d.cursorBit + 7) / 8 > d.msg.length
  · simp [hlen, run_ite, run_raise] at h
  · omega

/-- and a truncated message is rejected with the decode error, whatever the type -/
theorem C05_truncated_rejected (bl : Nat) (bt : BaseType) (enc : Option Enc) (hl : Bool) (d : DecState) (st : Bool)
    (hshort : d.cursorByte + (bl + d.cursorBit + 7) / 8 > d.msg.length) :
    extractCore bl bt enc hl d st = .error (.decode, d) := by
  unfold extractCore
  simp [bind, run_bind, run_getS, hshort, run_ite, run_raise]

/-- **Truncated PDUs are rejected, struct tier (API level of the model).** For every nested description with VALUE /
    CODED-CONST leaves over the leaf kinds of `Proofs/FlatStep.lean`: `(Trees.pair ts).fits` says that the bytes of *every*
    leaf — at the position the decoder reaches it — lie inside the message, and (string leaves with a multi-byte encoding)
    are well-formed text. If they are not, `Request.decode` raises `DecodeError`;
    if `Request.decode` returns, they are (`C05_no_invention_struct`): no value is ever produced from bytes that are
    not there. `Trees.strictDec ts` = no `A_FLOAT32` leaf (trivially true for the integer / float64 / byte / string kinds):
    the model does not follow binary32 NaN / subnormal patterns, so a description with such a leaf in front of the missing
    bytes is only covered by `C05_unfit_rejected_struct` (rejected, error class not determined by the model). -/
theorem C05_truncated_rejected_struct (ts : List Tree) (hneed : Trees.need ts + 2 ≤ modelFuel) (hok : Trees.okAll ts)
    (msg : Bytes) (hshort : ¬ (Trees.pair ts).fits { msg := msg }) (hs : Trees.strictDec ts) :
    decodeMessage none (Trees.toParams ts) msg true = .error .decode :=
  decodeMessage_tree_short ts hneed hok msg hshort hs

/-- the same for every description of the tier, `A_FLOAT32` leaves included: `Request.decode` does not return -/
theorem C05_unfit_rejected_struct (ts : List Tree) (hneed : Trees.need ts + 2 ≤ modelFuel) (hok : Trees.okAll ts)
    (msg : Bytes) (hshort : ¬ (Trees.pair ts).fits { msg := msg }) :
    ∃ e, decodeMessage none (Trees.toParams ts) msg true = .error e ∧ (Trees.strictDec ts → e = .decode) :=
  decodeMessage_tree_unfit ts hneed hok msg hshort

theorem C05_no_invention_struct (ts : List Tree) (hneed : Trees.need ts + 2 ≤ modelFuel) (hok : Trees.okAll ts)
    (msg : Bytes) (v : PVal) (c : Nat) (h : decodeMessage none (Trees.toParams ts) msg true = .ok (v, c)) :
    (Trees.pair ts).fits { msg := msg } := by
  apply Classical.byContradiction
  intro hd
  obtain ⟨e, he, _⟩ := decodeMessage_tree_unfit ts hneed hok msg hd
  rw [he] at h
  cases h

/-! non-vacuity: a 2-byte message for a 3-byte description is rejected with a decode error; random bytes
    for a string parameter give a decode error, not a foreign one -/
def isDecodeError : Except Err (PVal × Nat) → Bool
  | .error .decode => true
  | _ => false
example : isDecodeError (decodeMessage none
    [.mk "x" none none (.value (.simple (.std .uint32 none true 24 none false) .uint32 .identical) none)] [1, 2] true) = true := by decide
example : isDecodeError (decodeMessage none
    [.mk "s" none none (.value (.simple (.std .utf8 none true 16 none false) .utf8 .identical) none)] [0xff, 0xfe] true) = true := by decide

end OdxVerif.Codec
