import OdxVerif.Props.C01Nested
import OdxVerif.Proofs.CompExtCursor
/-! # C01, nested tier, extension W11 — "consumes the whole PDU", BYTE-SIZE structures, leaves of input-dependent size at any
    depth, MATCHING-REQUEST-PARAM, DYNAMIC-ENDMARKER-FIELD.  (Separate file; imported nowhere.) -/
namespace OdxVerif.Codec
open OdxVerif.Bits OdxVerif.OdxM

/-! ## 1. "decoding consumes the whole PDU" -/

/- Full statement wanted by C01: `decodeMessage ps pdu true = .ok (complete ps v trig, pdu.length)`.
   That is FALSE in general for the cursor `decodeMessage` returns (= odxtools' `decode_state.cursor_byte_position` after
   `Request.decode`): parameters with an explicit BYTE-POSITION may be listed out of wire order, and the cursor stays behind the
   LAST LISTED parameter (`[a @ byte 1, b @ byte 0]` → PDU of 2 bytes, final cursor 1; `exOutOfOrder` below).  The harness
   therefore checks "the highest cursor position reached equals len(PDU)" (`harness/props/c01.py: ASSUMPTIONS`).
   Proved here for every described request/response:
   * the cursor returned is exactly the ENCODER's final cursor `Comps.cur gs 0 0` — a function of the description and the
     values alone (no PDU, no state): decoder and encoder walk the same positions;
   * hence it is `pdu.length` iff `Comps.cur gs 0 0 = pdu.length` ("the last listed parameter ends last"), which holds by
     `hend` whenever a parameter needs the end of the PDU, and is decidable by evaluation otherwise.
   Not proved: that the PDU is never longer than the highest position the encoder's cursor reaches at ANY nesting depth (the
   model's decoder does not record the running maximum; it would need an extent function per component next to `Comp.cur`). -/

/-- **C01, nested tier, with the cursor.**  Hypotheses as in `C01_roundtrip_nested` (`hend` restated with `Comps.cur`, the
    evaluable form of the pure encoder's cursor).  Strict `decode` of the PDU returns the complete dictionary AND the cursor
    `Comps.cur gs 0 0`: the position behind the last listed parameter, where the encoder stopped. -/
theorem C01_roundtrip_nested_consumes (gs : List Comp) (hd : ∀ g ∈ gs, Described g) (hneed : Comps.need gs + 2 ≤ modelFuel)
    (hn : Comps.namesOk gs) (hlast : Comps.eopLast gs) (trig : Option Bytes) (pdu : Bytes)
    (hend : Comps.anyEop gs = true → Comps.cur gs 0 0 = pdu.length)
    (henc : encodeMessage none (Comps.toParams gs) (.dict (Comps.values gs)) trig true = .ok (pdu, 0)) :
    decodeMessage none (Comps.toParams gs) pdu true = .ok (.dict (Comps.pair gs).val, Comps.cur gs 0 0) :=
  comps_roundtrip_msg_cur gs hneed (Comps.okAll_of_forall gs (fun g hg => (hd g hg).ok.1))
    (Comps.endOkAll_of_forall gs (fun g hg => (hd g hg).ok.2)) hlast hn trig pdu hend henc

/-- … **consumes the whole PDU** when the last listed parameter ends where the PDU ends (`hwire`; implies `hend`). -/
theorem C01_roundtrip_nested_whole (gs : List Comp) (hd : ∀ g ∈ gs, Described g) (hneed : Comps.need gs + 2 ≤ modelFuel)
    (hn : Comps.namesOk gs) (hlast : Comps.eopLast gs) (trig : Option Bytes) (pdu : Bytes)
    (hwire : Comps.cur gs 0 0 = pdu.length)
    (henc : encodeMessage none (Comps.toParams gs) (.dict (Comps.values gs)) trig true = .ok (pdu, 0)) :
    decodeMessage none (Comps.toParams gs) pdu true = .ok (.dict (Comps.pair gs).val, pdu.length) := by
  have h := C01_roundtrip_nested_consumes gs hd hneed hn hlast trig pdu (fun _ => hwire) henc
  rw [hwire] at h
  exact h

/-- non-vacuity: the 25-byte example of `Props/C01Nested.lean` is consumed completely -/
example : decodeMessage none (Comps.toParams exNested)
    [0x2E, 0x07, 0x55, 0x01, 0x02, 0x09, 0x00, 0x02, 0x08, 0x12, 0x34, 0x02, 0xA1, 0x01, 0x02, 0xA2, 0x03, 0x04, 0x99,
     0x01, 0xFF, 0xFE, 0x02, 0x01, 0x2C] true = .ok (.dict (Comps.pair exNested).val, 25) :=
  C01_roundtrip_nested_whole exNested exNested_described (by decide) exNested_names.1 exNested_names.2 none _
    (by decide +kernel) (Except.eq_ok_of_toOption (by decide +kernel))

/-- the excluded point: `[a @ byte 1, b @ byte 0]` — round trip fine, 2-byte PDU, but the final cursor is 1 (behind `b`) -/
def exOutOfOrder : List Comp :=
  [Comp.ofObjValue ⟨"a", some 1, none, none, true, 8, .uint32⟩ (.int 0xAA),
   Comp.ofObjValue ⟨"b", some 0, none, none, true, 8, .uint32⟩ (.int 0xBB)]
example : (encodeMessage none (Comps.toParams exOutOfOrder) (.dict (Comps.values exOutOfOrder)) none true).toOption
    = some ([0xBB, 0xAA], 0) := by decide +kernel
example : Comps.cur exOutOfOrder 0 0 = 1 := by decide
example : decodeMessage none (Comps.toParams exOutOfOrder) [0xBB, 0xAA] true = .ok (.dict (Comps.pair exOutOfOrder).val, 1) :=
  C01_roundtrip_nested_consumes exOutOfOrder
    (forall_mem2 _ _ (Described.value _ _ (by simp [Obj.ok, Obj.encOk, Obj.sizeOk]) (by simp [Obj.inRange]))
      (Described.value _ _ (by simp [Obj.ok, Obj.encOk, Obj.sizeOk]) (by simp [Obj.inRange])))
    (by decide) (namesOk2 _ _ (by decide)) ⟨rfl, trivial⟩ none _ (fun h => by cases h)
    (Except.eq_ok_of_toOption (by decide +kernel))

end OdxVerif.Codec
