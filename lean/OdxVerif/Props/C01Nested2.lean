import OdxVerif.Props.C01Nested
import OdxVerif.Proofs.CompExtDescribed
/-! # C01, nested tier, extension W11 — "consumes the whole PDU", BYTE-SIZE structures, leaves of input-dependent size at any
    depth, MATCHING-REQUEST-PARAM, DYNAMIC-ENDMARKER-FIELD.  (Separate file; imported nowhere.) -/
namespace OdxVerif.Codec
open OdxVerif.Bits OdxVerif.OdxM

/-! ## 1. "decoding consumes the whole PDU" -/

/- Full statement wanted by C01: `decodeMessage ps pdu true = .ok (complete ps v trig, pdu.length)`.
   That is FALSE in general for the cursor `decodeMessage` returns (= odxtools' `decode_state.cursor_byte_position` after
   `Request.decode`): parameters with an explicit BYTE-POSITION may be listed out of wire order, and the cursor stays behind the
   LAST LISTED parameter (`[a @ byte 1, b @ byte 0]` → PDU of 2 bytes, final cursor 1; `exOutOfOrder` below).  The harness
   therefore checks "the highest cursor position reached equals len(PDU)" (`harness/props/c01.py: ASSUMPTIONS`).
   Proved here for every described request/response:
   * the cursor returned is exactly the ENCODER's final cursor `Comps.cur gs 0 0` — a function of the description and the
     values alone (no PDU, no state): decoder and encoder walk the same positions;
   * hence it is `pdu.length` iff `Comps.cur gs 0 0 = pdu.length` ("the last listed parameter ends last"), which holds by
     `hend` whenever a parameter needs the end of the PDU, and is decidable by evaluation otherwise.
   Not proved: that the PDU is never longer than the highest position the encoder's cursor reaches at ANY nesting depth (the
   model's decoder does not record the running maximum; it would need an extent function per component next to `Comp.cur`). -/

/-- **C01, nested tier, with the cursor.**  Hypotheses as in `C01_roundtrip_nested` (`hend` restated with `Comps.cur`, the
    evaluable form of the pure encoder's cursor).  Strict `decode` of the PDU returns the complete dictionary AND the cursor
    `Comps.cur gs 0 0`: the position behind the last listed parameter, where the encoder stopped. -/
theorem C01_roundtrip_nested_consumes (gs : List Comp) (hd : ∀ g ∈ gs, Described g) (hneed : Comps.need gs + 2 ≤ modelFuel)
    (hn : Comps.namesOk gs) (hlast : Comps.eopLast gs) (trig : Option Bytes) (pdu : Bytes)
    (hend : Comps.anyEop gs = true → Comps.cur gs 0 0 = pdu.length)
    (henc : encodeMessage none (Comps.toParams gs) (.dict (Comps.values gs)) trig true = .ok (pdu, 0)) :
    decodeMessage none (Comps.toParams gs) pdu true = .ok (.dict (Comps.pair gs).val, Comps.cur gs 0 0) :=
  comps_roundtrip_msg_cur gs hneed (Comps.okAll_of_forall gs (fun g hg => (hd g hg).ok.1))
    (Comps.endOkAll_of_forall gs (fun g hg => (hd g hg).ok.2)) hlast hn trig pdu hend henc

/-- … **consumes the whole PDU** when the last listed parameter ends where the PDU ends (`hwire`; implies `hend`). -/
theorem C01_roundtrip_nested_whole (gs : List Comp) (hd : ∀ g ∈ gs, Described g) (hneed : Comps.need gs + 2 ≤ modelFuel)
    (hn : Comps.namesOk gs) (hlast : Comps.eopLast gs) (trig : Option Bytes) (pdu : Bytes)
    (hwire : Comps.cur gs 0 0 = pdu.length)
    (henc : encodeMessage none (Comps.toParams gs) (.dict (Comps.values gs)) trig true = .ok (pdu, 0)) :
    decodeMessage none (Comps.toParams gs) pdu true = .ok (.dict (Comps.pair gs).val, pdu.length) := by
  have h := C01_roundtrip_nested_consumes gs hd hneed hn hlast trig pdu (fun _ => hwire) henc
  rw [hwire] at h
  exact h

/-- non-vacuity: the 25-byte example of `Props/C01Nested.lean` is consumed completely -/
example : decodeMessage none (Comps.toParams exNested)
    [0x2E, 0x07, 0x55, 0x01, 0x02, 0x09, 0x00, 0x02, 0x08, 0x12, 0x34, 0x02, 0xA1, 0x01, 0x02, 0xA2, 0x03, 0x04, 0x99,
     0x01, 0xFF, 0xFE, 0x02, 0x01, 0x2C] true = .ok (.dict (Comps.pair exNested).val, 25) :=
  C01_roundtrip_nested_whole exNested exNested_described (by decide) exNested_names.1 exNested_names.2 none _
    (by decide +kernel) (Except.eq_ok_of_toOption (by decide +kernel))

/-- the excluded point: `[a @ byte 1, b @ byte 0]` — round trip fine, 2-byte PDU, but the final cursor is 1 (behind `b`) -/
def exOutOfOrder : List Comp :=
  [Comp.ofObjValue ⟨"a", some 1, none, none, true, 8, .uint32⟩ (.int 0xAA),
   Comp.ofObjValue ⟨"b", some 0, none, none, true, 8, .uint32⟩ (.int 0xBB)]
example : (encodeMessage none (Comps.toParams exOutOfOrder) (.dict (Comps.values exOutOfOrder)) none true).toOption
    = some ([0xBB, 0xAA], 0) := by decide +kernel
example : Comps.cur exOutOfOrder 0 0 = 1 := by decide
example : decodeMessage none (Comps.toParams exOutOfOrder) [0xBB, 0xAA] true = .ok (.dict (Comps.pair exOutOfOrder).val, 1) :=
  C01_roundtrip_nested_consumes exOutOfOrder
    (forall_mem2 _ _ (Described.value _ _ (by simp [Obj.ok, Obj.encOk, Obj.sizeOk]) (by simp [Obj.inRange]))
      (Described.value _ _ (by simp [Obj.ok, Obj.encOk, Obj.sizeOk]) (by simp [Obj.inRange])))
    (by decide) (namesOk2 _ _ (by decide)) ⟨rfl, trivial⟩ none _ (fun h => by cases h)
    (Except.eq_ok_of_toOption (by decide +kernel))

/-! ## 2.–5. BYTE-SIZE structures, leaves of input-dependent size at any depth, MATCHING-REQUEST-PARAM, DYNAMIC-ENDMARKER-FIELD -/

/- Full statement of C01 (not a theorem, see `Props/C01.lean`):
   ∀ ps v trig pdu, wf ps → canon ps v → encodeMessage ps v trig true = .ok (pdu, 0) →
     decodeMessage ps pdu true = .ok (complete ps v trig, pdu.length)
   Proved here: the instance where every top-level parameter is `DescribedTop trig` (below).  Still missing relative to the full
   statement: LENGTH-KEY / TABLE-KEY parameters, PARAM-LENGTH-INFO-TYPE, RESERVED / NRC-CONST inside `Described2` (components
   in the sense of `C01_roundtrip_nested_pre` only), MATCHING-REQUEST-PARAM below the top level, parameters that need
   `is_end_of_pdu` cleared (terminated MIN-MAX, DYNAMIC-ENDMARKER-FIELD with end marker) in the LAST position of a nested
   structure / multiplexer case / field item (there the enclosing composite decides, and the flag would have to be threaded
   through `DComp`), multiplexer cases with BYTE-SIZE, the other compu methods, and `cursor = pdu.length` without `hwire`. -/

/-- **C01, nested tier, second edition.**  A request (`trig = none`) or a response to the request `trig` whose top-level
    parameters `ms` are `DescribedTop trig`, i.e. MATCHING-REQUEST-PARAMs (1 ≤ BYTE-LENGTH ≤ 8, the request long enough) or
    `Described2` parameters — generated by
    * the leaves of `C01_roundtrip_nested` (VALUE, VALUE with default, CODED-CONST, PHYS-CONST over standard-length objects);
    * VALUE parameters over a **MIN-MAX-LENGTH-TYPE** (terminated: `mid`; of exactly MAX-LENGTH; ended by the end of the PDU)
      or a **LEADING-LENGTH-INFO-TYPE**, with the side conditions of `C01_roundtrip_dynleaves`;
    * VALUE parameters typed by a **STRUCTURE, with or without BYTE-SIZE** (the content ends within the BYTE-SIZE), a
      STATIC-FIELD, DYNAMIC-LENGTH-FIELD, END-OF-PDU-FIELD (items: structures with or without BYTE-SIZE), a MULTIPLEXER, or
      a **DYNAMIC-ENDMARKER-FIELD** (termination object `A_UINT32`, 1–64 bits; no item starts with the termination value:
      `EmLayout.miss`; at the end of the PDU — no end marker —, or elsewhere — end marker written and not consumed: `mid`),
    nested in any order and to any depth.  Side conditions at every level: distinct sibling names; a parameter containing an
    END-OF-PDU object in last position is itself last (`eopLast`; not inside field items or BYTE-SIZE structures); a `mid`
    parameter is NOT last in its structure (`midNotLast`: the enclosing `composite_codec_encode_into_pdu` hands
    `is_end_of_pdu` to the last parameter only).  `hend`: if a parameter needs the end of the PDU, the encoder's final
    cursor `Comps.cur … 0 0` is the length of the PDU.  Then: strict `encode` returns a PDU without overlap warning ⇒ strict
    `decode` returns the complete dictionary AND the cursor `Comps.cur (MComps.cs ms) 0 0`. -/
theorem C01_roundtrip_nested2 (ms : List MComp) (trig : Option Bytes) (hd : ∀ m ∈ ms, DescribedTop trig m.c m.mid)
    (hneed : Comps.need (MComps.cs ms) + 2 ≤ modelFuel) (hn : Comps.namesOk (MComps.cs ms))
    (hlast : Comps.eopLast (MComps.cs ms)) (hmid : MComps.midNotLast ms) (pdu : Bytes)
    (hend : Comps.anyEop (MComps.cs ms) = true → Comps.cur (MComps.cs ms) 0 0 = pdu.length)
    (henc : encodeMessage none (Comps.toParams (MComps.cs ms)) (.dict (Comps.values (MComps.cs ms))) trig true = .ok (pdu, 0)) :
    decodeMessage none (Comps.toParams (MComps.cs ms)) pdu true =
      .ok (.dict (Comps.pair (MComps.cs ms)).val, Comps.cur (MComps.cs ms) 0 0) :=
  mcomps_roundtrip_msg_cur ms trig hneed (MComps.okAll_of_forall _ ms (fun m hm => (hd m hm).ok.1))
    (Comps.endOkAll_of_forall _ (fun g hg => by
      obtain ⟨m, hm, rfl⟩ := MComps.mem_cs hg
      exact (hd m hm).ok.2)) hlast hmid hn pdu hend henc

/-- … **consumes the whole PDU** when the last listed parameter ends where the PDU ends -/
theorem C01_roundtrip_nested2_whole (ms : List MComp) (trig : Option Bytes) (hd : ∀ m ∈ ms, DescribedTop trig m.c m.mid)
    (hneed : Comps.need (MComps.cs ms) + 2 ≤ modelFuel) (hn : Comps.namesOk (MComps.cs ms))
    (hlast : Comps.eopLast (MComps.cs ms)) (hmid : MComps.midNotLast ms) (pdu : Bytes)
    (hwire : Comps.cur (MComps.cs ms) 0 0 = pdu.length)
    (henc : encodeMessage none (Comps.toParams (MComps.cs ms)) (.dict (Comps.values (MComps.cs ms))) trig true = .ok (pdu, 0)) :
    decodeMessage none (Comps.toParams (MComps.cs ms)) pdu true = .ok (.dict (Comps.pair (MComps.cs ms)).val, pdu.length) := by
  have h := C01_roundtrip_nested2 ms trig hd hneed hn hlast hmid pdu (fun _ => hwire) henc
  rw [hwire] at h
  exact h

/-- **a stand-alone STRUCTURE with BYTE-SIZE** (`encodeMessage (some bs)`): the PDU has at least BYTE-SIZE bytes, the decoder
    returns the dictionary and stops exactly BYTE-SIZE bytes behind the first byte.  `hsize`: the content ends within the
    BYTE-SIZE — otherwise the (repaired) encoder raises EncodeError: `C01_bytesize_too_long_rejected`, `C01_bytesize_accepted_fits`
    (fixed finding `byte-size-structure-content-too-long`). -/
theorem C01_roundtrip_bytesize (bs : Nat) (ms : List MComp) (hd : ∀ m ∈ ms, Described2 m.c m.mid)
    (hneed : Comps.need (MComps.cs ms) + 2 ≤ modelFuel) (hn : Comps.namesOk (MComps.cs ms))
    (hno : Comps.anyEop (MComps.cs ms) = false) (hmid : MComps.midNotLast ms) (hsize : Comps.cur (MComps.cs ms) 0 0 ≤ bs)
    (trig : Option Bytes) (pdu : Bytes)
    (henc : encodeMessage (some bs) (Comps.toParams (MComps.cs ms)) (.dict (Comps.values (MComps.cs ms))) trig true = .ok (pdu, 0)) :
    decodeMessage (some bs) (Comps.toParams (MComps.cs ms)) pdu true = .ok (.dict (Comps.pair (MComps.cs ms)).val, bs) := by
  have hok := MComps.okAll_of_forall (fun _ => True) ms (fun m hm => (hd m hm).ok.1 _)
  have hend : Comps.endOkAll (MComps.cs ms) := Comps.endOkAll_of_forall _ (fun g hg => by
    obtain ⟨m, hm, rfl⟩ := MComps.mem_cs hg
    exact (hd m hm).ok.2)
  have hlast := Comps.eopLast_of_noEop _ hno
  have hsz : sizeSide (some bs) (MComps.cs ms) := fun b hb => by cases hb; exact ⟨hsize, hno⟩
  have hcok := DComp.structOM_ok (some bs) ms hok hn hlast hmid hsz
  have hcend := DComp.structOM_endOk (some bs) ms hok hend hlast hsz
  exact (dcomp_roundtrip_msg_cur (DComp.structO (some bs) (MComps.cs ms)) hcok (some bs) _ rfl hneed trig pdu
    (hcend.trivial hno _) henc).1

/-! ### non-vacuity: a positive response to the request `22 F1 90`
    [ sid (CODED-CONST 0x62, omitted);
      echo : MATCHING-REQUEST-PARAM, REQUEST-BYTE-POS 1, BYTE-LENGTH 2;
      hdr  : STRUCTURE with BYTE-SIZE 4 { n };
      st   : STRUCTURE { s : MIN-MAX-LENGTH A_BYTEFIELD 1..4, ZERO (terminated, not last);
                         l : LEADING-LENGTH A_BYTEFIELD, 8-bit prefix;
                         em : DYNAMIC-ENDMARKER-FIELD, termination object u8 = 0xFF, items { id } (end marker written, not consumed);
                         z @ BYTE-POSITION 10 (behind the end marker) };
      tail : DYNAMIC-ENDMARKER-FIELD at the end of the PDU, termination object u8 = 0, items = STRUCTURE BYTE-SIZE 3 { id; v } ] -/
def mc (g : Comp) : MComp := { c := g }
def ex2Trig : Bytes := [0x22, 0xF1, 0x90]
def ex2S : MMLeaf :=
  { name := "s", bytePos := none, bt := .bytefield, enc := none, hl := true, minLen := 1, maxLen := some 4, term := .zero,
    v := .bytes [0xAA, 0xBB], raw := [0xAA, 0xBB] }
def ex2L : LeadLeaf :=
  { name := "l", bytePos := none, bitPos := none, bt := .bytefield, enc := none, hl := true, bitLen := 8,
    v := .bytes [1, 2, 3], raw := [1, 2, 3] }
def ex2Em : EmLayout := { hl := true, bl := 8, tv := 0xFF }
def ex2EmItem (id : Int) : List MComp := [mc (Comp.ofObjValue (ex2Em.named "id") (.int id))]
def ex2EmField : Comp :=
  Comp.ofValue "em" none (DComp.endMarkerMid ex2Em (.struct none (Comps.toParams (MComps.cs (ex2EmItem 0))))
    (itemsO none [ex2EmItem 1, ex2EmItem 2]))
def ex2StKids : List MComp :=
  [{ c := Comp.ofMinMaxMid ex2S, mid := true }, mc (Comp.ofLeading ex2L), { c := ex2EmField, mid := true },
   mc (Comp.ofObjValue ⟨"z", some 10, none, none, true, 8, .uint32⟩ (.int 0x5A))]
def ex2St : Comp := Comp.ofValue "st" none (DComp.structO none (MComps.cs ex2StKids))
def ex2Hdr : Comp := Comp.ofValue "hdr" none (DComp.structO (some 4) (MComps.cs [mc (u8 "n" 7)]))
def ex2Tl : EmLayout := { hl := true, bl := 8, tv := 0 }
def ex2TailItem (id v : Int) : List MComp := [mc (Comp.ofObjValue (ex2Tl.named "id") (.int id)), mc (u8 "v" v)]
def ex2Tail : Comp :=
  Comp.ofValue "tail" none (DComp.endMarkerEop ex2Tl (.struct (some 3) (Comps.toParams (MComps.cs (ex2TailItem 0 0))))
    (itemsO (some 3) [ex2TailItem 1 0x11, ex2TailItem 2 0x22]))
def ex2 : List MComp :=
  [mc (Comp.ofObjConst ⟨"sid", none, none, none, true, 8, .uint32⟩ (.int 0x62) false), mc (Comp.matchingReq "echo" none 1 2 ex2Trig),
   mc ex2Hdr, mc ex2St, mc ex2Tail]

/-- the supplied values (no entry for `sid`, none for `echo`) -/
example : Comps.values (MComps.cs ex2) =
    [("hdr", .dict [("n", .atom (.int 7))]),
     ("st", .dict [("s", .atom (.bytes [0xAA, 0xBB])), ("l", .atom (.bytes [1, 2, 3])),
                   ("em", .list [.dict [("id", .atom (.int 1))], .dict [("id", .atom (.int 2))]]), ("z", .atom (.int 0x5A))]),
     ("tail", .list [.dict [("id", .atom (.int 1)), ("v", .atom (.int 0x11))], .dict [("id", .atom (.int 2)), ("v", .atom (.int 0x22))]])] := rfl
/-- the decoded values: plus the constant and the echo as the little-endian integer 0x90F1 -/
example : (Comps.pair (MComps.cs ex2)).val =
    [("sid", .atom (.int 0x62)), ("echo", .atom (.int 0x90F1)),
     ("hdr", .dict [("n", .atom (.int 7))]),
     ("st", .dict [("s", .atom (.bytes [0xAA, 0xBB])), ("l", .atom (.bytes [1, 2, 3])),
                   ("em", .list [.dict [("id", .atom (.int 1))], .dict [("id", .atom (.int 2))]]), ("z", .atom (.int 0x5A))]),
     ("tail", .list [.dict [("id", .atom (.int 1)), ("v", .atom (.int 0x11))], .dict [("id", .atom (.int 2)), ("v", .atom (.int 0x22))]])] := by
  rfl
/-- the PDU (no overlap warning): sid | echo F1 90 | n + 3 padding bytes | AA BB + terminator 00 | 03 01 02 03 | items 01 02, end
    marker FF | z | two 3-byte items (id, v, padding) -/
def ex2Pdu : Bytes :=
  [0x62, 0xF1, 0x90, 0x07, 0x00, 0x00, 0x00, 0xAA, 0xBB, 0x00, 0x03, 0x01, 0x02, 0x03, 0x01, 0x02, 0xFF, 0x5A,
   0x01, 0x11, 0x00, 0x02, 0x22, 0x00]
example : (encodeMessage none (Comps.toParams (MComps.cs ex2)) (.dict (Comps.values (MComps.cs ex2))) (some ex2Trig) true).toOption
    = some (ex2Pdu, 0) := by decide +kernel
example : ((decodeMessage none (Comps.toParams (MComps.cs ex2)) ex2Pdu true).toOption.map
    fun r => (pvalEq r.1 (.dict (Comps.pair (MComps.cs ex2)).val), r.2)) = some (true, 24) := by decide +kernel
example : Comps.cur (MComps.cs ex2) 0 0 = 24 := by decide +kernel

/-- an unsigned byte object under any name / BYTE-POSITION with a value 0 … 255 is a described leaf -/
theorem described2_byte (n : String) (bp : Option Nat) (v : Int) (h0 : 0 ≤ v) (h1 : v < 256) :
    Described2 (Comp.ofObjValue ⟨n, bp, none, none, true, 8, .uint32⟩ (.int v)) false :=
  Described2.value _ _ (by simp [Obj.ok, Obj.encOk, Obj.sizeOk]) (by simp [Obj.inRange]; omega)

theorem mem1 {α : Type} {P : α → Prop} (a : α) (h : P a) : ∀ x ∈ [a], P x := by
  intro x hx; simp only [List.mem_cons, List.mem_nil_iff, or_false] at hx; subst hx; exact h
theorem mem2 {α : Type} {P : α → Prop} (a b : α) (ha : P a) (hb : P b) : ∀ x ∈ [a, b], P x := by
  intro x hx; simp only [List.mem_cons, List.mem_nil_iff, or_false] at hx; rcases hx with rfl | rfl <;> assumption

theorem ex2Em_ok : ex2Em.ok := ⟨by simp [EmLayout.obj, ex2Em, Obj.ok, Obj.encOk, Obj.sizeOk], by simp [EmLayout.obj, ex2Em, Obj.inRange]⟩
theorem ex2Tl_ok : ex2Tl.ok := ⟨by simp [EmLayout.obj, ex2Tl, Obj.ok, Obj.encOk, Obj.sizeOk], by simp [EmLayout.obj, ex2Tl, Obj.inRange]⟩

/-- the terminated MIN-MAX value: 1 ≤ 2 bytes, no 00 inside, 2 + 1 ≤ MAX-LENGTH 4 -/
theorem ex2S_ok : ex2S.okMid :=
  ⟨⟨⟨allBytes_of_all _ (by decide), Or.inl ⟨rfl, rfl, Or.inl rfl⟩⟩, by decide, fun mx h => by cases h; decide, fun _ => by decide⟩,
    by decide, by decide, by decide, fun mx h => by cases h; decide⟩
theorem ex2L_ok : ex2L.ok :=
  ⟨by decide, by decide, by decide, ⟨allBytes_of_all _ (by decide), Or.inl ⟨rfl, rfl, Or.inl rfl⟩⟩, rfl⟩

theorem ex2EmItem_described (id : Int) (h0 : 0 ≤ id) (h1 : id < 256) : ∀ m ∈ ex2EmItem id, Described2 m.c m.mid :=
  mem1 _ (described2_byte "id" none id h0 h1)

theorem ex2EmItem_side (id : Int) (hid : id ≠ 0xFF) :
    itemSideS none (Comps.toParams (MComps.cs (ex2EmItem 0))) (ex2EmItem id) ∧
      1 ≤ (DComp.structO none (MComps.cs (ex2EmItem id))).size ∧ ex2Em.miss (DComp.structO none (MComps.cs (ex2EmItem id))) :=
  ⟨⟨rfl, namesOk1 _, rfl, fun _ h => nomatch h⟩, Nat.le_refl 1, EmLayout.miss_of_first ex2Em "id" id [] hid⟩

theorem ex2EmField_described : Described2 ex2EmField true :=
  Described2.endMarkerMid "em" none ex2Em none (Comps.toParams (MComps.cs (ex2EmItem 0))) [ex2EmItem 1, ex2EmItem 2]
    (mem2 _ _ (ex2EmItem_described 1 (by decide) (by decide)) (ex2EmItem_described 2 (by decide) (by decide))) ex2Em_ok
    (mem2 _ _ (ex2EmItem_side 1 (by decide)) (ex2EmItem_side 2 (by decide)))

theorem ex2St_described : Described2 ex2St false := by
  refine Described2.struct "st" none none ex2StKids ?_ ?_ ⟨rfl, rfl, rfl, trivial⟩ (fun _ h => nomatch h)
  · intro m hm
    simp only [ex2StKids, List.mem_cons, List.mem_nil_iff, or_false] at hm
    rcases hm with rfl | rfl | rfl | rfl
    · exact Described2.minmaxMid ex2S ex2S_ok
    · exact Described2.leading ex2L ex2L_ok
    · exact ex2EmField_described
    · exact described2_byte "z" (some 10) 0x5A (by decide) (by decide)
  · simp [Comps.namesOk, ex2StKids, MComps.cs, mc, Comp.name, Param.name, Comp.ofMinMaxMid, Comp.ofMItem, Comp.ofGItem, MMLeaf.toMid,
      MMLeaf.toParam, ex2S, Comp.ofLeading, LeadLeaf.toG, LeadLeaf.toParam, ex2L, ex2EmField, Comp.ofValue, Comp.ofObjValue, Obj.toParam]

theorem ex2Hdr_described : Described2 ex2Hdr false :=
  Described2.struct "hdr" none (some 4) [mc (u8 "n" 7)] (mem1 _ (described2_byte "n" none 7 (by decide) (by decide)))
    (namesOk1 _) trivial (fun bs h => by cases h; exact ⟨by decide, rfl⟩)

theorem ex2TailItem_described (id v : Int) (h0 : 0 ≤ id) (h1 : id < 256) (h2 : 0 ≤ v) (h3 : v < 256) :
    ∀ m ∈ ex2TailItem id v, Described2 m.c m.mid :=
  mem2 _ _ (described2_byte "id" none id h0 h1) (described2_byte "v" none v h2 h3)

theorem ex2TailItem_side (id v : Int) (hid : id ≠ 0) :
    itemSideS (some 3) (Comps.toParams (MComps.cs (ex2TailItem 0 0))) (ex2TailItem id v) ∧
      1 ≤ (DComp.structO (some 3) (MComps.cs (ex2TailItem id v))).size ∧
      ex2Tl.miss (DComp.structO (some 3) (MComps.cs (ex2TailItem id v))) :=
  ⟨⟨rfl, namesOk2 _ _ (by show "id" ≠ "v"; decide), rfl, fun bs h => by cases h; exact ⟨by show 2 ≤ 3; omega, rfl⟩⟩,
    by show 1 ≤ 3; omega,
    EmLayout.miss_withByteSize ex2Tl 3 _ _ (EmLayout.miss_of_first ex2Tl "id" id [u8 "v" v] hid)⟩

theorem ex2Tail_described : Described2 ex2Tail false :=
  Described2.endMarkerEop "tail" none ex2Tl (some 3) (Comps.toParams (MComps.cs (ex2TailItem 0 0))) [ex2TailItem 1 0x11, ex2TailItem 2 0x22]
    (mem2 _ _ (ex2TailItem_described 1 0x11 (by decide) (by decide) (by decide) (by decide))
      (ex2TailItem_described 2 0x22 (by decide) (by decide) (by decide) (by decide))) ex2Tl_ok
    (mem2 _ _ (ex2TailItem_side 1 0x11 (by decide)) (ex2TailItem_side 2 0x22 (by decide)))
    (fun k hk => by
      have : k = ex2TailItem 2 0x22 := by simpa using hk.symm
      subst this; rfl)

/-- every top-level parameter of the example is `DescribedTop` relative to the request `22 F1 90` -/
theorem ex2_described : ∀ m ∈ ex2, DescribedTop (some ex2Trig) m.c m.mid := by
  intro m hm
  simp only [ex2, List.mem_cons, List.mem_nil_iff, or_false] at hm
  rcases hm with rfl | rfl | rfl | rfl | rfl
  · exact DescribedTop.nested _ _ (Described2.const _ _ _ (by simp [Obj.ok, Obj.encOk, Obj.sizeOk]) (by simp [Obj.inRange]))
  · exact DescribedTop.matchingReq "echo" none 1 2 ex2Trig rfl (allBytes_of_all _ (by decide)) (by decide) (by decide) (by decide)
  · exact DescribedTop.nested _ _ ex2Hdr_described
  · exact DescribedTop.nested _ _ ex2St_described
  · exact DescribedTop.nested _ _ ex2Tail_described

theorem ex2_names : Comps.namesOk (MComps.cs ex2) := by
  simp [Comps.namesOk, ex2, MComps.cs, mc, Comp.name, Param.name, Comp.ofObjConst, Obj.toConstParam, Comp.matchingReq, ex2Hdr, ex2St,
    ex2Tail, Comp.ofValue]

/-- **the theorem applies to the example**: the response is decoded to the complete dictionary and consumed completely -/
example : decodeMessage none (Comps.toParams (MComps.cs ex2)) ex2Pdu true = .ok (.dict (Comps.pair (MComps.cs ex2)).val, 24) :=
  C01_roundtrip_nested2_whole ex2 (some ex2Trig) ex2_described (by decide) ex2_names ⟨rfl, rfl, rfl, rfl, trivial⟩ rfl ex2Pdu
    (by decide +kernel) (Except.eq_ok_of_toOption (by decide +kernel))

/-! the excluded point of `sizeSide` (`hsize`): STRUCTURE with BYTE-SIZE 1 and two one-byte parameters.  Before fix
    `c01-byte-size-structure-content-too-long` (task W16) the encoder accepted (`01 02 03`: no padding, no error, no warning)
    and the decoder then failed ("Attempted to decode too large instance of structure"); the finding was forced by `hsize`.
    `BasicStructure.encode_into_pdu` now raises EncodeError (`odxraise`) when the content is longer than BYTE-SIZE, and so does
    the model (`encodeDop … (.struct (some bs) ps)`).  `hsize` stays a hypothesis of `C01_roundtrip_bytesize`: it is what makes
    the encoder accept. -/
def exTooLong : List Param :=
  [.mk "s" none none (.value (.struct (some 1) [(u8 "a" 0).param, (u8 "b" 0).param]) none), (u8 "y" 0).param]

/-- **the repaired model rejects content that is longer than BYTE-SIZE** (strict mode: EncodeError); with BYTE-SIZE 2 the same
    value is accepted, and non-strict mode keeps the old PDU -/
theorem C01_bytesize_too_long_rejected :
    (match encodeMessage none exTooLong (.dict [("s", .dict [("a", .atom (.int 1)), ("b", .atom (.int 2))]), ("y", .atom (.int 3))])
      none true with | .error .encode => true | _ => false) = true ∧
    (encodeMessage none [.mk "s" none none (.value (.struct (some 2) [(u8 "a" 0).param, (u8 "b" 0).param]) none), (u8 "y" 0).param]
      (.dict [("s", .dict [("a", .atom (.int 1)), ("b", .atom (.int 2))]), ("y", .atom (.int 3))]) none true).toOption = some ([1, 2, 3], 0) ∧
    (encodeMessage none exTooLong (.dict [("s", .dict [("a", .atom (.int 1)), ("b", .atom (.int 2))]), ("y", .atom (.int 3))])
      none false).toOption = some ([1, 2, 3], 0) := by
  refine ⟨?_, ?_, ?_⟩ <;> decide +kernel
example : (decodeMessage none exTooLong [1, 2, 3] true).toOption.isNone = true := by decide +kernel

/-- **strict mode, every parameter list, value, state, fuel:** a STRUCTURE with BYTE-SIZE that the encoder accepts occupies at
    most BYTE-SIZE bytes behind its first byte — the condition under which the decoder accepts it ("Attempted to decode too
    large instance of structure" otherwise).  Before the fix: false (`exTooLong`). -/
theorem C01_bytesize_accepted_fits (bs : Nat) (ps : List Param) (pv : PVal) (fuel : Nat) (s s' : EncState)
    (h : encodeDop fuel (.struct (some bs) ps) pv s true = .ok ((), s')) : s'.cursorByte - s.cursorByte ≤ bs := by
  cases fuel with
  | zero => simp [encodeDop, run_raise] at h
  | succ f =>
    simp only [encodeDop, bind, pure, run_bind, run_getS] at h
    cases hr : encodeComposite f ps pv s true with
    | error e => rw [hr] at h; cases h
    | ok r =>
      obtain ⟨⟨⟩, s1⟩ := r
      rw [hr] at h
      simp only [run_getS, run_ite] at h
      by_cases hgt : s1.cursorByte - s.cursorByte > bs
      · rw [if_pos hgt] at h; cases h
      · rw [if_neg hgt] at h
        by_cases hlt : s1.cursorByte - s.cursorByte < bs
        · rw [if_pos hlt] at h
          simp only [run_setS, Except.ok.injEq, Prod.mk.injEq, true_and] at h
          rw [← h]
          show s.cursorByte + bs - s.cursorByte ≤ bs
          omega
        · rw [if_neg hlt] at h
          simp only [run_pure, Except.ok.injEq, Prod.mk.injEq, true_and] at h
          rw [← h]
          omega

/-! a stand-alone STRUCTURE with BYTE-SIZE 5 over { s : terminated MIN-MAX; n } — `C01_roundtrip_bytesize` -/
def exBs : List MComp := [{ c := Comp.ofMinMaxMid ex2S, mid := true }, mc (u8 "n" 7)]
example : (encodeMessage (some 5) (Comps.toParams (MComps.cs exBs)) (.dict (Comps.values (MComps.cs exBs))) none true).toOption
    = some ([0xAA, 0xBB, 0x00, 0x07, 0x00], 0) := by decide +kernel
example : decodeMessage (some 5) (Comps.toParams (MComps.cs exBs)) [0xAA, 0xBB, 0x00, 0x07, 0x00] true
    = .ok (.dict (Comps.pair (MComps.cs exBs)).val, 5) :=
  C01_roundtrip_bytesize 5 exBs
    (mem2 _ _ (Described2.minmaxMid ex2S ex2S_ok) (described2_byte "n" none 7 (by decide) (by decide))) (by decide)
    (namesOk2 _ _ (by decide)) rfl rfl (by decide) none _ (Except.eq_ok_of_toOption (by decide +kernel))

/-! a terminated MIN-MAX parameter as the LAST parameter of a nested structure that is itself not last: the structure inherits
    the flag (`MComps.lastMid`): request [sid; in : STRUCTURE { k; s : MIN-MAX (terminated) }; y] → 22 | 05 | AA BB 00 | 77 -/
def ex3In : List MComp := [mc (u8 "k" 5), { c := Comp.ofMinMaxMid ex2S, mid := true }]
def ex3 : List MComp :=
  [mc (Comp.ofObjConst ⟨"sid", none, none, none, true, 8, .uint32⟩ (.int 0x22) false),
   { c := Comp.ofValue "in" none (DComp.structO none (MComps.cs ex3In)), mid := true }, mc (u8 "y" 0x77)]
example : MComps.lastMid ex3In = true := rfl
example : (encodeMessage none (Comps.toParams (MComps.cs ex3)) (.dict (Comps.values (MComps.cs ex3))) none true).toOption
    = some ([0x22, 0x05, 0xAA, 0xBB, 0x00, 0x77], 0) := by decide +kernel
theorem ex3_described : ∀ m ∈ ex3, DescribedTop none m.c m.mid := by
  intro m hm
  simp only [ex3, List.mem_cons, List.mem_nil_iff, or_false] at hm
  rcases hm with rfl | rfl | rfl
  · exact DescribedTop.nested _ _ (Described2.const _ _ _ (by simp [Obj.ok, Obj.encOk, Obj.sizeOk]) (by simp [Obj.inRange]))
  · exact DescribedTop.nested _ _ (Described2.struct "in" none none ex3In
      (mem2 _ _ (described2_byte "k" none 5 (by decide) (by decide)) (Described2.minmaxMid ex2S ex2S_ok))
      (namesOk2 _ _ (by decide)) ⟨rfl, trivial⟩ (fun _ h => nomatch h))
  · exact DescribedTop.nested _ _ (described2_byte "y" none 0x77 (by decide) (by decide))
example : decodeMessage none (Comps.toParams (MComps.cs ex3)) [0x22, 0x05, 0xAA, 0xBB, 0x00, 0x77] true
    = .ok (.dict (Comps.pair (MComps.cs ex3)).val, 6) :=
  C01_roundtrip_nested2_whole ex3 none ex3_described (by decide)
    (by simp [Comps.namesOk, ex3, MComps.cs, mc, Comp.name, Param.name, Comp.ofObjConst, Obj.toConstParam, Comp.ofValue, u8,
      Comp.ofObjValue, Obj.toParam])
    ⟨rfl, rfl, trivial⟩ rfl _ (by decide +kernel) (Except.eq_ok_of_toOption (by decide +kernel))

/-- `C01_roundtrip_nested2` subsumes `C01_roundtrip_nested_consumes`: every `Described` parameter is `Described2`
    (`Described.to2`), for requests and for responses to any request -/
theorem C01_roundtrip_nested2_of_described (gs : List Comp) (hd : ∀ g ∈ gs, Described g) (hneed : Comps.need gs + 2 ≤ modelFuel)
    (hn : Comps.namesOk gs) (hlast : Comps.eopLast gs) (trig : Option Bytes) (pdu : Bytes)
    (hend : Comps.anyEop gs = true → Comps.cur gs 0 0 = pdu.length)
    (henc : encodeMessage none (Comps.toParams gs) (.dict (Comps.values gs)) trig true = .ok (pdu, 0)) :
    decodeMessage none (Comps.toParams gs) pdu true = .ok (.dict (Comps.pair gs).val, Comps.cur gs 0 0) := by
  have h := C01_roundtrip_nested2 (MComps.ofComps gs) trig
    (fun m hm => by obtain ⟨g, hg, rfl⟩ := MComps.mem_ofComps hm; exact DescribedTop.nested _ _ (hd g hg).to2)
  rw [MComps.cs_ofComps] at h
  exact h hneed hn hlast (MComps.midNotLast_ofComps gs) pdu hend henc

/-! STATIC-FIELD items that END with a terminated MIN-MAX parameter (every item of a static field is encoded with
    `is_end_of_pdu` cleared, also the last one of a field that is the last parameter of the request):
    request [sid; recs : STATIC-FIELD, 2 items of { id; nm : MIN-MAX A_BYTEFIELD 1..4 ZERO }, ITEM-BYTE-SIZE 5]
    → 22 | 01 AA BB 00 + 1 padding byte | 02 CC 00 + 2 padding bytes -/
def ex4Nm (raw : Bytes) : MMLeaf :=
  { name := "nm", bytePos := none, bt := .bytefield, enc := none, hl := true, minLen := 1, maxLen := some 4, term := .zero,
    v := .bytes raw, raw := raw }
def ex4Item (id : Int) (raw : Bytes) : List MComp := [mc (u8 "id" id), { c := Comp.ofMinMaxMid (ex4Nm raw), mid := true }]
def ex4 : List MComp :=
  [mc (Comp.ofObjConst ⟨"sid", none, none, none, true, 8, .uint32⟩ (.int 0x22) false),
   mc (Comp.ofValue "recs" none (DComp.staticField 5 (.struct none (Comps.toParams (MComps.cs (ex4Item 0 []))))
     (itemsO none [ex4Item 1 [0xAA, 0xBB], ex4Item 2 [0xCC]])))]
example : (encodeMessage none (Comps.toParams (MComps.cs ex4)) (.dict (Comps.values (MComps.cs ex4))) none true).toOption
    = some ([0x22, 0x01, 0xAA, 0xBB, 0x00, 0x00, 0x02, 0xCC, 0x00, 0x00, 0x00], 0) := by decide +kernel
theorem ex4Nm_ok1 : (ex4Nm [0xAA, 0xBB]).okMid :=
  ⟨⟨⟨allBytes_of_all _ (by decide), Or.inl ⟨rfl, rfl, Or.inl rfl⟩⟩, by decide, fun mx h => by cases h; decide, fun _ => by decide⟩,
    by decide, by decide, by decide, fun mx h => by cases h; decide⟩
theorem ex4Nm_ok2 : (ex4Nm [0xCC]).okMid :=
  ⟨⟨⟨allBytes_of_all _ (by decide), Or.inl ⟨rfl, rfl, Or.inl rfl⟩⟩, by decide, fun mx h => by cases h; decide, fun _ => by decide⟩,
    by decide, by decide, by decide, fun mx h => by cases h; decide⟩
theorem ex4_described : ∀ m ∈ ex4, DescribedTop none m.c m.mid := by
  intro m hm
  simp only [ex4, List.mem_cons, List.mem_nil_iff, or_false] at hm
  rcases hm with rfl | rfl
  · exact DescribedTop.nested _ _ (Described2.const _ _ _ (by simp [Obj.ok, Obj.encOk, Obj.sizeOk]) (by simp [Obj.inRange]))
  · refine DescribedTop.nested _ _ (Described2.staticField "recs" none 5 none (Comps.toParams (MComps.cs (ex4Item 0 [])))
      [ex4Item 1 [0xAA, 0xBB], ex4Item 2 [0xCC]] (mem2 _ _ ?_ ?_) (mem2 _ _ ?_ ?_))
    · exact mem2 _ _ (described2_byte "id" none 1 (by decide) (by decide)) (Described2.minmaxMid _ ex4Nm_ok1)
    · exact mem2 _ _ (described2_byte "id" none 2 (by decide) (by decide)) (Described2.minmaxMid _ ex4Nm_ok2)
    · exact ⟨⟨rfl, namesOk2 _ _ (by decide), rfl, fun _ h => nomatch h⟩, by decide⟩
    · exact ⟨⟨rfl, namesOk2 _ _ (by decide), rfl, fun _ h => nomatch h⟩, by decide⟩
example : decodeMessage none (Comps.toParams (MComps.cs ex4)) [0x22, 0x01, 0xAA, 0xBB, 0x00, 0x00, 0x02, 0xCC, 0x00, 0x00, 0x00] true
    = .ok (.dict (Comps.pair (MComps.cs ex4)).val, 11) :=
  C01_roundtrip_nested2_whole ex4 none ex4_described (by decide)
    (by simp [Comps.namesOk, ex4, MComps.cs, mc, Comp.name, Param.name, Comp.ofObjConst, Obj.toConstParam, Comp.ofValue])
    ⟨rfl, trivial⟩ rfl _ (by decide +kernel) (Except.eq_ok_of_toOption (by decide +kernel))

/-! a MULTIPLEXER whose selected case ends with a terminated MIN-MAX parameter inherits the flag:
    request [sid; m : MULTIPLEXER (key u8 at byte 0, case "txt" 2..3 { t : MIN-MAX, terminated } at byte 1); y] → 22 | 02 | AA BB 00 | 77 -/
def ex5Case : List MComp := [{ c := Comp.ofMinMaxMid ex2S, mid := true }]
def ex5Mux : MuxLayout :=
  { muxBp := 1, swBp := 0, key := ⟨"", none, none, none, true, 8, .uint32⟩,
    cases := [.mk "txt" 2 3 (some (.struct none (Comps.toParams (MComps.cs ex5Case))))], dflt := none, caseName := "txt", lo := 2 }
def ex5 : List MComp :=
  [mc (Comp.ofObjConst ⟨"sid", none, none, none, true, 8, .uint32⟩ (.int 0x22) false),
   { c := Comp.ofValue "m" none (DComp.mux ex5Mux (DComp.struct (MComps.cs ex5Case))), mid := true }, mc (u8 "y" 0x77)]
example : (encodeMessage none (Comps.toParams (MComps.cs ex5)) (.dict (Comps.values (MComps.cs ex5))) none true).toOption
    = some ([0x22, 0x02, 0xAA, 0xBB, 0x00, 0x77], 0) := by decide +kernel
theorem ex5_described : ∀ m ∈ ex5, DescribedTop none m.c m.mid := by
  intro m hm
  simp only [ex5, List.mem_cons, List.mem_nil_iff, or_false] at hm
  rcases hm with rfl | rfl | rfl
  · exact DescribedTop.nested _ _ (Described2.const _ _ _ (by simp [Obj.ok, Obj.encOk, Obj.sizeOk]) (by simp [Obj.inRange]))
  · refine DescribedTop.nested _ _ (Described2.mux "m" none ex5Mux ex5Case (mem1 _ (Described2.minmaxMid ex2S ex2S_ok))
      (namesOk1 _) trivial ⟨?_, ?_, ?_⟩)
    · simp [ex5Mux, MuxLayout.keyObj, Obj.ok, Obj.encOk, Obj.sizeOk]
    · simp [ex5Mux, MuxLayout.keyObj, Obj.inRange]
    · exact MuxLayout.sel_of_case ex5Mux _ [] [] 3 rfl (by decide) rfl rfl
  · exact DescribedTop.nested _ _ (described2_byte "y" none 0x77 (by decide) (by decide))
example : decodeMessage none (Comps.toParams (MComps.cs ex5)) [0x22, 0x02, 0xAA, 0xBB, 0x00, 0x77] true
    = .ok (.dict (Comps.pair (MComps.cs ex5)).val, 6) :=
  C01_roundtrip_nested2_whole ex5 none ex5_described (by decide)
    (by simp [Comps.namesOk, ex5, MComps.cs, mc, Comp.name, Param.name, Comp.ofObjConst, Obj.toConstParam, Comp.ofValue, u8,
      Comp.ofObjValue, Obj.toParam])
    ⟨rfl, rfl, trivial⟩ rfl _ (by decide +kernel) (Except.eq_ok_of_toOption (by decide +kernel))

/-! a DYNAMIC-LENGTH-FIELD whose items END with a terminated MIN-MAX parameter inherits the flag of its last item:
    request [sid; df : DYNAMIC-LENGTH-FIELD (count u8 at byte 0, OFFSET 1), 2 items of { nm : MIN-MAX, terminated }; y]
    → 22 | 02 | AA BB 00 | CC 00 | 77 -/
def ex6Item (raw : Bytes) : List MComp := [{ c := Comp.ofMinMaxMid (ex4Nm raw), mid := true }]
def ex6Lay : DynLayout := { offset := 1, cntBp := 0, cnt := ⟨"", none, none, none, true, 8, .uint32⟩ }
def ex6 : List MComp :=
  [mc (Comp.ofObjConst ⟨"sid", none, none, none, true, 8, .uint32⟩ (.int 0x22) false),
   { c := Comp.ofValue "df" none (DComp.dynLenField ex6Lay (.struct none (Comps.toParams (MComps.cs (ex6Item []))))
       (itemsO none [ex6Item [0xAA, 0xBB], ex6Item [0xCC]])), mid := true },
   mc (u8 "y" 0x77)]
example : (encodeMessage none (Comps.toParams (MComps.cs ex6)) (.dict (Comps.values (MComps.cs ex6))) none true).toOption
    = some ([0x22, 0x02, 0xAA, 0xBB, 0x00, 0xCC, 0x00, 0x77], 0) := by decide +kernel
theorem ex6_described : ∀ m ∈ ex6, DescribedTop none m.c m.mid := by
  intro m hm
  simp only [ex6, List.mem_cons, List.mem_nil_iff, or_false] at hm
  rcases hm with rfl | rfl | rfl
  · exact DescribedTop.nested _ _ (Described2.const _ _ _ (by simp [Obj.ok, Obj.encOk, Obj.sizeOk]) (by simp [Obj.inRange]))
  · refine DescribedTop.nested _ _ (Described2.dynLenField "df" none ex6Lay none (Comps.toParams (MComps.cs (ex6Item [])))
      [ex6Item [0xAA, 0xBB], ex6Item [0xCC]] (mem2 _ _ ?_ ?_) (mem2 _ _ ?_ ?_) ⟨?_, ?_, by decide⟩)
    · exact mem1 _ (Described2.minmaxMid _ ex4Nm_ok1)
    · exact mem1 _ (Described2.minmaxMid _ ex4Nm_ok2)
    · exact ⟨⟨rfl, namesOk1 _, rfl, fun _ h => nomatch h⟩, by decide⟩
    · exact ⟨⟨rfl, namesOk1 _, rfl, fun _ h => nomatch h⟩, by decide⟩
    · simp [ex6Lay, DynLayout.cntObj, Obj.ok, Obj.encOk, Obj.sizeOk]
    · simp [ex6Lay, DynLayout.cntObj, Obj.inRange]
  · exact DescribedTop.nested _ _ (described2_byte "y" none 0x77 (by decide) (by decide))
example : decodeMessage none (Comps.toParams (MComps.cs ex6)) [0x22, 0x02, 0xAA, 0xBB, 0x00, 0xCC, 0x00, 0x77] true
    = .ok (.dict (Comps.pair (MComps.cs ex6)).val, 8) :=
  C01_roundtrip_nested2_whole ex6 none ex6_described (by decide)
    (by simp [Comps.namesOk, ex6, MComps.cs, mc, Comp.name, Param.name, Comp.ofObjConst, Obj.toConstParam, Comp.ofValue, u8,
      Comp.ofObjValue, Obj.toParam])
    ⟨rfl, rfl, trivial⟩ rfl _ (by decide +kernel) (Except.eq_ok_of_toOption (by decide +kernel))

end OdxVerif.Codec
