import OdxVerif.Props.C08Nested3
import OdxVerif.Proofs.CompReject3Static
/-! # C08 on the compositional nested tier, part 2b (task W30): message-level static length with STRUCTUREs with BYTE-SIZE
    (Imports `Props/C08Nested3.lean`, hence audited with it in an environment of its own — see `harness/props/c08.py`.)

    `C08_static_length_bytesize` (`Props/C08Nested2.lean`) is the CURSOR law of a BYTE-SIZE structure; the message-level statement
    `staticBitLen = some (8 * pdu.length)` was given on an example only ("the shape type `Tree` has no BYTE-SIZE").  Here it is a
    theorem: the length law is stated on descriptions (`PDesc.LenP`, `Proofs/CompReject3Static.lean`) instead of shapes.

    The full statement asked for — top-level parameters: static leaves / static structures and BYTE-SIZE structures over ARBITRARY
    `DescribedP2` content (fields, multiplexers …) — is
      `(∀ p, static leaf or PDesc.ofValue _ _ (DDesc.structBS bs qs) with DescribedP2 qs, extent of every encoding of qs ≤ bs) →
         encodeMessage … = .ok (pdu, w) → staticBitLen = some (8 * pdu.length)`.
    Proved (`_partial`): the content `qs` of a BYTE-SIZE structure is itself static (`StaticP3`: integer / compu leaves and
    structures of them, any depth), with the decidable side conditions the open finding
    `nested-structure-cursor-behind-last-listed-parameter` dictates — `Trees.statS ts 0 0 ≤ bs` (no listed parameter extends behind
    BYTE-SIZE; without it the PDU is LONGER than the static length: example below), `Trees.cursorOkS`, `rcurS ≤ statS`, `1 ≤ bs`.
    Missing for dynamic content: an extent invariant of `Comp` ("the message ends where the cursor ends unless a parameter is
    explicitly positioned") through fields and multiplexers. -/
namespace OdxVerif.Codec
open OdxVerif.Bits OdxVerif.OdxM

/-- a top-level parameter with its BYTE-POSITION and static byte length: a static description whose cursor ends at its full
    extent, or a STRUCTURE with BYTE-SIZE over static content that fits -/
inductive StaticTop : PDesc → LShape → Prop
  | leaf (p : PDesc) (t : Tree) : StaticP3 p t → t.cursorOkS = true → t.rendS = t.slenS → StaticTop p (t.bytePosS, t.slenS)
  | byteSize (name : String) (bp : Option Nat) (bs : Nat) (qs : List PDesc) (ts : List Tree) : qs.length = ts.length →
      (∀ (i : Nat) (h1 : i < qs.length) (h2 : i < ts.length), StaticP3 qs[i] ts[i]) → PDescs.namesOk qs →
      Trees.cursorOkS ts = true → Trees.statS ts 0 0 ≤ bs → Trees.rcurS ts 0 ≤ Trees.statS ts 0 0 → 1 ≤ bs →
      StaticTop (PDesc.ofValue name bp (DDesc.structBS bs qs)) (bp, bs)

inductive StaticTops : List PDesc → List LShape → Prop
  | nil : StaticTops [] []
  | cons {p : PDesc} {x : LShape} {ps : List PDesc} {sh : List LShape} : StaticTop p x → StaticTops ps sh → StaticTops (p :: ps) (x :: sh)

theorem StaticTop.sound {p : PDesc} {x : LShape} (h : StaticTop p x) : p.OkW ∧ p.mayEop = false ∧ p.LenP x.1 x.2 := by
  cases h with
  | leaf p t hs hc hr => exact ⟨hs.sound.1, hs.sound.2.1, hs.sound.2.2.lenP hc hr⟩
  | byteSize name bp bs qs ts hlen hs hn hc hfit hrc hbs =>
    have hlist := StaticPs.of_pointwise3 qs ts hlen (fun i h1 h2 => (hs i h1 h2).sound)
    have hno : ∀ q ∈ qs, q.mayEop = false := fun q hq => (hlist.1 q hq).2
    have hany : PDescs.anyEop qs = false := by
      simp only [PDescs.anyEop, List.any_eq_false]
      intro y hy
      simp [hno y hy]
    exact ⟨PDesc.ofValue_okW name bp _ (DDesc.structBS_okW bs qs (fun q hq => (hlist.1 q hq).1) hn hany), rfl,
      PDesc.structBS_lenP name bp bs qs ts hlist.2 hc hfit hrc hbs⟩

theorem StaticTops.sound {ps : List PDesc} {sh : List LShape} (h : StaticTops ps sh) :
    (∀ p ∈ ps, p.OkW ∧ p.mayEop = false) ∧ LenPs ps sh := by
  induction h with
  | nil => exact And.intro (fun _ hp => nomatch hp) LenPs.nil
  | cons h1 _ ih =>
    refine ⟨?_, LenPs.cons h1.sound.2.2 ih.2⟩
    intro q hq
    cases hq with
    | head => exact ⟨h1.sound.1, h1.sound.2.1⟩
    | tail _ hm => exact ih.1 q hm

/-- **C08, message-level static length with BYTE-SIZE structures.**  For a request whose parameters are static descriptions and
    STRUCTUREs with BYTE-SIZE over static content that fits: the reported static bit length is 8 × the length of EVERY accepted
    strict encoding, whatever value is supplied (atoms Python can supply) — and it is the value `LShapes.stat` computes from the
    BYTE-POSITIONs and BYTE-SIZEs alone. -/
theorem C08_static_length_bytesize_msg_partial (ps : List PDesc) (sh : List LShape) (hs : StaticTops ps sh) (hn : PDescs.namesOk ps)
    (pv : PVal) (hwf : pv.wfAtoms = true) (trig : Option Bytes) (hneed : (DDesc.struct ps).need pv ≤ modelFuel)
    (pdu : Bytes) (w : Nat) (henc : encodeMessage none (PDescs.toParams ps) pv trig true = .ok (pdu, w)) :
    (Dop.struct none (PDescs.toParams ps)).staticBitLen = some (8 * pdu.length) ∧ pdu.length = LShapes.stat sh 0 0 := by
  have h := hs.sound
  have h1 := static_length_lenPs ps sh h.2 (fun p hp => (h.1 p hp).1) (fun p hp => (h.1 p hp).2) hn pv hwf trig hneed pdu w henc
  refine ⟨h1, ?_⟩
  simp only [Dop.staticBitLen, h.2.static_eq, Option.map_some, Option.some.injEq] at h1
  omega

/-! ## non-vacuity
    request = [ sid (CODED-CONST 0x2E); bsx : STRUCTURE BYTE-SIZE 6 { n : 8 bit; m : 8 bit at BYTE-POSITION 3 }; tail : 8 bit ] -/
def o8 (n : String) : Obj := ⟨n, none, none, none, true, 8, .uint32⟩
def o8at (n : String) (b : Nat) : Obj := { o8 n with bytePos := some b }
def zContent : List PDesc := [PDesc.ofObjValue (o8 "n") (fun _ => true), PDesc.ofObjValue (o8at "m" 3) (fun _ => true)]
def zTrees : List Tree := [.int (o8 "n") (.int 0), .int (o8at "m" 3) (.int 0)]
def zDesc : List PDesc :=
  [PDesc.ofObjConst (o8 "sid") (.int 0x2E), PDesc.ofValue "bsx" none (DDesc.structBS 6 zContent),
   PDesc.ofObjValue (o8 "tail") (fun _ => true)]
def zShape : List LShape := [(none, 1), (none, 6), (none, 1)]
def zMk (n m t : Int) : PVal := .dict [("bsx", .dict [("n", .atom (.int n)), ("m", .atom (.int m))]), ("tail", .atom (.int t))]

theorem o8_ok (n : String) : (o8 n).ok ∧ (o8 n).isInt := ⟨by simp [Obj.ok, Obj.encOk, Obj.sizeOk, o8], Or.inr rfl⟩
theorem o8at_ok (n : String) (b : Nat) : (o8at n b).ok ∧ (o8at n b).isInt :=
  ⟨by simp [Obj.ok, Obj.encOk, Obj.sizeOk, o8, o8at], Or.inr rfl⟩

theorem zContent_static : ∀ (i : Nat) (h1 : i < zContent.length) (h2 : i < zTrees.length), StaticP3 zContent[i] zTrees[i] := by
  intro i h1 h2
  match i, h1, h2 with
  | 0, _, _ => exact StaticP3.old _ _ (StaticP.value _ _ (o8_ok _).1 (o8_ok _).2)
  | 1, _, _ => exact StaticP3.old _ _ (StaticP.value _ _ (o8at_ok _ _).1 (o8at_ok _ _).2)

theorem zDesc_static : StaticTops zDesc zShape := by
  refine StaticTops.cons ?_ (StaticTops.cons ?_ (StaticTops.cons ?_ StaticTops.nil))
  · exact StaticTop.leaf _ (.const (o8 "sid") (.int 0x2E))
      (StaticP3.old _ _ (StaticP.const _ _ (o8_ok _).1 (by simp [Obj.inRange, o8]))) rfl rfl
  · exact StaticTop.byteSize "bsx" none 6 zContent zTrees rfl zContent_static
      (by simp [PDescs.namesOk, zContent, PDesc.name, Param.name, PDesc.ofObjValue, Obj.toParam, o8, o8at])
      (by decide) (by decide) (by decide) (by decide)
  · exact StaticTop.leaf _ (.int (o8 "tail") (.int 0)) (StaticP3.old _ _ (StaticP.value _ _ (o8_ok _).1 (o8_ok _).2)) rfl rfl

theorem zDesc_names : PDescs.namesOk zDesc := by
  simp [PDescs.namesOk, zDesc, PDesc.name, Param.name, PDesc.ofObjConst, Obj.toConstParam, PDesc.ofValue, PDesc.ofObjValue,
    Obj.toParam, o8]

/-- the static length is 64 bits = 8 × (1 + 6 + 1); two accepted encodings (8 bytes each: `m` at offset 3 of the structure, padding
    up to BYTE-SIZE); a rejected value has no encoding -/
example : (Dop.struct none (PDescs.toParams zDesc)).staticBitLen = some 64 ∧ LShapes.stat zShape 0 0 = 8 := by decide +kernel
example : [zMk 7 9 0x99, zMk 0 255 1].map (fun p => (encodeMessage none (PDescs.toParams zDesc) p none true).toOption) =
    [some ([0x2E, 7, 0, 0, 9, 0, 0, 0x99], 0), some ([0x2E, 0, 0, 0, 255, 0, 0, 1], 0)] := by decide +kernel
example : errClass (encodeMessage none (PDescs.toParams zDesc) (zMk 7 256 1) none true) = some .encode := by decide +kernel
/-- the theorem applies: whatever is supplied, an accepted encoding has 8 bytes -/
example (pv : PVal) (hwf : pv.wfAtoms = true) (hneed : (DDesc.struct zDesc).need pv ≤ modelFuel) (pdu : Bytes) (w : Nat)
    (henc : encodeMessage none (PDescs.toParams zDesc) pv none true = .ok (pdu, w)) : pdu.length = 8 := by
  have := (C08_static_length_bytesize_msg_partial zDesc zShape zDesc_static zDesc_names pv hwf none hneed pdu w henc).2
  rw [this]
  decide +kernel

/-- **the side condition `Trees.statS ts 0 0 ≤ bs` is needed** (open finding `nested-structure-cursor-behind-last-listed-parameter`):
    with `m` at BYTE-POSITION 7 listed BEFORE `n` at BYTE-POSITION 0 inside the structure of BYTE-SIZE 6 (the cursor ends at 1 ≤ 6, so
    the content is not "too long") the reported static length is still 64 bits, the accepted PDU has 9 bytes = 72 bits (`tail` is
    written at byte 7, `m` at byte 8) -/
def zBadDesc : List PDesc :=
  [PDesc.ofObjConst (o8 "sid") (.int 0x2E),
   PDesc.ofValue "bsx" none (DDesc.structBS 6 [PDesc.ofObjValue (o8at "m" 7) (fun _ => true), PDesc.ofObjValue (o8at "n" 0) (fun _ => true)]),
   PDesc.ofObjValue (o8 "tail") (fun _ => true)]
example : (Dop.struct none (PDescs.toParams zBadDesc)).staticBitLen = some 64 ∧
    Trees.statS [.int (o8at "m" 7) (.int 0), .int (o8at "n" 0) (.int 0)] 0 0 = 8 ∧
    (encodeMessage none (PDescs.toParams zBadDesc) (zMk 7 9 0x99) none true).toOption =
      some ([0x2E, 7, 0, 0, 0, 0, 0, 0x99, 9], 0) := by decide +kernel

end OdxVerif.Codec
