import OdxVerif.Proofs.ComparamGet
import OdxVerif.Proofs.ComparamNum
/-! # C15 — communication parameters resolve to the most specific definition

Property theorems only. `available L` is `layer.comparam_refs` (the result of
`_compute_available_commmunication_parameters`), `getComparam` is `get_comparam`, `layerAccessor a` is
the typed accessor `a` (all three: `Model/Comparam`, following the code after `fixes/c15-*.patch`);
`lookup`, `candidates`, `effValue`, `effSubvalue`, `specAccessor` are the specification
(`Spec/Comparam`). Every statement holds for all hierarchies (any depth, any number of parent refs,
any mixture of layer types) and all placements of instances. -/
namespace OdxVerif.Comparam
open OdxVerif.Gen (LayerKind)

/-! ## example hierarchy used for the non-vacuity checks (ledger row 19) -/

def exSpec : CpSpec := .simple "CP_Baudrate" "500000"
def exTable : CpSpec := .complex "CP_UniqueRespIdTable"
  [.simple "CP_CanPhysReqFormat" "normal", .simple "CP_CanPhysReqId" "2016", .simple "CP_CanRespUSDTId" "2024"] none
/-- FUNCTIONAL-GROUP: generic `CP_Baudrate = 111`, an omitted `CP_Baudrate` for protocol `Q` -/
def exFg : Layer := .mk .functionalGroup
  [⟨0, "BR", none, .str "111", exSpec⟩, ⟨2, "BR", some "Q", .str "", exSpec⟩] []
/-- PROTOCOL: generic `CP_Baudrate = 99`, a response-id table with an empty and a missing sub-value -/
def exProt : Layer := .mk .protocol
  [⟨3, "BR", none, .str "99", exSpec⟩, ⟨4, "URT", none, .list [.str "x", .str ""], exTable⟩] []
/-- BASE-VARIANT over both: `CP_Baudrate = 222` for protocol `P` -/
def exBv : Layer := .mk .baseVariant [⟨1, "BR", some "P", .str "222", exSpec⟩] [exFg, exProt]

/-! ## the priorities -/

/-- the regenerated table `PRIORITY_OF_DIAG_LAYER_TYPE` orders the layer types exactly like the rank the
    specification uses (protocol < functional group < base variant < ECU variant) -/
theorem C15_priority_table : ∀ a b : LayerKind, a.prio < b.prio ↔ cpRank a < cpRank b :=
  prio_sameOrder

example : LayerKind.prio .protocol < LayerKind.prio .functionalGroup ∧ cpRank .protocol < cpRank .functionalGroup := by decide

/-! ## parents overridden per parameter and protocol by closer layers -/

/-- looking `(id, protocol)` up in `comparam_refs` gives the definition of the closest layer on the
    highest-priority path that defines it (`lookup`), for every hierarchy and every key -/
theorem C15_most_specific (L : Layer) (k : Key) : dictGet (available L) k = lookup L k :=
  dictGet_available L k

example : (dictGet (available exBv) ("BR", none)).map (·.tag) = some 0 := by decide
example : (lookup exBv ("BR", none)).map (·.tag) = some 0 := by decide      -- functional group beats protocol
example : (lookup exBv ("BR", some "P")).map (·.tag) = some 1 := by decide

/-- `comparam_refs` holds at most one definition per `(id, protocol)` -/
theorem C15_one_per_key (L : Layer) : (available L).Pairwise fun a b => a.key ≠ b.key :=
  keysNodup_available L

/-- `comparam_refs` holds exactly the effective definitions: nothing is lost, nothing is invented -/
theorem C15_available_iff_effective (L : Layer) (c : Inst) : c ∈ available L ↔ IsEffective L c :=
  mem_available_iff L c

example : (available exBv).map (·.tag) = [0, 4, 2, 1] := by decide

/-- a layer's own definition of `(id, protocol)` overrides whatever the parents provide -/
theorem C15_local_overrides_parent (kd : LayerKind) (ls : List Inst) (ps : List Layer) (k : Key) (c : Inst)
    (h : lastDef ls k = some c) : dictGet (available (.mk kd ls ps)) k = some c := by
  rw [dictGet_available, lookup, h]

example : (lastDef exBv.locals ("BR", some "P")).map (·.tag) = some 1 := by decide

/-- what a layer does not define itself is what the best parent provides: the parent of highest
    layer-type rank among those that provide a definition, the later parent ref on a tie -/
theorem C15_inherited_unless_overridden (kd : LayerKind) (ls : List Inst) (ps : List Layer) (k : Key)
    (h : lastDef ls k = none) :
    dictGet (available (.mk kd ls ps)) k = (bestOffer ps k).map (·.inst) := by
  rw [dictGet_available, lookup, h]

example : lastDef exBv.locals ("BR", none) = none := by decide
example : ((bestOffer exBv.parents ("BR", none)).map (·.kind)) = some .functionalGroup := by decide

/-- … where "best" means: provided by a parent that is a hierarchy element, and no parent that provides
    a definition of the key has a layer type of higher priority -/
theorem C15_highest_priority (ps : List Layer) (k : Key) (o : Offer) (h : bestOffer ps k = some o) :
    (∃ p ∈ ps, p.kind ≠ .ecuSharedData ∧ lookup p k = some o.inst ∧ p.kind = o.kind)
    ∧ (∀ p ∈ ps, p.kind ≠ .ecuSharedData → (lookup p k).isSome → cpRank p.kind ≤ cpRank o.kind) :=
  bestOffer_spec h

example : ((bestOffer exBv.parents ("BR", none)).map (·.inst.tag)) = some 0 := by decide

/-! ## protocol-specific before generic -/

/-- `get_comparam(name, protocol)` answers with one of the specification's candidates — the effective
    definitions of that name for the protocol if there are any, else the generic ones — and with
    `None` only if there is no candidate -/
theorem C15_protocol_first (L : Layer) (n : String) (p : Option String) :
    (∀ c, getComparam L n p = some c → c ∈ candidates L n p)
    ∧ (getComparam L n p = none → candidates L n p = []) :=
  getComparamIn_candidates L n p

example : (getComparam exBv "CP_Baudrate" (some "P")).map (·.tag) = some 1 := by decide
example : (candidates exBv "CP_Baudrate" (some "P")).map (·.tag) = [1] := by decide
example : (getComparam exBv "CP_Baudrate" (some "R")).map (·.tag) = some 0 := by decide   -- generic fallback
example : getComparam exBv "CP_Nothing" (some "P") = none := by decide

/-- if the layer has an effective definition of a parameter named `n` for protocol `q`, then
    `get_comparam(n, q)` returns an effective definition for protocol `q` (never a generic one) -/
theorem C15_protocol_first_specific (L : Layer) (n i q : String) (c : Inst)
    (hc : lookup L (i, some q) = some c) (hn : c.name = n) :
    ∃ r, getComparam L n (some q) = some r ∧ r.name = n ∧ r.proto = some q ∧ IsEffective L r := by
  have hk := lookup_key hc
  have hmem : c ∈ available L := (mem_available_iff L c).mpr (by rw [hk]; exact hc)
  have hp : c.proto = some q := by have := congrArg Prod.snd hk; simpa [Inst.key] using this
  have hsp : c ∈ ((available L).filter fun c => c.name = n).filter (fun c => c.proto = some q) := by
    simp [List.mem_filter, hmem, hn, hp]
  unfold getComparam getComparamIn
  simp only
  cases hs : ((available L).filter fun c => c.name = n).filter (fun c => c.proto = some q) with
  | nil => rw [hs] at hsp; cases hsp
  | cons r rest =>
    have hr : r ∈ ((available L).filter fun c => c.name = n).filter (fun c => c.proto = some q) := by
      rw [hs]; exact List.mem_cons_self
    simp only [List.mem_filter, decide_eq_true_eq] at hr
    exact ⟨r, rfl, hr.1.2, hr.2, (mem_available_iff L r).mp hr.1.1⟩

example : (lookup exBv ("BR", some "P")).map (fun c => (c.tag, c.name)) = some (1, "CP_Baudrate") := by decide

/-- if there is no effective definition named `n` for protocol `q` but a generic one, the generic
    definition is the answer -/
theorem C15_protocol_first_generic (L : Layer) (n i q : String) (c : Inst)
    (hnone : ∀ j d, lookup L (j, some q) = some d → d.name ≠ n)
    (hc : lookup L (i, none) = some c) (hn : c.name = n) :
    ∃ r, getComparam L n (some q) = some r ∧ r.name = n ∧ r.proto = none ∧ IsEffective L r := by
  have hk := lookup_key hc
  have hmem : c ∈ available L := (mem_available_iff L c).mpr (by rw [hk]; exact hc)
  have hp : c.proto = none := by have := congrArg Prod.snd hk; simpa [Inst.key] using this
  have hsp : ((available L).filter fun c => c.name = n).filter (fun c => c.proto = some q) = [] := by
    rw [List.filter_eq_nil_iff]
    intro d hd hq
    simp only [List.mem_filter, decide_eq_true_eq] at hd hq
    have hde := (mem_available_iff L d).mp hd.1
    have : d.key = (d.id, some q) := by simp [Inst.key, hq]
    rw [this] at hde
    exact hnone d.id d hde hd.2
  have hg : c ∈ ((available L).filter fun c => c.name = n).filter (fun c => c.proto = none) := by
    simp [List.mem_filter, hmem, hn, hp]
  unfold getComparam getComparamIn
  simp only [hsp]
  cases hs : ((available L).filter fun c => c.name = n).filter (fun c => c.proto = none) with
  | nil => rw [hs] at hg; cases hg
  | cons r rest =>
    have hr : r ∈ ((available L).filter fun c => c.name = n).filter (fun c => c.proto = none) := by
      rw [hs]; exact List.mem_cons_self
    simp only [List.mem_filter, decide_eq_true_eq] at hr
    exact ⟨r, rfl, hr.1.2, hr.2, (mem_available_iff L r).mp hr.1.1⟩

example : ∀ j ∈ ["BR", "URT"], (lookup exBv (j, some "R")).isNone := by decide
example : (lookup exBv ("BR", none)).map (·.name) = some "CP_Baudrate" := by decide

/-- without a protocol the answer is an effective definition of that name, and `None` only if the
    layer has none -/
theorem C15_no_protocol (L : Layer) (n : String) :
    (∀ r, getComparam L n none = some r → r.name = n ∧ IsEffective L r)
    ∧ (getComparam L n none = none → ∀ c, IsEffective L c → c.name ≠ n) := by
  constructor
  · intro r h
    exact mem_candidates_effective ((C15_protocol_first L n none).1 r h)
  · intro h c hc hn
    have hnil := (C15_protocol_first L n none).2 h
    have : c ∈ candidates L n none := by
      simp only [candidates, List.mem_filter, decide_eq_true_eq]
      exact ⟨(mem_effective_iff L c).mpr ((mem_available_iff L c).mpr hc), hn⟩
    rw [hnil] at this
    cases this

example : (getComparam exBv "CP_Baudrate" none).map (·.tag) = some 0 := by decide

/-! ## defaults -/

/-- `get_value()` is the effective value: the written value, or the PHYSICAL-DEFAULT-VALUE of the
    specification when the value is omitted -/
theorem C15_defaults_value :
    (∀ c s, effValue c = some s → getValue c = .ok s)
    ∧ (∀ t i p n d, getValue ⟨t, i, p, .str "", .simple n d⟩ = .ok d)
    ∧ (∀ t i p n d s, s ≠ "" → getValue ⟨t, i, p, .str s, .simple n d⟩ = .ok s) := by
  refine ⟨fun c s h => (effValue_getValue h).1, ?_, ?_⟩
  · intro t i p n d
    simp [getValue, CVal.truthy]
  · intro t i p n d s hs
    simp [getValue, CVal.truthy, hs]

example : getValue ⟨2, "BR", some "Q", .str "", exSpec⟩ = .ok "500000" := by decide

/-- `get_subvalue(name)` is the effective sub-value: the written one, or the default of the
    sub-parameter when it is omitted — empty, or missing at the end of the COMPLEX-VALUE -/
theorem C15_defaults_subvalue :
    (∀ c sub r, effSubvalue c sub = some r → getSubvalue c sub = .ok r)
    ∧ (∀ t i p n subs cd xs sub idx sn d, subNamed subs sub = some (idx, .simple sn d) →
        (xs[idx]? = none ∨ xs[idx]? = some (.str "")) →
        getSubvalue ⟨t, i, p, .list xs, .complex n subs cd⟩ sub = .ok (some d)) := by
  refine ⟨fun c sub r h => effSubvalue_getSubvalue h, ?_⟩
  intro t i p n subs cd xs sub idx sn d hsub hx
  apply effSubvalue_getSubvalue
  unfold effSubvalue
  simp only [hsub]
  rcases hx with hx | hx <;> simp [hx]

example : getSubvalue ⟨4, "URT", none, .list [.str "x", .str ""], exTable⟩ "CP_CanPhysReqId" = .ok (some "2016") := by decide
example : getSubvalue ⟨4, "URT", none, .list [.str "x", .str ""], exTable⟩ "CP_CanRespUSDTId" = .ok (some "2024") := by decide
example : getSubvalue ⟨4, "URT", none, .list [.str "x", .str "7"], exTable⟩ "CP_CanPhysReqId" = .ok (some "7") := by decide

/-! ## typed accessors -/

/-- whenever the specification determines what a typed accessor has to return — the number written in
    the effective (sub-)value of the chosen instance(s) — the accessor returns exactly that -/
theorem C15_accessors (a : Acc) (gc : String → Option Inst) (r : Res)
    (h : specAccessor a gc = some r) : accessor a gc = r :=
  specAccessor_accessor a gc r h

/-- … in particular for the accessors of a layer, whose choice function is `get_comparam(·, protocol)` -/
theorem C15_accessors_layer (a : Acc) (L : Layer) (p : Option String) (r : Res)
    (h : specAccessor a (fun n => getComparam L n p) = some r) : layerAccessor a L p = r :=
  specAccessor_accessor a _ r h

example : specAccessor .canBaudrate (fun n => getComparam exBv n (some "P")) = some (.int 222) := by decide
example : layerAccessor .canBaudrate exBv (some "P") = .int 222 := by decide
example : layerAccessor .canBaudrate exBv (some "Q") = .int 500000 := by decide      -- omitted value: the default
example : layerAccessor .canReceiveId exBv none = .int 2016 := by decide             -- empty sub-value: the default
example : layerAccessor .canSendId exBv none = .int 2024 := by decide                -- missing sub-value: the default
example : layerAccessor .maxCanPayloadSize exBv none = .int 8 := by decide
example : layerAccessor .usesCanFd exBv none = .bool false := by decide

/-- the number an accessor reports for a decimal numeral is the number: `int(str(n)) == n` -/
theorem C15_int_of_decimal (n : Nat) : intRes (Nat.repr n) = .int n := by
  unfold intRes
  rw [pyInt_repr]

example : intRes " 1_000 " = .int 1000 := by decide
example : intRes "0x10" = .err .foreign := by decide
example : microRes "2.5e6" = .micro (.fin false 25 5) := by decide

/-! ## edit histories -/

/-- after any history of edits, `refresh()` calls and lookups that ends with a `refresh()` followed by
    lookups only, the layer object is in exactly the state of an object freshly loaded from the hierarchy
    as it is now — whatever was looked up, edited or refreshed before -/
theorem C15_history_independent (o : LayerObj) (before after : List HistOp)
    (h : ∀ op ∈ after, op.isQuery = true) :
    o.run (before ++ .refresh :: after) = LayerObj.load (o.run before).hier := by
  have hq : ∀ (ops : List HistOp) (x : LayerObj), (∀ op ∈ ops, op.isQuery = true) → x.run ops = x := by
    intro ops
    induction ops with
    | nil => intro x _; rfl
    | cons op ops ih =>
      intro x hx
      have h1 : op.isQuery = true := hx op (List.mem_cons_self ..)
      have h2 : x.step op = x := by
        cases op with
        | query n p => rfl
        | edit L' => cases h1
        | refresh => cases h1
      show (x.step op).run ops = x
      rw [h2]
      exact ih x fun op' hm => hx op' (List.mem_cons_of_mem _ hm)
  unfold LayerObj.run
  rw [List.foldl_append, List.foldl_cons]
  exact hq after _ h

/-- … hence every lookup and every typed accessor answers from the hierarchy as it is now: all the
    theorems above (`C15_most_specific`, `C15_protocol_first`, `C15_accessors_layer`, …) apply to the
    edited hierarchy -/
theorem C15_history_lookup (o : LayerObj) (before after : List HistOp)
    (h : ∀ op ∈ after, op.isQuery = true) (n : String) (p : Option String) (a : Acc) :
    let o' := o.run (before ++ .refresh :: after)
    o'.getComparam n p = getComparam o'.hier n p ∧ LayerObj.accessor a o' p = layerAccessor a o'.hier p := by
  intro o'
  have e : o' = LayerObj.load (o.run before).hier := C15_history_independent o before after h
  rw [e]
  exact ⟨rfl, rfl⟩

/-- lookup, edit (the base variant loses its own definition and the functional-group parent), refresh,
    lookup: the answers are those of the edited hierarchy (the protocol's generic `CP_Baudrate = 99`) -/
example :
    let o := (LayerObj.load exBv).run [.query "CP_Baudrate" (some "Q"), .edit (.mk .baseVariant [] [exProt]), .refresh,
                                       .query "CP_Baudrate" none]
    (o.getComparam "CP_Baudrate" none).map (·.tag) = some 3 ∧ LayerObj.accessor .canBaudrate o none = .int 99 := by decide
/-- without the `refresh()` nothing is promised: the object still answers from the old hierarchy -/
example :
    let o := (LayerObj.load exBv).run [.edit (.mk .baseVariant [] [exProt])]
    (o.getComparam "CP_Baudrate" none).map (·.tag) = some 0 := by decide

/-! ## the pinned commit -/

/-- `get_comparam` as it was at the pinned commit (`cps[0]` of generic-or-specific in dictionary order)
    violates "protocol-specific before generic": the statement of `C15_protocol_first_specific` fails -/
theorem C15_pinned_get_comparam_counterexample :
    ¬ (∀ (L : Layer) (n i q : String) (c : Inst), lookup L (i, some q) = some c → c.name = n →
        ∃ r, getComparamPinned L n (some q) = some r ∧ r.proto = some q) := by
  intro h
  have hname : (lookup exBv ("BR", some "P")).map (·.name) = some "CP_Baudrate" := by decide
  have hpinned : (getComparamPinned exBv "CP_Baudrate" (some "P")).map (·.proto) = some none := by decide
  cases hl : lookup exBv ("BR", some "P") with
  | none => rw [hl] at hname; cases hname
  | some c =>
    rw [hl] at hname
    simp only [Option.map_some, Option.some.injEq] at hname
    obtain ⟨r, hr, hp⟩ := h exBv "CP_Baudrate" "BR" "P" c hl hname
    rw [hr] at hpinned
    simp only [Option.map_some, Option.some.injEq] at hpinned
    rw [hp] at hpinned
    cases hpinned

end OdxVerif.Comparam
