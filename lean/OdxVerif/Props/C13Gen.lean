import OdxVerif.Props.C13
import OdxVerif.Proofs.IsoTpGenEq
/-! # C13 through the function GENERATED from the source (see `Props/C12Gen.lean` for the set-up)

    New with the generated function: "never raises" is a *theorem about the rendered source* — `Gen.decodeRxFrameE`
    lives in `Except Py.Err`, where every Python operation of the subset that can raise (`data[1]` → `IndexError`,
    `bitstruct.unpack` on too little data, arithmetic / `len` / `+=` on `None` → `TypeError`) is an error outcome. -/
namespace OdxVerif.IsoTp
open OdxVerif.Bits (AllBytes)

/-- **Never raises.** Whatever the state of the receive slots and whatever the frame (empty, truncated, stray,
    unknown ID, any PCI nibble): the generated method returns normally. -/
theorem C13_never_raises_gen (st : St) (fr : Nat × Bytes) (hf : AllBytes fr.2) :
    ∃ r, Gen.feedE st fr = .ok r :=
  ⟨_, gen_feedE_eq st fr hf⟩

/-- … and so does its body for any slot state, reachable or not -/
theorem C13_never_raises_slot_gen (s : Slot) (f : Bytes) (hf : AllBytes f) : ∃ r, Gen.decodeRxFrameE s f = .ok r :=
  gen_never_raises s f hf

/-- **Provenance and at-most-once**, for the generated function started in the generated constructor state:
    every reported telegram is explained by frames of the list (see `C13_provenance`). -/
theorem C13_provenance_gen (fs : List Bytes) (hb : ∀ f ∈ fs, AllBytes f) :
    ∃ expls : List Expl,
      expls.map Expl.payload = telegrams (Gen.run Gen.slotInit fs).2 ∧
      (∀ e ∈ expls, ValidExpl fs e) ∧
      (expls.filterMap Expl.ffIndex?).Pairwise (· < ·) := by
  rw [gen_run_eq fs hb, gen_slotInit_eq]
  exact C13_provenance fs

/-- **Recovery**, for the generated function: after any frame history the next well-formed transfer is reassembled -/
theorem C13_recovery_gen (junk : List Bytes) (x : Xfer) (hx : x.ok)
    (hj : ∀ f ∈ junk, AllBytes f) (hf : ∀ f ∈ x.frames, AllBytes f) :
    telegrams (Gen.run (Gen.run Gen.slotInit junk).1 x.frames).2 = [x.p] := by
  rw [gen_run_eq junk hj, gen_run_eq x.frames hf, gen_slotInit_eq]
  exact C13_recovery junk x hx

/-! non-vacuity / regression witnesses through the generated function: stray CF first, empty frame, truncated
    first frame; the stale-buffer replay; the error monad is really exercised by a state the invariant excludes
    only in the model's typing (`none` buffer + consecutive frame = sequence error, not `TypeError`) -/
example : telegrams (Gen.run Gen.slotInit [[0x21, 1, 2, 3], [], [0x10]]).2 = [] := by decide
example : telegrams (Gen.run Gen.slotInit [[0x10, 8, 1,2,3,4,5,6], [0x21, 7,8, 0xAA], [0x22, 9,9,9]]).2
            = [[1,2,3,4,5,6,7,8]] := by decide
example : Gen.decodeRxFrameE {} [0x21, 1, 2] = .ok ({}, [.seqErr 1 1]) := by decide
example : (∀ f ∈ [[0x21, 1, 2, 3], [], [0x10]], AllBytes f) := by decide

end OdxVerif.IsoTp
