import OdxVerif.Props.C01Nested3
import OdxVerif.Props.C03Nested2
import OdxVerif.Proofs.CompCompu3Re
/-! # C03, nested tier, third edition (task W24) — decode → re-encode reproduces the PDU for descriptions with compu-method
    leaves (`Desc3` / `Described3`: LINEAR, TEXTTABLE, DTC-DOP leaves at any depth).  (Separate file; imported nowhere.) -/
namespace OdxVerif.Codec
open OdxVerif.Bits OdxVerif.OdxM OdxVerif.Compu

/- Full statement of C03: see `Props/C03Nested.lean`.  Proved here: the instance where the decoded value tree is a well-formed
   `Desc3`.  "The PDU is described in canonical form" is `hbits` + `hdisj` + `hcover` + `hext` over `Descs3.layout ds` (as in
   `C03_reencode_nested2`); for a compu leaf `hbits` says: the leaf's bits are `Obj.specRepr i` of an INTERNAL value `i` that is
   *canonical for the compu method* — `ConvOk`, i.e. for the three kinds (decidable, `LinLeaf.ok` / `TTLeaf.ok` / `DtcLeaf.ok`):
     * LINEAR: `i` valid, `i2p i = z`, `z` valid and `p2i z = i` (with integer types, no OPEN limit, |slope| ≥ 1 and no rounding
       tie this holds for EVERY valid `i` the object can hold: `C01_linear_leaf_ok`);
     * TEXTTABLE: `i` lies in exactly one scale, whose text `t` occurs in exactly one scale, and that scale's
       COMPU-INVERSE-VALUE / lower limit is `i` itself.  An internal value in the interior of a scale's range is NOT canonical:
       `C03_texttable_interior_not_reproduced` (`22 07` ↦ "hi" ↦ `22 09`); a text carried by two scales decodes and is then
       rejected by the encoder: `C03_texttable_duplicate_text_not_reencodable`;
     * DTC-DOP: the trouble code is known, exactly once.
   `Descs3.full`: every value is supplied as the decoder returns it (a DTC as the DTC object).
   Missing relative to the full statement: what `Described3` lacks (see `Props/C01Nested3.lean`) and the completeness
   direction (that every successfully decoded PDU whose bits are described is such a layout). -/

/-- a parameter containing an END-OF-PDU object is present (then necessarily in last position) -/
def Descs3.endsWithEop (ds : List Desc3) : Bool := Comps.anyEop (Descs3.comps ds)

/-- **C03, nested tier, third edition — with MATCHING-REQUEST-PARAMs** (`C03_reencode_nested2_echo` over `Desc3`): `ds` a
    well-formed request / response to `trig` with its value tree, `pdu` a PDU whose bits are exactly the canonical layout of `ds`
    (compu leaves: the pattern of the internal value).  Then strict `decode` returns `Descs3.decoded ds` (physical values) and
    the cursor `Descs3.endCursor ds`, and strict `encode` of `Descs3.supplied ds` returns the PDU byte for byte, without an
    overlap warning. -/
theorem C03_reencode_nested3_echo (ds : List Desc3) (trig : Option Bytes) (hok : Descs3.ok trig ds) (pdu : Bytes) (hall : AllBytes pdu)
    (hbits : ∀ e ∈ Descs3.layout ds, ∀ j, j < e.bl → getBit pdu (absBit e.pos e.k e.hl (j + e.bp)) = e.raw.testBit j)
    (hdisj : LDisj2 (Descs3.layout ds))
    (hcover : ∀ a, a < 8 * pdu.length → ∃ e ∈ Descs3.layout ds, e.claims a)
    (hext : Descs3.extent ds ≤ pdu.length)
    (hend : Descs3.endsWithEop ds = true → Descs3.endCursor ds = pdu.length) :
    decodeMessage none (Descs3.params ds) pdu true = .ok (.dict (Descs3.decoded ds), Descs3.endCursor ds) ∧
      encodeMessage none (Descs3.params ds) (.dict (Descs3.supplied ds)) trig true = .ok (pdu, 0) := by
  obtain ⟨hm, hw⟩ := descs3_reencode_pure trig ds hok.1 pdu hall hbits ((LDisj2_iff _).mp hdisj) hcover hext
  have henc : encodeMessage none (Descs3.params ds) (.dict (Descs3.supplied ds)) trig true = .ok (pdu, 0) := by
    rw [descs3_encodeMessage trig ds hok, hm, hw]
  refine ⟨?_, henc⟩
  have hcur := descs3_cur_eq trig ds hok.1
  have hdec := C01_roundtrip_nested3 (Descs3.mcs ds) trig (Descs3.describedTop trig ds hok.1) hok.2.2.2.2 hok.2.1 hok.2.2.1
    hok.2.2.2.1 pdu
    (fun h => by
      have h1 : Comps.cur (Descs3.comps ds) 0 0 = Descs3.endCursor ds := hcur
      have h2 := hend h
      exact h1.trans h2) henc
  have hdec' : decodeMessage none (Descs3.params ds) pdu true =
      .ok (.dict (Descs3.decoded ds), Comps.cur (Descs3.comps ds) 0 0) := hdec
  rw [hcur] at hdec'
  exact hdec'

/-- **C03, nested tier, third edition.**  For a fully supplied value tree (`Descs3.full`: an entry for every parameter, a
    compu leaf's supplied value is the decoded one; no MATCHING-REQUEST-PARAM) strict `decode` of the canonical PDU returns
    exactly `V = Descs3.decoded ds`, and strict `encode` of exactly that `V` returns the PDU, without an overlap warning. -/
theorem C03_reencode_nested3 (ds : List Desc3) (trig : Option Bytes) (hok : Descs3.ok trig ds) (hfull : Descs3.full ds)
    (pdu : Bytes) (hall : AllBytes pdu)
    (hbits : ∀ e ∈ Descs3.layout ds, ∀ j, j < e.bl → getBit pdu (absBit e.pos e.k e.hl (j + e.bp)) = e.raw.testBit j)
    (hdisj : LDisj2 (Descs3.layout ds))
    (hcover : ∀ a, a < 8 * pdu.length → ∃ e ∈ Descs3.layout ds, e.claims a)
    (hext : Descs3.extent ds ≤ pdu.length)
    (hend : Descs3.endsWithEop ds = true → Descs3.endCursor ds = pdu.length) :
    decodeMessage none (Descs3.params ds) pdu true = .ok (.dict (Descs3.decoded ds), Descs3.endCursor ds) ∧
      encodeMessage none (Descs3.params ds) (.dict (Descs3.decoded ds)) trig true = .ok (pdu, 0) := by
  have h := C03_reencode_nested3_echo ds trig hok pdu hall hbits hdisj hcover hext hend
  rw [Descs3.supplied_eq_decoded ds hfull] at h
  exact h

/-- the converse: the PDU that strict `encode` makes satisfies the canonicity hypotheses except coverage — provided no
    BYTE-SIZE padding lies over an earlier object -/
theorem C03_encoded_is_canonical3 (ds : List Desc3) (trig : Option Bytes) (hok : Descs3.ok trig ds) (hp : Descs3.padOk ds) (pdu : Bytes)
    (henc : encodeMessage none (Descs3.params ds) (.dict (Descs3.supplied ds)) trig true = .ok (pdu, 0)) :
    (∀ e ∈ Descs3.layout ds, ∀ j, j < e.bl → getBit pdu (absBit e.pos e.k e.hl (j + e.bp)) = e.raw.testBit j) ∧
    LDisj2 (Descs3.layout ds) ∧ Descs3.extent ds ≤ pdu.length := by
  obtain ⟨h1, _, h4⟩ := C02_bit_exact_nested3 ds trig hok pdu henc
  exact ⟨(h1 hp).1, (h1 hp).2, by omega⟩

/-- the leaf kinds: a LINEAR / TEXTTABLE leaf is always "full"; a DTC leaf when the DTC object is what is supplied -/
theorem LinLeaf.desc_full (l : LinLeaf) : l.desc.full := by simp [LinLeaf.desc, Desc3.full]
theorem TTLeaf.desc_full (l : TTLeaf) : l.desc.full := by simp [TTLeaf.desc, Desc3.full]
theorem DtcLeaf.desc_full (l : DtcLeaf) : (l.desc (.dtc l.code)).full := by simp [DtcLeaf.desc, Desc3.full]
theorem LinLeaf.constDesc_full (l : LinLeaf) : (l.constDesc true).full := by simp [LinLeaf.constDesc, Desc3.full]
theorem TTLeaf.constDesc_full (l : TTLeaf) : (l.constDesc true).full := by simp [TTLeaf.constDesc, Desc3.full]
theorem DtcLeaf.constDesc_full (l : DtcLeaf) : (l.constDesc true).full := by simp [DtcLeaf.constDesc, Desc3.full]

/-! ### non-vacuity: the message of `Props/C01Nested3.lean` as a decoded value tree
    [ sid = 0x22; df : DYNAMIC-LENGTH-FIELD of { w : { x : LINEAR 1 + 5·i } }; mode : TEXTTABLE; err : DTC-DOP; kind : PHYS-CONST "lo" ]
    PDU `22 02 04 03 09 12 34 56 00` ↦ { sid: 0x22, df: [{w:{x:21}}, {w:{x:16}}], mode: "hi", err: DTC 0x123456, kind: "lo" } ↦ the PDU -/
def exRe7 : List Desc3 :=
  [.const ⟨"sid", none, none, none, true, 8, .uint32⟩ (.int 0x22) true,
   .dynLenField "df" none ex7Lay none (Descs3.params (b7Item 21 4)) [b7Item 21 4, b7Item 16 3],
   ex7Mode.desc, ex7Err.desc (.dtc 0x123456), ex7Kind.constDesc true]

example : Descs3.decoded exRe7 =
    [("sid", .atom (.int 0x22)),
     ("df", .list [.dict [("w", .dict [("x", .atom (.int 21))])], .dict [("w", .dict [("x", .atom (.int 16))])]]),
     ("mode", .atom (.str [0x68, 0x69])), ("err", .dtc 0x123456), ("kind", .atom (.str [0x6c, 0x6f]))] := rfl

theorem exRe7_ok : Descs3.ok none exRe7 := by
  refine ⟨⟨?_, ?_, ex7Mode.desc_wf ex7Mode_ok, ex7Err.desc_wf ex7Err_ok _ rfl, ex7Kind.constDesc_wf ex7Kind_ok true, trivial⟩,
    ?_, ⟨rfl, rfl, rfl, rfl, trivial⟩, rfl, by decide⟩
  · show Desc3.wf (.const ⟨"sid", none, none, none, true, 8, .uint32⟩ (.int 0x22) true)
    simp only [Desc3.wf]
    exact ⟨by simp [Obj.ok, Obj.encOk, Obj.sizeOk], by simp [Obj.inRange]⟩
  · show Desc3.wf (.dynLenField "df" none ex7Lay none _ [b7Item 21 4, b7Item 16 3])
    simp only [Desc3.wf, Descss3.wf, Descss3.mcss]
    refine ⟨⟨b7Item_wf _ _ ex7X_ok1, b7Item_wf _ _ ex7X_ok2, trivial⟩, mem2 _ _ ?_ ?_, ⟨?_, ?_, by decide⟩⟩
    · exact ⟨⟨rfl, namesOk1 _, rfl, fun _ h => nomatch h⟩, by decide⟩
    · exact ⟨⟨rfl, namesOk1 _, rfl, fun _ h => nomatch h⟩, by decide⟩
    · simp [ex7Lay, DynLayout.cntObj, Obj.ok, Obj.encOk, Obj.sizeOk]
    · simp [ex7Lay, DynLayout.cntObj, Obj.inRange]
  · simp [Comps.namesOk, exRe7, Descs3.comps, Descs3.mcs, Desc3.mc, MComps.cs, Comp.name, Param.name, Comp.ofObjConst,
      Obj.toConstParam, Comp.ofValue, TTLeaf.desc, TTLeaf.constDesc, DtcLeaf.desc, Comp.ofConvLeaf, Comp.ofConvPhysConst,
      ex7Mode, ex7Kind, ex7Err]

theorem exRe7_full : Descs3.full exRe7 := by
  simp [exRe7, b7Item, Descs3.full, Desc3.full, Descss3.full, LinLeaf.desc, TTLeaf.desc, TTLeaf.constDesc, DtcLeaf.desc, ex7Err]

theorem exRe7_disj : LDisj2 (Descs3.layout exRe7) := by
  obtain ⟨pdu, w, h, _, hiff⟩ := C02_overlap_iff_nested3 exRe7 none exRe7_ok
  have h0 : encodeMessage none (Descs3.params exRe7) (.dict (Descs3.supplied exRe7)) none true = .ok (ex7Pdu, 0) :=
    Except.eq_ok_of_toOption (by decide +kernel)
  rw [h0] at h
  simp only [Except.ok.injEq, Prod.mk.injEq] at h
  exact (hiff (Descs3.padOk_of_noSizePadding _ (by decide +kernel))).mp h.2.symm

/-- the theorem applies: strict decode of `22 02 04 03 09 12 34 56 00` returns the physical values and consumes the 9 bytes;
    strict encode of exactly the decoded dictionary returns the PDU -/
example : decodeMessage none (Descs3.params exRe7) ex7Pdu true = .ok (.dict (Descs3.decoded exRe7), 9) ∧
    encodeMessage none (Descs3.params exRe7) (.dict (Descs3.decoded exRe7)) none true = .ok (ex7Pdu, 0) :=
  C03_reencode_nested3 exRe7 none exRe7_ok exRe7_full ex7Pdu (by unfold AllBytes ex7Pdu; decide) (by decide +kernel) exRe7_disj
    (by decide +kernel) (by decide +kernel) (fun _ => by decide +kernel)

/-! ### the excluded points — model = odxtools at each of them (run on /repo, see design_notes/C03.md, W24) -/

/-- **TEXTTABLE, an internal value in the interior of a scale's range is not canonical** (`TTLeaf.ok` clause `p2i text = i`):
    scales 0..3 ↦ "lo", 4..9 ↦ "hi" with COMPU-INVERSE-VALUE 9.  `22 07` — every bit described, 7 a valid internal value —
    decodes to {sid: 0x22, mode: "hi"}; strict encode of exactly that returns `22 09`.  (Without COMPU-INVERSE-VALUE: the
    lower limit, `22 04`.)  Inherent: the conversion is not injective, which the statement of C03 excludes. -/
theorem C03_texttable_interior_not_reproduced :
    let ps : List Param := [.mk "sid" none none (.codedConst (.std .uint32 none true 8 none false) (.int 0x22)),
      .mk "mode" none none (.value (.simple (.std .uint32 none true 8 none false) .unicode2 (.texttable ex7TScales)) none)]
    (decodeMessage none ps [0x22, 0x07] true).toOption.map (fun r => pvalEq r.1
      (.dict [("sid", .atom (.int 0x22)), ("mode", .atom (.str [0x68, 0x69]))])) = some true ∧
    (encodeMessage none ps (.dict [("sid", .atom (.int 0x22)), ("mode", .atom (.str [0x68, 0x69]))]) none true).toOption
      = some ([0x22, 0x09], 0) := by
  constructor <;> decide +kernel

/-- **TEXTTABLE, a text carried by two scales: the decoded dictionary is rejected by the encoder** (`TTLeaf.ok` clause
    `p2i text = i`, "the ONE scale with this text"): scales 1 ↦ "on", 2 ↦ "on".  `01` decodes to {x: "on"}; strict encode of
    exactly that raises EncodeError ("Texttable could not uniquely encode 'on'") — in non-strict mode the FIRST matching scale
    is used (`01`; so `02` would re-encode to `01`). -/
theorem C03_texttable_duplicate_text_not_reencodable :
    (decodeMessage none exTTDupParams [0x01] true).toOption.map (fun r => pvalEq r.1 (.dict [("x", .atom (.str [0x6f, 0x6e]))]))
      = some true ∧
    (decodeMessage none exTTDupParams [0x02] true).toOption.map (fun r => pvalEq r.1 (.dict [("x", .atom (.str [0x6f, 0x6e]))]))
      = some true ∧
    failsWith (encodeMessage none exTTDupParams (.dict [("x", .atom (.str [0x6f, 0x6e]))]) none true) .encode = true := by
  refine ⟨?_, ?_, ?_⟩ <;> decide +kernel

end OdxVerif.Codec
