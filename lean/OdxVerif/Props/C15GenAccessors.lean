import OdxVerif.Props.C15GenLookup
import OdxVerif.Proofs.ComparamAccessorsGenEq
/-! # C15 — six typed accessors through the functions GENERATED from the source (task W28)

    `Gen.getCanFuncReqIdE`, `Gen.getDoipLogicalGatewayAddressE`, `Gen.getDoipLogicalTesterAddressE`,
    `Gen.getDoipLogicalFunctionalAddressE`, `Gen.getDoipRoutingActivationTypeE` (`Gen/ComparamAccessors.lean`) are regenerated from
    `odxtools/diaglayers/hierarchyelement.py` on every run of C15; they call the GENERATED `Gen.getComparamE` (`Gen/GetComparam.lean`).
    `toRes` reads a Python outcome as the model's `Res` (`OdxError` ↔ `.odx`, any other exception ↔ `.foreign`). -/
namespace OdxVerif.Comparam
open OdxVerif

/-- **Tie.** On every layer and for every `protocol` argument (None, a name, a `Protocol` object) each of the five rendered accessors
    is the model's accessor of that layer at the normalised protocol name: same value, same `None`, same exception class -/
theorem C15_gen_accessors_int (L : Layer) (p : Option Gen.ProtoArg) :
    toRes (Gen.getCanFuncReqIdE (available L) p) = layerAccessor .canFuncReqId L (protoName p)
    ∧ toRes (Gen.getDoipLogicalGatewayAddressE (available L) p) = layerAccessor .doipLogicalGatewayAddress L (protoName p)
    ∧ toRes (Gen.getDoipLogicalTesterAddressE (available L) p) = layerAccessor .doipLogicalTesterAddress L (protoName p)
    ∧ toRes (Gen.getDoipLogicalFunctionalAddressE (available L) p) = layerAccessor .doipLogicalFunctionalAddress L (protoName p)
    ∧ toRes (Gen.getDoipRoutingActivationTypeE (available L) p) = layerAccessor .doipRoutingActivationType L (protoName p) :=
  ⟨gen_canFuncReqId_eq _ p, gen_doipLogicalGatewayAddress_eq _ p, gen_doipLogicalTesterAddress_eq _ p,
   gen_doipLogicalFunctionalAddress_eq _ p, gen_doipRoutingActivationType_eq _ p⟩

/-- … hence whenever the specification determines the answer of such an accessor (`specAccessor`, `C15_accessors_layer`), the
    generated function gives that answer -/
theorem C15_gen_accessors_spec (L : Layer) (p : Option Gen.ProtoArg) (r : Res)
    (h : specAccessor .canFuncReqId (fun n => getComparam L n (protoName p)) = some r) :
    toRes (Gen.getCanFuncReqIdE (available L) p) = r := by
  rw [(C15_gen_accessors_int L p).1]; exact C15_accessors_layer _ L _ r h

/-- **Tie.** `get_can_baudrate` on every layer, for every `protocol` argument: the model's accessor (a complex value of `CP_Baudrate`
    is answered with `None`, an omitted value with the default of the specification) -/
theorem C15_gen_can_baudrate (L : Layer) (p : Option Gen.ProtoArg) :
    toRes (Gen.getCanBaudrateE (available L) p) = layerAccessor .canBaudrate L (protoName p) :=
  gen_canBaudrate_eq _ p

example : Gen.getCanBaudrateE (available exBv) (some (.name "P")) = .ok (some 222) := by decide
example : Gen.getCanBaudrateE (available exBv) (some (.layer "Q")) = .ok (some 500000) := by decide    -- omitted value: the default
example : Gen.getCanBaudrateE [⟨0, "BR", none, .list [.str "1"], exSpec⟩] none = .ok none := by decide  -- complex value: None, no exception

/-- a functional group with a functional request id for protocol `P` (value given), a generic one (value omitted: the default), a
    gateway address that is no number and a routing activation type given as a complex value -/
def exAcc : Layer := .mk .functionalGroup
  [⟨0, "FR", none, .str "", .simple "CP_CanFuncReqId" "2015"⟩, ⟨1, "FR", some "P", .str "0x7DF", .simple "CP_CanFuncReqId" "2015"⟩,
   ⟨2, "GW", none, .str "abc", .simple "CP_DoIPLogicalGatewayAddress" "1"⟩,
   ⟨3, "RT", none, .list [.str "1"], .simple "CP_DoIPRoutingActivationType" "0"⟩] []

example : Gen.getCanFuncReqIdE (available exAcc) none = .ok (some 2015) := by decide
example : Gen.getCanFuncReqIdE (available exAcc) (some (.name "Q")) = .ok (some 2015) := by decide      -- generic fall-back, default value
example : Gen.getCanFuncReqIdE (available exAcc) (some (.layer "P")) = .error .foreign := by decide     -- int("0x7DF"): ValueError
example : Gen.getDoipLogicalGatewayAddressE (available exAcc) none = .error .foreign := by decide       -- int("abc")
example : Gen.getDoipRoutingActivationTypeE (available exAcc) none = .error .odxError := by decide      -- get_value() of a complex value
example : Gen.getDoipLogicalTesterAddressE (available exAcc) none = .ok none := by decide               -- no such parameter
example : specAccessor .canFuncReqId (fun n => getComparam exAcc n (protoName none)) = some (.int 2015) := by decide

end OdxVerif.Comparam
