import OdxVerif.Proofs.NilOps
/-! # C16 — NamedItemList keeps its list view and its name view consistent
    Property theorems only; lemmas live in `Proofs/Nil.lean`, `Proofs/NilOps.lean`; the invariant `Inv`,
    the abstract list semantics `absList` and `raises` are defined in `Spec/Nil.lean`.
    All theorems hold for every keyword table and every reserved-name set (`env`), every history. -/
namespace OdxVerif.Nil

/-- a fresh list is consistent and empty -/
theorem C16_init (env : Env) : Inv env State.empty ∧ State.empty.items = absList [] :=
  ⟨inv_empty env, rfl⟩

/-- every operation (append, insert, extend, remove, pop, clear, copy(), copy.copy, deepcopy, pickle) preserves
    the invariant and changes the list exactly like the same operation on a plain list -/
theorem C16_step (env : Env) (s : State) (op : Op) (h : Inv env s) :
    Inv env (step env s op).1 ∧ (step env s op).1.items = absStep s.items op :=
  ⟨(step_spec env s op h).1, (step_spec env s op h).2.1⟩

/-- after **any** history, for **any** reserved-name set and keyword table: the state is consistent and the
    list holds the items in the order given by plain list semantics -/
theorem C16_reachable (env : Env) (ops : List Op) :
    Inv env (run env ops) ∧ (run env ops).items = absList ops :=
  fold_spec env ops State.empty [] (C16_init env).1 rfl

/-- the collision loop always terminates within the model's fuel: no step of any history diverges -/
theorem C16_never_diverges (env : Env) (ops : List Op) (op : Op) :
    (step env (run env ops) op).2 ≠ .diverged := by
  rcases (step_spec env _ op (C16_reachable env ops).1).2.2 with ⟨h, _⟩ | ⟨h, _⟩ <;> rw [h] <;> decide

/-- an operation raises exactly when the same operation on a plain list (of nameable items) raises -/
theorem C16_raises_iff (env : Env) (ops : List Op) (op : Op) :
    (step env (run env ops) op).2 = .raised ↔ raises (absList ops) op := by
  have h := (step_spec env _ op (C16_reachable env ops).1).2.2
  rw [(C16_reachable env ops).2] at h
  rcases h with ⟨h, hn⟩ | ⟨h, hr⟩
  · rw [h]; exact ⟨fun e => (by cases e), fun e => absurd e hn⟩
  · exact ⟨fun _ => hr, fun _ => h⟩

/-- what the invariant gives an observer: every list item is reachable under a name, as key and as attribute
    (the attribute is the item, not a method of the list); every name refers to an item of the list and has
    the prescribed shape; as many names as list positions -/
theorem C16_views (env : Env) (s : State) (h : Inv env s) :
    (∀ it ∈ s.items, ∃ k, lookup s.names k = some it ∧ getattr env s k = .item it) ∧
    (∀ k it, lookup s.names k = some it →
        it ∈ s.items ∧ getattr env s k = .item it ∧ k ∉ env.reserved ∧ IsKeyFor env.kw k it) ∧
    s.names.length = s.items.length := by
  have hget : ∀ k it, (k, it) ∈ s.names → lookup s.names k = some it ∧ getattr env s k = .item it := by
    intro k it hm
    have hl := lookup_of_mem h.keysNodup hm
    have hr : k ∉ env.reserved := h.notReserved _ hm
    exact ⟨hl, by simp [getattr, hl, hr]⟩
  refine ⟨?_, ?_, ?_⟩
  · intro it hit
    obtain ⟨kv, hkv, rfl⟩ := List.mem_map.1 (h.perm.mem_iff.2 hit)
    exact ⟨kv.1, hget kv.1 kv.2 hkv⟩
  · intro k it hl
    have hm := mem_of_lookup hl
    exact ⟨h.perm.mem_iff.1 (List.mem_map_of_mem (f := (·.2)) hm), (hget k it hm).2, h.notReserved _ hm, h.shape _ hm⟩
  · simpa using h.perm.length_eq

/-- when the list holds every object at most once, every item has exactly one name -/
theorem C16_unique_name (env : Env) (s : State) (h : Inv env s) (hnd : s.items.Nodup) :
    ∀ it ∈ s.items, ∃ k, lookup s.names k = some it ∧ ∀ k', lookup s.names k' = some it → k' = k := by
  intro it hit
  obtain ⟨k, hk, _⟩ := (C16_views env s h).1 it hit
  refine ⟨k, hk, fun k' hk' => ?_⟩
  have hv : (s.names.map (·.2)).Nodup := h.perm.nodup_iff.2 hnd
  have key : ∀ (d : Dict), (d.map (·.2)).Nodup → (k, it) ∈ d → (k', it) ∈ d → k' = k := by
    intro d
    induction d with
    | nil => intro _ h1; cases h1
    | cons c r ih =>
      intro hn h1 h2
      simp only [List.map_cons, List.nodup_cons] at hn
      rcases List.mem_cons.1 h1 with e1 | h1' <;> rcases List.mem_cons.1 h2 with e2 | h2'
      · rw [← e1] at e2; exact (Prod.mk.inj e2).1
      · exact absurd (e1 ▸ List.mem_map_of_mem (f := (·.2)) h2') hn.1
      · exact absurd (e2 ▸ List.mem_map_of_mem (f := (·.2)) h1') hn.1
      · exact ih hn.2 h1' h2'
  exact key s.names hv (mem_of_lookup hk) (mem_of_lookup hk')

/-- identifier safety of every key: it is not empty, does not start with a digit and is not a keyword —
    provided no keyword starts with `_` or contains a digit (checked for `keyword.kwlist` on every run) -/
theorem C16_key_safe (env : Env) (s : State) (h : Inv env s)
    (hkw1 : ∀ k ∈ env.kw, k.head? ≠ some '_') (hkw2 : ∀ k ∈ env.kw, ∀ c ∈ k, c.isDigit = false) :
    ∀ kv ∈ s.names, (∃ c, kv.1.head? = some c ∧ c.isDigit = false) ∧ kv.1 ∉ env.kw := by
  intro kv hkv
  obtain ⟨base, n, hb, _, hc⟩ := h.shape kv hkv
  -- the escaped short name
  have hbase : (∃ c, base.head? = some c ∧ c.isDigit = false) ∧ base ∉ env.kw := by
    cases hsn : kv.2.sn with
    | nil => rw [hsn] at hb; cases hb
    | cons c cs =>
      rw [hsn] at hb
      simp only [itemKey] at hb
      split at hb
      · cases hb
        exact ⟨⟨'_', rfl, by decide⟩, fun hm => hkw1 _ hm rfl⟩
      · rename_i hcond
        cases hb
        simp only [Bool.or_eq_true, not_or, Bool.not_eq_true] at hcond
        refine ⟨⟨c, rfl, hcond.1⟩, fun hm => ?_⟩
        have : (env.kw.contains (c :: cs)) = true := by simpa using hm
        rw [this] at hcond
        exact absurd hcond.2 (by decide)
  rw [hc]
  unfold cand
  split
  · exact hbase
  · obtain ⟨⟨c, hc1, hc2⟩, _⟩ := hbase
    have hhead : ∀ t : Name, (base ++ t).head? = some c := by
      intro t; cases base with
      | nil => cases hc1
      | cons a r => simpa using hc1
    obtain ⟨dg, hdg⟩ := List.exists_mem_of_ne_nil _ (Nat.toDigits_ne_nil (n := n) (b := 10))
    have hdig : dg.isDigit = true := Nat.isDigit_of_mem_toDigits (by decide) (by decide) hdg
    refine ⟨⟨c, ?_, hc2⟩, fun hm => ?_⟩
    · unfold suffixed; split <;> exact hhead _
    · have hmem : dg ∈ suffixed base n := by
        unfold suffixed; split <;> simp [hdg]
      rw [hkw2 _ hm dg hmem] at hdig
      cases hdig

/-! ## non-vacuity: concrete instances -/

private def envEx : Env := ⟨["class".toList, "for".toList], ["append".toList, "keys".toList, "_item_dict".toList]⟩
private def a1 : Item := ⟨1, "x".toList, 1⟩
private def a2 : Item := ⟨2, "x".toList, 1⟩      -- equal to a1, another object
private def cl : Item := ⟨3, "class".toList, 2⟩
private def ap : Item := ⟨4, "append".toList, 3⟩
private def d1 : Item := ⟨5, "1st".toList, 4⟩
private def histEx : List Op :=
  [.append a1, .append a2, .append cl, .extend [ap, d1, a1], .remove a2, .pop (-1), .deepcopy 1000, .insert 0 a2]

/-- the model computes the expected names: collisions, escapes, removal by identity, re-naming on deep copy -/
example : (run envEx histEx).names.map (fun kv => (String.ofList kv.1, kv.2.oid)) =
    [("x", 1002), ("_class", 1003), ("append_2", 1004), ("_1st", 1005), ("x_2", 2)] := by decide
example : (run envEx histEx).items.map (·.oid) = [2, 1002, 1003, 1004, 1005] := by decide
/-- the hypotheses of `C16_step` hold at a non-trivial state, and the step changes it -/
example : Inv envEx (run envEx histEx) := (C16_reachable envEx histEx).1
example : (step envEx (run envEx histEx) (.remove a1)).1.items.map (·.oid) = [1002, 1003, 1004, 1005] := by decide
/-- removing one of two equal items keeps the other one's name (the defect of the unfixed code) -/
example : (run envEx [.append a1, .append a2, .remove a1]).names.map (fun kv => (String.ofList kv.1, kv.2.oid)) = [("x_2", 2)] := by
  decide
/-- raising operations exist (`C16_raises_iff` is not vacuous) -/
example : (step envEx (run envEx histEx) (.pop 7)).2 = .raised := by decide
example : (step envEx (run envEx histEx) (.remove ⟨9, "zz".toList, 9⟩)).2 = .raised := by decide
/-- the hypotheses of `C16_key_safe` hold for the example keyword table -/
example : (∀ k ∈ envEx.kw, k.head? ≠ some '_') ∧ (∀ k ∈ envEx.kw, ∀ c ∈ k, c.isDigit = false) := by decide
/-- the defect of the pinned commit, in the model of the unfixed `remove`: from a consistent state with two equal
    items, removing one leaves a list item without any name -/
theorem C16_unfixed_counterexample :
    ∃ (env : Env) (s s' : State) (x : Item), Inv env s ∧ removeUnfixed s x = .ok s' ∧ ¬ Inv env s' ∧
      s'.items = [a2] ∧ s'.names = [] := by
  refine ⟨envEx, run envEx [.append a1, .append a2], ⟨[a2], []⟩, a1, (C16_reachable _ _).1, by rfl, ?_, rfl, rfl⟩
  intro h
  have := h.perm.length_eq
  simp at this

/-- `C16_unique_name` applies to a non-trivial state -/
example : (run envEx histEx).items.Nodup := by decide

end OdxVerif.Nil
