import OdxVerif.Proofs.SimMarkerAll
/-! # C17 — the decode theorem with the end-marker probe
    `C17_same_result_decode` (`Props/C17.lean`) excludes every description with a DYNAMIC-ENDMARKER-FIELD, because the probe
    for the termination value (`try: tv = dyn_end_dop.decode() except DecodeError: pass`) is the one catch site inside the
    decoder.  Here: the condition on the termination DOP under which the probe behaves identically in both modes, the decode
    theorem for that class, and a counterexample for the class where it fails. -/
namespace OdxVerif.Codec
open OdxVerif.OdxM OdxVerif.Bits

/-- **The probe condition.**  A termination DOP that is a standard-length object of a non-string type (integer, float, byte
    field; bit mask allowed) behind an IDENTICAL compu method can only fail *hard*: whenever its decoding raises
    `DecodeError`/`DecodeMismatch` in strict mode (not enough bytes left, a byte field / integer of an impossible width, a
    condensed mask that does not fit) it raises the identical error, in the identical state, in lenient mode — it is a plain
    `raise`, not an `odxraise` — and whenever it returns in strict mode it returns the same in lenient mode. -/
theorem C17_marker_probe_hard (fuel : Nat) (td : Dop) (h : td.probeSafe = true) (s : DecState) :
    (∀ r, decodeDop fuel td s true = .ok r → decodeDop fuel td s false = .ok r) ∧
    (∀ e s', decodeDop fuel td s true = .error (e, s') → (e = .decode ∨ e = .mismatch) → decodeDop fuel td s false = .error (e, s')) :=
  hard_probe fuel td h s

/-- the general form: the probe's handler is harmless for ANY body that can only fail hard (`Hard`, closed under the
    combinators of the model except `odxraise` of a caught class) -/
theorem C17_marker_catch_site {σ α : Type} (m : OdxM σ α) (h : Err → OdxM σ α) (hm : Hard m) (hh : ∀ e, Sim (h e)) :
    Sim (tryCatch m (fun e => e = .decode ∨ e = .mismatch) h) :=
  sim_tryCatch_hard m _ h hm hh (fun e he => by simpa [Caught] using he)

/-- **Decoding, DYNAMIC-ENDMARKER-FIELDs included** — partial: every end-marker field of the description (at any depth) has a
    `probeSafe` termination DOP (`paramsMarkerSafe`; descriptions without end-marker fields qualify trivially).  Whenever
    `Request.decode` / `Response.decode` succeeds in strict mode, the lenient run returns the identical result.
    NOT covered (and false, see below): termination DOPs of a string type; not attempted: termination DOPs behind
    LINEAR / TEXTTABLE compu methods, MIN-MAX / LEADING-LENGTH / PARAM-LENGTH termination objects, complex termination DOPs. -/
theorem C17_same_result_decode_marker_partial (bs : Option Nat) (ps : List Param) (hms : paramsMarkerSafe ps = true) (msg : Bytes)
    (r : PVal × Nat) (h : decodeMessage bs ps msg true = .ok r) : decodeMessage bs ps msg false = .ok r := by
  unfold decodeMessage at h ⊢
  have hs := (sim_decode_all_marker modelFuel).1 (.struct bs ps) (by simpa [Dop.markerSafe] using hms)
  unfold Sim at hs
  cases hm : decodeDop modelFuel (.struct bs ps) { msg := msg } true with
  | error e => rw [hm] at h; cases h
  | ok p =>
    rw [hm] at h
    rw [hs _ p hm]
    exact h

/-- the class contains every description `C17_same_result_decode` covers (no DYNAMIC-ENDMARKER-FIELD at all) -/
theorem C17_marker_subsumes (ps : List Param) (h : paramsMarkerFree ps = true) : paramsMarkerSafe ps = true :=
  params_safe_of_free ps h

/-! ### non-vacuity: an end-marker field with an 8-bit unsigned termination DOP (termination value 0xff) -/

def mU8 : Dop := .simple (.std .uint32 none true 8 none false) .uint32 .identical
def mItem : Dop := .struct none [.mk "a" none none (.value mU8 none)]
def mReq : List Param := [.mk "f" none none (.value (.endMarkerField (.int 0xff) mU8 mItem) none)]

example : paramsMarkerSafe mReq = true := by decide
example : paramsMarkerFree mReq = false := by decide
/-- `01 02 ff`: two items, then the end marker (not consumed) -/
theorem mReq_strict : decodeMessage none mReq [0x01, 0x02, 0xff] true =
    .ok (.dict [("f", .list [.dict [("a", .atom (.int 1))], .dict [("a", .atom (.int 2))]])], 2) := by rfl
example : decodeMessage none mReq [0x01, 0x02, 0xff] false =
    .ok (.dict [("f", .list [.dict [("a", .atom (.int 1))], .dict [("a", .atom (.int 2))]])], 2) :=
  C17_same_result_decode_marker_partial none mReq (by decide) _ _ mReq_strict

/-! ### the class where strict and lenient differ: a termination DOP of a string type -/

def mUtf8 : Dop := .simple (.std .utf8 none true 8 none false) .utf8 .identical
/-- the same field, terminated by the one-character UTF-8 string U+FFFD -/
def mReqText : List Param := [.mk "f" none none (.value (.endMarkerField (.str [0xFFFD]) mUtf8 mItem) none)]

/-- **Counterexample (open finding `end-marker-replacement-char`).**  PDU `ff`: in strict mode the probe reads the byte `ff`,
    which is not UTF-8 — `odxraise(DecodeError)`, swallowed by the `except DecodeError` of the loop: "not the end marker", the
    byte is decoded as an item and `decode` returns one item.  In lenient mode the same `odxraise` does not raise: odxtools goes on
    with `errors="replace"`, the probe yields U+FFFD = the termination value, and `decode` returns NO item (the model does not
    follow the replacement decoding and answers `unmodelled`) — either way not the strict result: the first sentence of C17
    fails for this description, and `C17_same_result_decode_marker_partial` cannot be extended to string termination DOPs. -/
theorem C17_marker_text_counterexample :
    decodeMessage none mReqText [0xff] true = .ok (.dict [("f", .list [.dict [("a", .atom (.int 255))]])], 1) ∧
    decodeMessage none mReqText [0xff] false = .error .unmodelled ∧
    (∃ r, decodeMessage none mReqText [0xff] true = .ok r ∧ decodeMessage none mReqText [0xff] false ≠ .ok r) ∧
    ¬ Hard (decodeDop 1 mUtf8) := by
  have h1 : decodeMessage none mReqText [0xff] true = .ok (.dict [("f", .list [.dict [("a", .atom (.int 255))]])], 1) := by rfl
  have h2 : decodeMessage none mReqText [0xff] false = .error .unmodelled := by rfl
  refine ⟨h1, h2, ⟨_, h1, by rw [h2]; intro h; cases h⟩, ?_⟩
  intro hh
  have hs : decodeDop 1 mUtf8 { msg := [0xff] } true = .error (.decode, { msg := [0xff] }) := by rfl
  have := (hh { msg := [0xff] }).2 _ _ hs (.inl rfl)
  have hl : decodeDop 1 mUtf8 { msg := [0xff] } false = .error (.unmodelled, { msg := [0xff] }) := by rfl
  rw [hl] at this
  cases this

end OdxVerif.Codec
