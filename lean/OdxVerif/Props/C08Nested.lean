import OdxVerif.Props.C04Nested
import OdxVerif.Proofs.CompStatic
/-! # C08 on the compositional nested tier — static length and required parameters
    (Separate module: it rests on `Proofs/FieldTierPure.lean`, which cannot be imported together with
    `Proofs/StructStatic.lean` of `Props/C08Struct.lean` — both define `Trees.enc_cursor`; audited on its own.)

    **Static length.** `Dop.staticBitLen` / `paramsStaticLen` (= `composite_codec_get_static_bit_length`) answer `none` as soon
    as one parameter is typed by a field or a multiplexer (`C08_fields_no_static_length`) — at any depth, since a structure
    containing such a parameter has no static length itself.  The described descriptions that DO have a static length are the
    static ones (`StaticP`): VALUE (integer kinds) with or without PHYSICAL-DEFAULT-VALUE, CODED-CONST, PHYS-CONST leaves and
    structures of static descriptions.  `C08_static_length_nested_partial`: under the side condition `Trees.cursorOkS` of
    `C08_static_length_struct_partial` (which excludes exactly the two open findings
    `nested-structure-cursor-behind-last-listed-parameter` and `empty-nested-structure-static-length`) every accepted encoding —
    whatever was supplied, defaults used or not, constants supplied or not — has `8 * pdu.length` = the static bit length.
    `_partial`: VALUE leaves of the integer kinds; BYTE-SIZE structures are outside.

    **Required parameters** (`Parameter.is_required`: VALUE without PHYSICAL-DEFAULT-VALUE; at every depth, including inside
    field items and the selected multiplexer case): `C08_required_iff_not_omittable` — a described parameter can be omitted iff
    it is not required; `C08_required_nested` / `C08_required_nested_depth` — omitting a required one (top level, nested
    dictionary, field item, multiplexer content) makes strict `encode` fail with a library error; `C08_not_required_nested` —
    omitting parameters that are not required from an accepted dictionary leaves it accepted.  Both directions. -/
namespace OdxVerif.Codec
open OdxVerif.Bits OdxVerif.OdxM

/-- **C08, static length, nested tier.** `ps` = static described parameters with the tier-2 shape `ts` (`StaticP`, pointwise),
    `cursorOkS` on the shape; any supplied value: if strict `encode` returns a PDU, the reported static bit length is
    8 × its length. -/
theorem C08_static_length_nested_partial (ps : List PDesc) (ts : List Tree) (hlen : ps.length = ts.length)
    (hs : ∀ (i : Nat) (h1 : i < ps.length) (h2 : i < ts.length), StaticP ps[i] ts[i]) (hn : PDescs.namesOk ps)
    (hc : Trees.cursorOkS ts = true) (pv : PVal) (trig : Option Bytes) (hneed : pv.needFor ps ≤ modelFuel)
    (pdu : Bytes) (w : Nat) (henc : encodeMessage none (PDescs.toParams ps) pv trig true = .ok (pdu, w)) :
    (Dop.struct none (PDescs.toParams ps)).staticBitLen = some (8 * pdu.length) :=
  static_length_nested ps ts hlen hs hn hc pv trig hneed pdu w henc

/-- the static computation of the model on static described parameters is the pure function `Trees.statS` of the shape -/
theorem C08_static_value_nested (ps : List PDesc) (ts : List Tree) (hlen : ps.length = ts.length)
    (hs : ∀ (i : Nat) (h1 : i < ps.length) (h2 : i < ts.length), StaticP ps[i] ts[i]) :
    (Dop.struct none (PDescs.toParams ps)).staticBitLen = some (8 * Trees.statS ts 0 0) := by
  have hlist := StaticPs.of_pointwise ps ts hlen (fun i h1 h2 => (hs i h1 h2).sound)
  simp only [Dop.staticBitLen, hlist.2.static_eq, Option.map_some]

/-- **fields and multiplexers have no static length** — and neither has anything that contains one -/
theorem C08_fields_no_static_length (ps : List PDesc) (p : PDesc) (hp : p ∈ ps) (h : p.param.kind.staticBitLen = none) :
    (Dop.struct none (PDescs.toParams ps)).staticBitLen = none := by
  simp only [Dop.staticBitLen, paramsStaticLen_none_of_mem (PDescs.toParams ps) p.param (List.mem_map.mpr ⟨p, hp, rfl⟩) h 0 0,
    Option.map_none]

/-- the four complex DOPs without static length, as parameter descriptions -/
theorem C08_field_kinds_none (name : String) (bp : Option Nat) (count n : Nat) (l : DynLayout) (mn mx : Option Nat) (item : DDesc)
    (m : MuxDesc) :
    (PDesc.ofValue name bp (DDesc.staticField count n item)).param.kind.staticBitLen = none ∧
    (PDesc.ofValue name bp (DDesc.dynLenField l item)).param.kind.staticBitLen = none ∧
    (PDesc.ofValue name bp (DDesc.eopField mn mx item)).param.kind.staticBitLen = none ∧
    (PDesc.ofValue name bp (DDesc.mux m)).param.kind.staticBitLen = none := ⟨rfl, rfl, rfl, rfl⟩

/-- **C08, required ⇔ not omittable** (any described parameter, hence at any depth) -/
theorem C08_required_iff_not_omittable (p : PDesc) (h : DescribedP p) :
    (p.fill none).isSome = !p.param.kind.required := h.fill_none

/-- **C08, required parameters, nested tier, top level of the supplied dictionary**: a required parameter that is omitted (or
    given as `None`) makes strict `encode` fail, with the library's own error (or the model's `unmodelled` at an untyped atom) -/
theorem C08_required_nested (ps : List PDesc) (hd : ∀ p ∈ ps, DescribedP p) (hn : PDescs.namesOk ps) (hl : PDescs.eopLast ps)
    (kvs : List (String × PVal)) (trig : Option Bytes) (hneed : (PVal.dict kvs).needFor ps ≤ modelFuel)
    (p : PDesc) (hp : p ∈ ps) (hr : p.param.kind.required = true) (hom : lookupV p.name kvs = none) :
    ∃ e, encodeMessage none (PDescs.toParams ps) (.dict kvs) trig true = .error e ∧
      (e = .encode ∨ e = .odx ∨ (e = .unmodelled ∧ (PVal.dict kvs).typedForP ps = false)) := by
  have hnone : p.fill (lookupV p.name kvs) = none := by
    have := (hd p hp).fill_none
    rw [hr] at this
    rw [hom]
    cases h : p.fill none with
    | none => rfl
    | some g => rw [h] at this; cases this
  have hf := DDesc.struct_fill_none_of_mem ps kvs p hp hnone
  rcases encodeMessage_nested_cases ps (fun q hq => (hd q hq).ok) hn hl (.dict kvs) trig hneed with
    ⟨_, e, hrun, he⟩ | ⟨c, hc, _⟩
  · refine ⟨e, hrun, ?_⟩
    rcases he with (he | he) | he
    · exact Or.inl he
    · exact Or.inr (Or.inl he)
    · exact Or.inr (Or.inr he)
  · rw [hf] at hc; cases hc

/-- … **and at every depth**: whatever a structure / a field / a multiplexer is given, if one of the parameters of the nested
    dictionary, of a field item, of the content of the selected case does not accept its value (e.g. because it is required
    and omitted), the enclosing description does not accept either — so, by `C04_nested_accepts_iff`, strict `encode` fails -/
theorem C08_required_nested_depth :
    (∀ (ps : List PDesc) (kvs : List (String × PVal)) (p : PDesc), p ∈ ps → p.fill (lookupV p.name kvs) = none →
      (DDesc.struct ps).fill (.dict kvs) = none) ∧
    (∀ (d : DDesc) (chk : DComp → Bool) (xs : List PVal) (x : PVal), x ∈ xs → d.fill x = none → d.fillItems chk xs = none) ∧
    (∀ (m : MuxDesc) (pv : PVal) (name : String) (key : Int) (d : DDesc) (v : PVal), m.sel pv = some (name, key, d, v) →
      d.fill v = none → (DDesc.mux m).fill pv = none) ∧
    (∀ (name : String) (bp : Option Nat) (d : DDesc) (v : PVal), d.fill v = none → (PDesc.ofValue name bp d).fill (some v) = none) :=
  ⟨DDesc.struct_fill_none_of_mem, DDesc.fillItems_none_of_mem, DDesc.mux_fill_none_of_content,
   fun name bp d v h => by simp only [PDesc.ofValue, h]; rfl⟩

/-- **C08, parameters that are not required may be omitted**: if strict `encode` accepts a dictionary, it accepts every
    dictionary (without unknown names) that agrees with it except that it omits parameters that are not required (CODED-CONST,
    PHYS-CONST, defaulted VALUE) -/
theorem C08_not_required_nested (ps : List PDesc) (hd : ∀ p ∈ ps, DescribedP p) (hn : PDescs.namesOk ps) (hl : PDescs.eopLast ps)
    (kvs kvs2 : List (String × PVal)) (trig : Option Bytes)
    (hneed : (PVal.dict kvs).needFor ps ≤ modelFuel) (hneed2 : (PVal.dict kvs2).needFor ps ≤ modelFuel)
    (henc : ∃ r, encodeMessage none (PDescs.toParams ps) (.dict kvs) trig true = .ok r)
    (hknown : PDescs.unknown ps kvs2 = false)
    (hag : ∀ p ∈ ps, lookupV p.name kvs2 = lookupV p.name kvs ∨ (p.param.kind.required = false ∧ lookupV p.name kvs2 = none)) :
    ∃ r, encodeMessage none (PDescs.toParams ps) (.dict kvs2) trig true = .ok r := by
  have h1 := (C04_nested_accepts_iff ps hd hn hl (.dict kvs) trig hneed).mp henc
  apply (C04_nested_accepts_iff ps hd hn hl (.dict kvs2) trig hneed2).mpr
  simp only [PVal.acceptedByP, DDesc.struct, hknown, Bool.false_eq_true, if_false, Option.isSome_map] at h1 ⊢
  have hfill : (PDescs.fill ps kvs).isSome = true := by
    cases hu : PDescs.unknown ps kvs with
    | true => simp [hu] at h1
    | false => simpa [hu] using h1
  exact PDescs.fill_omit ps hd kvs kvs2 hag hfill

/-! ## non-vacuity — static length
    [ sid (CODED-CONST 0x2E); s : STRUCTURE at byte 2 { a at byte 1; dv (default 0x55); pc (PHYS-CONST 0x99) at byte 0 — listed
      last, positioned first }; y at byte 1 ]: `s` ends (cursor behind its last listed parameter `pc`) before its full
    extent, but its successor `y` is explicitly positioned — `cursorOkS` holds -/
def sDesc : List PDesc :=
  [PDesc.ofObjConst ⟨"sid", none, none, none, true, 8, .uint32⟩ (.int 0x2E),
   PDesc.ofValue "s" (some 2) (DDesc.struct
     [PDesc.ofObjValue ⟨"a", some 1, none, none, true, 8, .uint32⟩ (fun _ => true),
      PDesc.ofObjDefault ⟨"dv", none, none, none, true, 8, .uint32⟩ (.int 0x55) (fun _ => true),
      PDesc.ofObjPhysConst ⟨"pc", some 0, none, none, true, 8, .uint32⟩ (.int 0x99)]),
   PDesc.ofObjValue ⟨"y", some 1, none, none, true, 8, .int32⟩ (fun _ => true)]
def sShape : List Tree :=
  [.const ⟨"sid", none, none, none, true, 8, .uint32⟩ (.int 0x2E),
   .struct "s" (some 2)
     [.int ⟨"a", some 1, none, none, true, 8, .uint32⟩ (.int 0),
      .int ⟨"dv", none, none, none, true, 8, .uint32⟩ (.int 0x55),
      .const ⟨"pc", some 0, none, none, true, 8, .uint32⟩ (.int 0x99)],
   .int ⟨"y", some 1, none, none, true, 8, .int32⟩ (.int 0)]

theorem sDesc_static : ∀ (i : Nat) (_h1 : i < sDesc.length) (h2 : i < sShape.length), StaticP sDesc[i] sShape[i] := by
  intro i _ h2
  match i, h2 with
  | 0, _ => exact StaticP.const _ _ (by simp [Obj.ok, Obj.encOk, Obj.sizeOk]) (by simp [Obj.inRange])
  | 1, _ =>
    refine StaticP.struct "s" (some 2) _ _ rfl ?_ ?_
    · intro j g1 g2
      match j, g1, g2 with
      | 0, _, _ => exact StaticP.value _ _ (by simp [Obj.ok, Obj.encOk, Obj.sizeOk]) (Or.inr rfl)
      | 1, _, _ => exact StaticP.valueDefault _ _ (by simp [Obj.ok, Obj.encOk, Obj.sizeOk]) (Or.inr rfl) (by simp [Obj.inRange])
      | 2, _, _ => exact StaticP.physConst _ _ (by simp [Obj.ok, Obj.encOk, Obj.sizeOk]) (by simp [Obj.inRange])
    · simp [PDescs.namesOk, PDesc.name, Param.name, PDesc.ofObjValue, Obj.toParam, PDesc.ofObjDefault, PDesc.ofObjPhysConst]
  | 2, _ => exact StaticP.value _ _ (by simp [Obj.ok, Obj.encOk, Obj.sizeOk, int32Known]) (Or.inl rfl)

example : Trees.cursorOkS sShape = true := by decide
example : (Dop.struct none (PDescs.toParams sDesc)).staticBitLen = some 40 := by decide +kernel
/-- `dv` defaulted, `pc` and `sid` omitted — and `dv` supplied, `pc` supplied: 5 bytes = 40 bits both times -/
example : (encodeMessage none (PDescs.toParams sDesc)
    (.dict [("s", .dict [("a", .atom (.int 7))]), ("y", .atom (.int (-1)))]) none true).toOption
    = some ([0x2E, 0xFF, 0x99, 0x07, 0x55], 0) := by decide +kernel
example : (encodeMessage none (PDescs.toParams sDesc)
    (.dict [("s", .dict [("a", .atom (.int 7)), ("dv", .atom (.int 1)), ("pc", .atom (.int 0x99))]), ("y", .atom (.int (-1)))]) none true).toOption
    = some ([0x2E, 0xFF, 0x99, 0x07, 0x01], 0) := by decide +kernel

theorem sDesc_names : PDescs.namesOk sDesc := by
  simp [PDescs.namesOk, sDesc, PDesc.name, Param.name, PDesc.ofObjConst, Obj.toConstParam, PDesc.ofValue, PDesc.ofObjValue, Obj.toParam]
theorem except_ok_of_toOption {ε α : Type} {e : Except ε α} {a : α} (h : e.toOption = some a) : e = .ok a := by
  cases e with
  | error x => cases h
  | ok b => simp only [Except.toOption, Option.some.injEq] at h; rw [h]
/-- the theorem applies to the example -/
example : (Dop.struct none (PDescs.toParams sDesc)).staticBitLen = some (8 * [0x2E, 0xFF, 0x99, 0x07, 0x55].length) :=
  C08_static_length_nested_partial sDesc sShape rfl sDesc_static sDesc_names (by decide)
    (.dict [("s", .dict [("a", .atom (.int 7))]), ("y", .atom (.int (-1)))]) none (by decide +kernel) _ 0
    (except_ok_of_toOption (by decide +kernel))

/-! ## non-vacuity — required parameters, on the description `nDesc` of `Props/C04Nested.lean` -/
/-- `sid`, `dv`, `pc` are not required, everything else is -/
example : nDesc.map (fun p => (p.name, p.param.kind.required)) =
    [("sid", false), ("st", true), ("df", true), ("pc", false), ("rec", true)] := by decide +kernel
example : (nDesc.map fun p => (p.fill none).isSome) = [true, false, false, true, false] := by decide +kernel
/-- omission at depth: `id` inside the 2nd item of the static field inside `st`; `p` inside the selected multiplexer case;
    `x` inside an item of the dynamic-length field; `v` inside a record of the END-OF-PDU-FIELD — all rejected (`EncodeError`);
    omitting the defaulted `dv` and the constants is accepted (`nGood`) -/
example :
    let i (n : Int) : PVal := .atom (.int n)
    let item (kv : List (String × PVal)) : PVal := .dict kv
    let lo : PVal := .pair "lo" (.dict [("p", i 9)])
    let top (sf df rec : PVal) : PVal := .dict [("st", .dict [("a", i 7), ("sf", sf)]), ("df", df), ("rec", rec)]
    let okSf : PVal := .list [item [("id", i 1), ("m", lo)], item [("id", i 2), ("m", lo)]]
    [ top (.list [item [("id", i 1), ("m", lo)], item [("m", lo)]]) (.list []) (.list []),
      top (.list [item [("id", i 1), ("m", lo)], item [("id", i 2), ("m", .pair "lo" (.dict []))]]) (.list []) (.list []),
      top okSf (.list [item [("x", i 1)], item []]) (.list []),
      top okSf (.list []) (.list [item [("id", i 1)]]) ].all
      (fun pv => pv.acceptedByP nDesc == false && errClass (encodeMessage none (PDescs.toParams nDesc) pv none true) == some .encode)
      = true := by decide +kernel

end OdxVerif.Codec
