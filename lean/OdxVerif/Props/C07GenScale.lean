import OdxVerif.Props.C07
import OdxVerif.Proofs.CompuScaleAppliesGenEq
/-! # C07 — `CompuScale.applies` through the function GENERATED from the source

    `Gen.scaleAppliesE` (`Gen/CompuScaleApplies.lean`) is regenerated from `CompuScale.applies` of
    `odxtools/compumethods/compuscale.py` (and `Gen.limitValueE` from `Limit.value`) on every run of C07
    (`harness/extract/py2lean.py`); the theorems below are re-checked against the current source. The limits' `complies_to_lower`
    / `complies_to_upper` are the generated functions of `Gen/CompuLimit.lean`; `self.lower_limit` / `self.upper_limit` are the
    fields of the model's `Scale`; `==` on `AtomicOdxType` values is the model's `Val.pyEq`.
    `Scale.applies` selects the COMPU-SCALE of TEXTTABLE / SCALE-LINEAR / TAB-INTP … conversions (`C07_texttable_forward` etc.). -/
namespace OdxVerif.Compu

/-- **Tie.** For every COMPU-SCALE and every value the rendered source of `CompuScale.applies` has the outcome of the hand-written
    `Scale.applies` (the same Boolean, or the exception class of the model's error) -/
theorem C07_gen_scale_applies_tie (s : Scale) (v : Val) :
    Gen.scaleAppliesE s v = Py.call Gen.errOfCompu (s.applies v) :=
  gen_scaleApplies_eq s v

/-- the rendered source answers `b` exactly when the model does -/
theorem C07_gen_scale_applies_ok_iff (s : Scale) (v : Val) (b : Bool) :
    Gen.scaleAppliesE s v = .ok b ↔ s.applies v = .ok b := by
  rw [gen_scaleApplies_eq]
  cases s.applies v with
  | ok a => exact ⟨(fun h => by cases h; rfl), (fun h => by cases h; rfl)⟩
  | error e => exact ⟨(fun h => by cases h), (fun h => by cases h)⟩

/-- **Semantics of the generated function on numbers** (via `C07_limits`): without limits everything applies; with only one limit
    exactly the values equal to it (`==` across int / float); with both limits exactly the values inside the interval, with the
    OPEN / CLOSED / INFINITE / absent-interval-type reading of `lowerOk` / `upperOk` -/
theorem C07_gen_scale_applies (a b v : Val) (qa qb x : Rat) (ha : a.num? = some qa) (hb : b.num? = some qb) (hv : v.num? = some x)
    (ta tb : Option IType) :
    Gen.scaleAppliesE {} v = .ok true ∧
    Gen.scaleAppliesE { lo := some ⟨some a, ta⟩ } v = .ok (decide (x = qa)) ∧
    Gen.scaleAppliesE { hi := some ⟨some b, tb⟩ } v = .ok (decide (x = qb)) ∧
    Gen.scaleAppliesE { lo := some ⟨some a, ta⟩, hi := some ⟨some b, tb⟩ } v = .ok (decide (lowerOk ta qa x ∧ upperOk tb qb x)) := by
  obtain ⟨h1, _, _, _⟩ := C07_limits a v qa x ha hv ta
  obtain ⟨_, h2, _, _⟩ := C07_limits b v qb x hb hv tb
  refine ⟨?_, ?_, ?_, ?_⟩
  · rw [gen_scaleApplies_eq]; rfl
  · rw [gen_scaleApplies_eq]; simp [Scale.applies, Val.pyEq, ha, hv, Py.call]; rfl
  · rw [gen_scaleApplies_eq]; simp [Scale.applies, Val.pyEq, hb, hv, Py.call]; rfl
  · rw [gen_scaleApplies_eq]
    simp only [Scale.applies, h1, h2, bind, Except.bind]
    by_cases hl : lowerOk ta qa x <;> by_cases hu : upperOk tb qb x <;> simp [hl, hu, Py.call, pure, Except.pure]

/-! non-vacuity on the generated function itself: no limits, a single limit (int against float), both limits at the boundaries,
    a string against a number limit (the exception of `compare_odx_values`), an early `False` that hides that exception -/
example : Gen.scaleAppliesE {} (.str "x") = .ok true ∧
    Gen.scaleAppliesE { lo := some ⟨some (.int 3), some .closed⟩ } (.flt 3) = .ok true ∧
    Gen.scaleAppliesE { hi := some ⟨some (.int 3), some .closed⟩ } (.int 2) = .ok false ∧
    Gen.scaleAppliesE { lo := some ⟨none, none⟩ } (.int 2) = .ok false ∧
    Gen.scaleAppliesE { lo := some ⟨some (.int 1), some .open_⟩, hi := some ⟨some (.int 3), some .closed⟩ } (.int 3) = .ok true ∧
    Gen.scaleAppliesE { lo := some ⟨some (.int 1), some .open_⟩, hi := some ⟨some (.int 3), some .closed⟩ } (.int 1) = .ok false ∧
    Gen.scaleAppliesE { lo := some ⟨some (.int 1), none⟩, hi := some ⟨some (.str "z"), none⟩ } (.int 2) = .error .odxError ∧
    Gen.scaleAppliesE { lo := some ⟨some (.int 5), none⟩, hi := some ⟨some (.str "z"), none⟩ } (.int 2) = .ok false := by
  refine ⟨?_, ?_, ?_, ?_, ?_, ?_, ?_, ?_⟩ <;> decide +kernel

end OdxVerif.Compu
