import OdxVerif.Props.C16Gen
import OdxVerif.Proofs.NilAddAttrGenEq
/-! # C16 — the unique-name computation of `_add_attribute_item` through the function GENERATED from the source (W32)

    `Gen.addAttrNameE` (`Gen/NilAddAttr.lean`) is regenerated from `ItemAttributeList._add_attribute_item` of
    `odxtools/nameditemlist.py` on every run of C16. The `while True:` loop is rendered with explicit fuel (`.ok none` = OUT OF FUEL);
    `hasattr(self, ·)` on the object BEFORE the call is the parameter `taken`, `self._get_item_key` the parameter `key`; the final
    store `self._item_dict[item_name] = item` is rendered as the returned name. -/
namespace OdxVerif.Nil
open OdxVerif Py

/-- **Tie.** For every attribute-lookup predicate, key function, fuel and item: the rendered source computes the model's `findFree`
    from counter 1 on the item's key, and propagates an exception of `_get_item_key` -/
theorem C16_gen_add_attribute_name (taken : Name → Bool) (key : Item → Py.M Name) (fuel : Nat) (it : Item) :
    Gen.addAttrNameE taken key fuel it =
      match key it with
      | .error e => .error e
      | .ok base => .ok (findFree taken base fuel 1) :=
  gen_addAttrName_eq taken key fuel it

/-- **Never out of fuel.** If attribute lookup succeeds exactly for the names of a finite list `T` (for the object: reserved names and
    the keys of `_item_dict`), then any fuel above `|T|` leaves the loop: the rendered source never yields OUT OF FUEL, and the name
    it returns is a candidate `cand base n` that was free -/
theorem C16_gen_never_out_of_fuel (T : List Name) (key : Item → Py.M Name) (fuel : Nat) (it : Item) (hfuel : T.length < fuel) :
    Gen.addAttrNameE (fun n => T.contains n) key fuel it ≠ .ok none ∧
    (∀ base, key it = .ok base → ∃ n, 1 ≤ n ∧
      Gen.addAttrNameE (fun n => T.contains n) key fuel it = .ok (some (cand base n)) ∧ cand base n ∉ T) := by
  rw [gen_addAttrName_eq]
  cases hk : key it with
  | error e => exact ⟨(fun h => by cases h), (fun _ h => by cases h)⟩
  | ok base =>
    dsimp only
    have hsome := findFree_isSome base fuel T 1 (Nat.le_refl _) hfuel
    cases hf : findFree (fun n => T.contains n) base fuel 1 with
    | none => rw [hf] at hsome; exact absurd hsome (by decide)
    | some nm =>
      refine ⟨(fun h => by cases h), fun b hb => ?_⟩
      cases hb
      obtain ⟨n, hn, hnm, htaken⟩ := findFree_spec _ _ _ _ _ hf
      subst hnm
      exact ⟨n, hn, rfl, by simpa using htaken⟩

/-- **The model's `addAttr` is the rendered source.** With `taken := hasattr` of the state before the call, `key :=` the GENERATED
    `_get_item_key`, and the model's fuel: the model stores the item under exactly the name the rendered source returns, raises
    exactly when the rendered source raises, and the model's `diverged` is the rendered OUT OF FUEL -/
theorem C16_gen_add_attr_model (env : Env) (s : State) (it : Item) :
    addAttr env s it =
      match Gen.addAttrNameE (hasattr env.reserved s.names) (Gen.itemKeyE Char.isDigit env.kw)
          (env.reserved.length + s.names.length + 1) it with
      | .ok (some nm) => .ok { s with names := dictSet s.names nm it }
      | .ok none => .error .diverged
      | .error _ => .error .raised := by
  rw [gen_addAttrName_eq, gen_itemKey_eq]
  unfold addAttr
  cases itemKey env.kw it.sn with
  | none => rfl
  | some base =>
    simp only
    cases findFree (hasattr env.reserved s.names) base (env.reserved.length + s.names.length + 1) 1 <;> rfl

/-- **Name choice of every step (ties `C16_step` / `C16_unique_name` to the source).** In a consistent state the rendered source,
    run on the object's own attribute lookup with the model's fuel, is never out of fuel; for a nameable item it returns a name that
    is neither reserved nor a key, has the prescribed shape (`IsKeyFor`), and `addAttr` appends exactly `(name, item)` -/
theorem C16_gen_name_choice (env : Env) (s : State) (it : Item) :
    Gen.addAttrNameE (hasattr env.reserved s.names) (Gen.itemKeyE Char.isDigit env.kw)
        (env.reserved.length + s.names.length + 1) it ≠ .ok none ∧
    (it.sn ≠ [] → ∃ nm,
      Gen.addAttrNameE (hasattr env.reserved s.names) (Gen.itemKeyE Char.isDigit env.kw)
        (env.reserved.length + s.names.length + 1) it = .ok (some nm) ∧
      addAttr env s it = .ok ⟨s.items, s.names ++ [(nm, it)]⟩ ∧
      nm ∉ s.names.map (·.1) ∧ nm ∉ env.reserved ∧ IsKeyFor env.kw nm it) ∧
    (it.sn = [] →
      Gen.addAttrNameE (hasattr env.reserved s.names) (Gen.itemKeyE Char.isDigit env.kw)
        (env.reserved.length + s.names.length + 1) it = .error .indexError) := by
  have hm := C16_gen_add_attr_model env s it
  rcases addAttr_cases env s it with ⟨he, hr⟩ | ⟨hne, nm, hok, h1, h2, h3⟩
  · have hg : Gen.addAttrNameE (hasattr env.reserved s.names) (Gen.itemKeyE Char.isDigit env.kw)
        (env.reserved.length + s.names.length + 1) it = .error .indexError := by
      rw [gen_addAttrName_eq, gen_itemKey_eq, itemKey_eq_none.2 he]
    refine ⟨(by rw [hg]; exact (fun h => by cases h)), fun hne => absurd he hne, fun _ => hg⟩
  · rw [hok] at hm
    cases hg : Gen.addAttrNameE (hasattr env.reserved s.names) (Gen.itemKeyE Char.isDigit env.kw)
        (env.reserved.length + s.names.length + 1) it with
    | error e => rw [hg] at hm; cases hm
    | ok r =>
      cases r with
      | none => rw [hg] at hm; cases hm
      | some nm' =>
        rw [hg] at hm
        simp only [Except.ok.injEq] at hm
        have hn : nm' = nm := by
          have hfree : nm' ∉ s.names.map (·.1) := by
            rw [gen_addAttrName_eq, gen_itemKey_eq] at hg
            cases hk : itemKey env.kw it.sn with
            | none => rw [hk] at hg; cases hg
            | some base =>
              rw [hk] at hg
              simp only [Except.ok.injEq] at hg
              obtain ⟨n, _, _, htaken⟩ := findFree_spec _ _ _ _ _ hg
              rw [hasattr_eq] at htaken
              have : nm' ∉ env.reserved ++ s.names.map (·.1) := by simpa using htaken
              exact fun h => this (List.mem_append_right _ h)
          rw [dictSet_fresh _ _ _ hfree] at hm
          have := congrArg State.names hm
          simp only [List.append_cancel_left_eq, List.cons.injEq, Prod.mk.injEq, and_true] at this
          exact this.symm
        subst hn
        exact ⟨(fun h => by cases h), fun _ => ⟨nm', rfl, hok, h1, h2, h3⟩, fun he => absurd he hne⟩

/-! non-vacuity on the generated function: a free name, a collision (`_2`), a name ending in `_` (no second underscore), a collision
    chain (`_3`), OUT OF FUEL with too little fuel, the exception of `_get_item_key` -/
example : Gen.addAttrNameE (fun n => ["a".toList].contains n) (Gen.itemKeyE Char.isDigit []) 3 ⟨0, "b".toList, 0⟩
    = .ok (some "b".toList) := by decide +kernel
example : Gen.addAttrNameE (fun n => ["a".toList].contains n) (Gen.itemKeyE Char.isDigit []) 3 ⟨0, "a".toList, 0⟩
    = .ok (some "a_2".toList) := by decide +kernel
example : Gen.addAttrNameE (fun n => ["a_".toList].contains n) (Gen.itemKeyE Char.isDigit []) 3 ⟨0, "a_".toList, 0⟩
    = .ok (some "a_2".toList) := by decide +kernel
example : Gen.addAttrNameE (fun n => ["a".toList, "a_2".toList].contains n) (Gen.itemKeyE Char.isDigit []) 3 ⟨0, "a".toList, 0⟩
    = .ok (some "a_3".toList) := by decide +kernel
example : Gen.addAttrNameE (fun n => ["a".toList, "a_2".toList].contains n) (Gen.itemKeyE Char.isDigit []) 2 ⟨0, "a".toList, 0⟩
    = .ok none := by decide +kernel
example : Gen.addAttrNameE (fun n => ["a".toList].contains n) (Gen.itemKeyE Char.isDigit []) 3 ⟨0, [], 0⟩
    = .error .indexError := by decide +kernel
/-- an instance of `C16_gen_never_out_of_fuel` meeting its hypothesis -/
example : Gen.addAttrNameE (fun n => ["a".toList, "a_2".toList].contains n) (Gen.itemKeyE Char.isDigit []) 3 ⟨0, "a".toList, 0⟩
    ≠ .ok none := (C16_gen_never_out_of_fuel ["a".toList, "a_2".toList] _ 3 _ (by decide)).1

end OdxVerif.Nil
