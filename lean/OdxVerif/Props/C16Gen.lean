import OdxVerif.Props.C16
import OdxVerif.Proofs.NilItemKeyGenEq
/-! # C16 — the attribute name of an item through the function GENERATED from the source

    `Gen.itemKeyE` (`Gen/NilItemKey.lean`) is regenerated from `NamedItemList._get_item_key` of `odxtools/nameditemlist.py` on
    every run of C16 (`harness/extract/py2lean.py`); the theorems below are re-checked against the current source. -/
namespace OdxVerif.Nil

/-- **Tie.** For every keyword table and item: the rendered source returns the model's `itemKey`, and raises (`IndexError` of
    `sn[0]`) exactly for the empty short name, where the model has no key -/
theorem C16_gen_item_key (kw : List Name) (it : Item) :
    (Gen.itemKeyE Char.isDigit kw it = match itemKey kw it.sn with | some k => .ok k | none => .error .indexError) ∧
    (it.sn ≠ [] → ∃ k, Gen.itemKeyE Char.isDigit kw it = .ok k ∧ itemKey kw it.sn = some k ∧ (k = it.sn ∨ k = '_' :: it.sn)) ∧
    (it.sn = [] → Gen.itemKeyE Char.isDigit kw it = .error .indexError) := by
  refine ⟨gen_itemKey_eq kw it, ?_, ?_⟩
  · intro hne
    rw [gen_itemKey_eq]
    cases hk : itemKey kw it.sn with
    | none => exact absurd (itemKey_eq_none.1 hk) hne
    | some k =>
      refine ⟨k, rfl, rfl, ?_⟩
      cases hs : it.sn with
      | nil => exact absurd hs hne
      | cons c cs =>
        rw [hs] at hk
        simp only [itemKey] at hk
        split at hk <;> cases hk <;> simp
  · intro he
    rw [gen_itemKey_eq, itemKey_eq_none.2 he]

/-! non-vacuity on the generated function itself: a leading digit, a keyword, an ordinary name, the empty name -/
example : Gen.itemKeyE Char.isDigit ["class".toList] ⟨0, "1st".toList, 0⟩ = .ok "_1st".toList := by decide
example : Gen.itemKeyE Char.isDigit ["class".toList] ⟨0, "class".toList, 0⟩ = .ok "_class".toList := by decide
example : Gen.itemKeyE Char.isDigit ["class".toList] ⟨0, "dop_7".toList, 0⟩ = .ok "dop_7".toList := by decide
example : Gen.itemKeyE Char.isDigit ["class".toList] ⟨0, [], 0⟩ = .error .indexError := by decide

end OdxVerif.Nil
