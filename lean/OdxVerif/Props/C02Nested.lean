import OdxVerif.Proofs.CompBitsSkip
/-! # C02, nested tier — bit-exact PDUs for arbitrarily NESTED descriptions (structures ∘ fields ∘ multiplexers)
    (Separate file; imported by `Props/C03Nested.lean` only.) -/
namespace OdxVerif.Codec
open OdxVerif.Bits OdxVerif.OdxM

/- Full statement of C02 (not a theorem for the whole model): for every request/response description and accepted value
   assignment, every bit of the PDU that strict `encode` returns is the bit the ODX positional rules prescribe — objects at
   BYTE-POSITION relative to the enclosing structure's first byte or behind the previous sibling, BIT-POSITION, byte order,
   the base type's representation; derived objects (item counts, switch keys, length keys, constants, padding) likewise;
   everything else zero — and an overlap warning is issued exactly when two objects claim the same bit.
   Proved here: the instance where every parameter — at every nesting depth — is a well-formed `Desc` (the syntactic mirror of
   `Described`, `Proofs/CompBitsDesc.lean`).  Still missing relative to the full statement: what `Described` lacks
   (DYNAMIC-ENDMARKER-FIELD, structures with BYTE-SIZE, LENGTH-KEY / TABLE-KEY parameters and the PARAM-LENGTH-INFO /
   MIN-MAX / LEADING-LENGTH leaves, RESERVED / NRC-CONST / MATCHING-REQUEST-PARAM, BIT-MASK, compu methods other than
   IDENTICAL, tables, environment data). -/

/-- **C02, nested tier.**  `ds` = a request/response whose parameters are descriptions with values (`Desc`): leaves over the
    standard-length objects (`Obj`; VALUE, VALUE with PHYSICAL-DEFAULT-VALUE supplied or omitted, CODED-CONST, PHYS-CONST) and
    VALUE parameters typed by a STRUCTURE, STATIC-FIELD, DYNAMIC-LENGTH-FIELD, END-OF-PDU-FIELD or MULTIPLEXER over such
    parameters again, in any nesting (`Descs.ok`: the side conditions of `C01_roundtrip_nested`).  `Descs.layout ds` — computed
    from the description and the values alone, by structural recursion (`Desc.lay`) — lists every leaf AND every derived object
    (`Role`: the item count of each dynamic-length field, the switch key of each multiplexer = the lower limit of the
    selected CASE / `defaultCaseKey` for the DEFAULT-CASE, the constants and defaults that were not supplied, the zero
    bytes between a static-field item and ITEM-BYTE-SIZE) with its absolute byte position, byte count, byte order, bit
    position, bit length and the raw pattern `Obj.specRepr` prescribes.  If strict `Request.encode` returns a PDU without an
    overlap warning then
    (1) bit `j` of every entry's pattern sits at absolute bit `absBit pos k hl (j + bp)` of the PDU,
    (2) every bit of the PDU that no entry claims is zero,
    (3) the entries are pairwise disjoint, and
    (4) the PDU is exactly as long as the furthest byte an entry (or an empty dynamic-length field's OFFSET) reaches. -/
theorem C02_bit_exact_nested (ds : List Desc) (hok : Descs.ok ds) (trig : Option Bytes) (pdu : Bytes)
    (henc : encodeMessage none (Descs.params ds) (.dict (Descs.supplied ds)) trig true = .ok (pdu, 0)) :
    (∀ e ∈ Descs.layout ds, ∀ j, j < e.bl → getBit pdu (absBit e.pos e.k e.hl (j + e.bp)) = e.raw.testBit j) ∧
    (∀ a, (∀ e ∈ Descs.layout ds, ¬ e.claims a) → getBit pdu a = false) ∧
    LDisj (Descs.layout ds) ∧ pdu.length = Descs.extent ds := by
  rw [descs_encodeMessage ds hok trig] at henc
  simp only [Except.ok.injEq, Prod.mk.injEq] at henc
  obtain ⟨hpdu, hwarn⟩ := henc
  subst hpdu
  refine ⟨descs_pure_inside ds hok.1 hwarn, ?_, (descs_pure_nowarn_iff ds hok.1).mp hwarn, descs_pure_length ds hok.1⟩
  intro a ha
  apply descs_pure_outside ds hok.1 a
  rintro ⟨e, he, hc⟩
  exact ha e he hc

/-- **C02, overlap clause, nested tier.**  Strict `Request.encode` of a well-formed description never fails, and it issues
    an overlap warning *exactly when* two entries of the layout claim a common bit (`w` = the number of warnings). -/
theorem C02_overlap_iff_nested (ds : List Desc) (hok : Descs.ok ds) (trig : Option Bytes) :
    ∃ pdu w, encodeMessage none (Descs.params ds) (.dict (Descs.supplied ds)) trig true = .ok (pdu, w) ∧
      (w = 0 ↔ LDisj (Descs.layout ds)) :=
  ⟨_, _, descs_encodeMessage ds hok trig, descs_pure_nowarn_iff ds hok.1⟩

/-! ### the layout, construct by construct (all by `rfl`: this *is* the definition, spelled out)
    `org` = first byte of the enclosing structure, `c` = the cursor (the byte behind the previous sibling). -/

/-- a leaf: one entry at BYTE-POSITION relative to `org`, or at the cursor -/
theorem layout_value (o : Obj) (v : IVal) (org c : Nat) :
    (Desc.value o v).lay.ents org c = [⟨.value, o.name, o.pos org c, o.k, o.hl, o.bp, o.bl, o.specRepr v⟩] := rfl
/-- a STRUCTURE at `p = posOf bp org c`: its parameters with origin `p`, starting at `p` -/
theorem layout_struct (n : String) (bp : Option Nat) (kids : List Desc) (org c : Nat) :
    (Desc.struct n bp kids).lay.ents org c = (Descs.lay kids).ents (posOf bp org c) (posOf bp org c) := rfl
/-- parameters one after the other: the next one starts where the encoder's cursor is behind the previous one -/
theorem layout_cons (d : Desc) (ds : List Desc) (org c : Nat) :
    (Descs.lay (d :: ds)).ents org c = d.lay.ents org c ++ (Descs.lay ds).ents org (d.lay.cur org c) := rfl
/-- a STATIC-FIELD item at `p`: the item structure (origin `p`), then zero bytes from the cursor behind it to `p + n` -/
theorem layout_static_item (n : Nat) (k : List Desc) (ks : List (List Desc)) (org p : Nat) :
    (Descss.layStatic n (k :: ks)).ents org p =
      ((Descs.lay k).ents p p ++ (if (Descs.lay k).cur p p < p + n then [Ent.pad ((Descs.lay k).cur p p) (p + n - (Descs.lay k).cur p p)] else [])) ++
      (Descss.layStatic n ks).ents org (p + n) := rfl
/-- a DYNAMIC-LENGTH-FIELD at `p = posOf bp org c`: the count object (value = number of items), then the items from `p + OFFSET` -/
theorem layout_dynLen (nm : String) (bp : Option Nat) (l : DynLayout) (shape : List Param) (items : List (List Desc)) (org c : Nat) :
    (Desc.dynLenField nm bp l shape items).lay.ents org c =
      ⟨.count, "", posOf bp org c + l.cntBp, l.cntObj.k, l.cnt.hl, l.cntObj.bp, l.cnt.bl, l.cntObj.specRepr (.int items.length)⟩ ::
      (Lay.dynBody items.isEmpty (Descss.layDyn items)).ents (posOf bp org c) (posOf bp org c + l.offset) := rfl
/-- a MULTIPLEXER at `p = posOf bp org c`: the switch key (value = `m.lo`), then the selected case's structure at `p + BYTE-POSITION` -/
theorem layout_mux (nm : String) (bp : Option Nat) (m : MuxLayout) (kids : List Desc) (org c : Nat) :
    (Desc.mux nm bp m kids).lay.ents org c =
      ⟨.switchKey, "", posOf bp org c + m.swBp, m.keyObj.k, m.key.hl, m.keyObj.bp, m.key.bl, m.keyObj.specRepr (.int m.lo)⟩ ::
      (Descs.lay kids).ents (posOf bp org c + m.muxBp) (posOf bp org c + m.muxBp) := rfl

/-! ### non-vacuity
    request = [ sid (CODED-CONST 0x2E, omitted);
                st : STRUCTURE { a; dv (default 0x55, omitted);
                                 sf : STATIC-FIELD, 2 items of { id; m : MULTIPLEXER (cases lo {p} / hi {q:16}) }, ITEM-BYTE-SIZE 4 };
                df : DYNAMIC-LENGTH-FIELD (count: 8 bits at byte 0, OFFSET 1), 2 items of { x };
                rec : END-OF-PDU-FIELD, 2 items of { id; v:16 } ] -/
def bU8 (n : String) : Obj := ⟨n, none, none, none, true, 8, .uint32⟩
def bI16 (n : String) : Obj := ⟨n, none, none, none, true, 16, .int32⟩
def bMux (caseName : String) (lo : Int) : MuxLayout :=
  { muxBp := 1, swBp := 0, key := bU8 "",
    cases := [.mk "lo" 2 3 (some (.struct none (Descs.params [.value (bU8 "p") (.int 0)]))),
              .mk "hi" 8 15 (some (.struct none (Descs.params [.value (bI16 "q") (.int 0)])))],
    dflt := none, caseName := caseName, lo := lo }
def bSfItem (id : Int) (caseName : String) (lo : Int) (kids : List Desc) : List Desc :=
  [.value (bU8 "id") (.int id), .mux "m" none (bMux caseName lo) kids]
def bSf : Desc :=
  .staticField "sf" none 4 (Descs.params (bSfItem 0 "lo" 2 [.value (bU8 "p") (.int 0)]))
    [bSfItem 1 "lo" 2 [.value (bU8 "p") (.int 9)], bSfItem 2 "hi" 8 [.value (bI16 "q") (.int 0x1234)]]
def bSt : Desc := .struct "st" none [.value (bU8 "a") (.int 7), .valueDefault (bU8 "dv") (.int 0x55) none, bSf]
def bDf : Desc :=
  .dynLenField "df" none { offset := 1, cntBp := 0, cnt := bU8 "" } (Descs.params [.value (bU8 "x") (.int 0)])
    [[.value (bU8 "x") (.int 0xA1)], [.value (bU8 "x") (.int 0xA2)]]
def bRecItem (id v : Int) : List Desc := [.value (bU8 "id") (.int id), .value (bI16 "v") (.int v)]
def bRec : Desc := .eopField "rec" none none (some 5) (Descs.params (bRecItem 0 0)) [bRecItem 1 (-2), bRecItem 2 300]
def exBits : List Desc := [.const (bU8 "sid") (.int 0x2E) false, bSt, bDf, bRec]

theorem Except.eq_ok_of_toOption' {ε α : Type} {e : Except ε α} {a : α} (h : e.toOption = some a) : e = .ok a := by
  cases e with
  | error x => cases h
  | ok b => simp only [Except.toOption, Option.some.injEq] at h; rw [h]

/-- the PDU (no overlap warning) -/
theorem exBits_pdu : encodeMessage none (Descs.params exBits) (.dict (Descs.supplied exBits)) none true
    = .ok ([0x2E, 0x07, 0x55, 0x01, 0x02, 0x09, 0x00, 0x02, 0x08, 0x12, 0x34, 0x02, 0xA1, 0xA2,
            0x01, 0xFF, 0xFE, 0x02, 0x01, 0x2C], 0) :=
  Except.eq_ok_of_toOption' (by decide +kernel)
/-- **the layout of the example**: ⟨role, name, first byte, bytes, byte order, bit position, bit length, raw pattern⟩ — the leaves and
    the derived objects: two switch keys (2 = lower limit of `lo`, 8 = lower limit of `hi`), one padding byte behind the first
    static-field item (none behind the second: it fills ITEM-BYTE-SIZE), the item count 2, the omitted constant and default -/
example : Descs.layout exBits =
    [⟨.codedConst, "sid", 0, 1, true, 0, 8, 0x2E⟩, ⟨.value, "a", 1, 1, true, 0, 8, 7⟩, ⟨.default, "dv", 2, 1, true, 0, 8, 0x55⟩,
     ⟨.value, "id", 3, 1, true, 0, 8, 1⟩, ⟨.switchKey, "", 4, 1, true, 0, 8, 2⟩, ⟨.value, "p", 5, 1, true, 0, 8, 9⟩,
     ⟨.padding, "", 6, 1, true, 0, 8, 0⟩,
     ⟨.value, "id", 7, 1, true, 0, 8, 2⟩, ⟨.switchKey, "", 8, 1, true, 0, 8, 8⟩, ⟨.value, "q", 9, 2, true, 0, 16, 0x1234⟩,
     ⟨.count, "", 11, 1, true, 0, 8, 2⟩, ⟨.value, "x", 12, 1, true, 0, 8, 0xA1⟩, ⟨.value, "x", 13, 1, true, 0, 8, 0xA2⟩,
     ⟨.value, "id", 14, 1, true, 0, 8, 1⟩, ⟨.value, "v", 15, 2, true, 0, 16, 0xFFFE⟩,
     ⟨.value, "id", 17, 1, true, 0, 8, 2⟩, ⟨.value, "v", 18, 2, true, 0, 16, 0x012C⟩] := by
  decide +kernel
example : Descs.extent exBits = 20 ∧ Descs.endCursor exBits = 20 := by decide +kernel


/-! the example is well-formed -/
theorem bU8_ok (n : String) : (bU8 n).ok := by simp [bU8, Obj.ok, Obj.encOk, Obj.sizeOk]
theorem bU8_range (n : String) (v : Int) (h0 : 0 ≤ v) (h1 : v < 256) : (bU8 n).inRange (.int v) := by
  simp [bU8, Obj.inRange]; omega
theorem bI16_ok (n : String) : (bI16 n).ok := by simp [bI16, Obj.ok, Obj.encOk, Obj.sizeOk, int32Known]
theorem bI16_range (n : String) (v : Int) (h0 : -32768 ≤ v) (h1 : v ≤ 32767) : (bI16 n).inRange (.int v) := by
  simp [bI16, Obj.inRange, int32InRange]; omega
theorem wfU8 (n : String) (v : Int) (h0 : 0 ≤ v) (h1 : v < 256) : (Desc.value (bU8 n) (.int v)).wf := by
  simp only [Desc.wf]; exact ⟨bU8_ok n, bU8_range n v h0 h1⟩
theorem wfI16 (n : String) (v : Int) (h0 : -32768 ≤ v) (h1 : v ≤ 32767) : (Desc.value (bI16 n) (.int v)).wf := by
  simp only [Desc.wf]; exact ⟨bI16_ok n, bI16_range n v h0 h1⟩
theorem bNames1 (a : Comp) : Comps.namesOk [a] := ⟨(fun _ h => nomatch h), trivial⟩
theorem bNames2 (a b : Comp) (h : a.name ≠ b.name) : Comps.namesOk [a, b] :=
  ⟨fun u hu => by simp only [List.mem_cons, List.mem_nil_iff, or_false] at hu; subst hu; exact fun e => h e.symm, bNames1 b⟩

theorem bMux_key (n : String) (lo : Int) (h0 : 0 ≤ lo) (h1 : lo < 256) :
    (bMux n lo).keyObj.ok ∧ (bMux n lo).keyObj.inRange (.int (bMux n lo).lo) := by
  constructor
  · simp [bMux, bU8, MuxLayout.keyObj, Obj.ok, Obj.encOk, Obj.sizeOk]
  · simp [bMux, bU8, MuxLayout.keyObj, Obj.inRange]; omega

theorem wfMuxLo (p : Int) (h0 : 0 ≤ p) (h1 : p < 256) : (Desc.mux "m" none (bMux "lo" 2) [.value (bU8 "p") (.int p)]).wf := by
  simp only [Desc.wf, Descs.wf]
  refine ⟨⟨wfU8 _ _ h0 h1, trivial⟩, bNames1 _, trivial, (bMux_key _ _ (by decide) (by decide)).1, (bMux_key _ _ (by decide) (by decide)).2, ?_⟩
  exact MuxLayout.sel_of_case (bMux "lo" 2) _ [] [.mk "hi" 8 15 (some (.struct none (Descs.params [.value (bI16 "q") (.int 0)])))] 3
    rfl (by decide) rfl rfl

theorem wfMuxHi (q : Int) (h0 : -32768 ≤ q) (h1 : q ≤ 32767) : (Desc.mux "m" none (bMux "hi" 8) [.value (bI16 "q") (.int q)]).wf := by
  simp only [Desc.wf, Descs.wf]
  refine ⟨⟨wfI16 _ _ h0 h1, trivial⟩, bNames1 _, trivial, (bMux_key _ _ (by decide) (by decide)).1, (bMux_key _ _ (by decide) (by decide)).2, ?_⟩
  exact MuxLayout.sel_of_case (bMux "hi" 8) _ [.mk "lo" 2 3 (some (.struct none (Descs.params [.value (bU8 "p") (.int 0)])))] [] 15
    rfl (by decide) (by decide) (by decide)

theorem forall_mem2' {α : Type} {P : α → Prop} (a b : α) (ha : P a) (hb : P b) : ∀ g ∈ [a, b], P g := by
  intro g hg; simp only [List.mem_cons, List.mem_nil_iff, or_false] at hg; rcases hg with rfl | rfl <;> assumption

theorem wf_bSf : bSf.wf := by
  simp only [bSf, bSfItem, Desc.wf, Descss.wf, Descs.wf, Descss.comps]
  refine ⟨⟨⟨wfU8 _ _ (by decide) (by decide), wfMuxLo 9 (by decide) (by decide), trivial⟩,
    ⟨wfU8 _ _ (by decide) (by decide), wfMuxHi 0x1234 (by decide) (by decide), trivial⟩, trivial⟩, forall_mem2' _ _ ?_ ?_⟩
  · exact ⟨⟨rfl, bNames2 _ _ (by decide), rfl⟩, by decide⟩
  · exact ⟨⟨rfl, bNames2 _ _ (by decide), rfl⟩, by decide⟩

theorem wf_bSt : bSt.wf := by
  simp only [bSt, Desc.wf, Descs.wf]
  refine ⟨⟨wfU8 _ _ (by decide) (by decide), ⟨bU8_ok _, bU8_range _ _ (by decide) (by decide)⟩, wf_bSf, trivial⟩, ?_, ⟨rfl, rfl, trivial⟩⟩
  refine ⟨?_, ?_, bNames1 _⟩
  · intro u hu
    simp only [Descs.comps, List.mem_cons, List.mem_nil_iff, or_false] at hu
    rcases hu with rfl | rfl <;> decide
  · intro u hu
    simp only [Descs.comps, List.mem_cons, List.mem_nil_iff, or_false] at hu
    subst hu
    decide

theorem wf_bDf : bDf.wf := by
  simp only [bDf, Desc.wf, Descss.wf, Descs.wf, Descss.comps]
  refine ⟨⟨⟨wfU8 _ _ (by decide) (by decide), trivial⟩, ⟨wfU8 _ _ (by decide) (by decide), trivial⟩, trivial⟩,
    forall_mem2' _ _ ?_ ?_, ?_, ?_, by decide⟩
  · exact ⟨⟨rfl, bNames1 _, rfl⟩, Nat.le_refl 1⟩
  · exact ⟨⟨rfl, bNames1 _, rfl⟩, Nat.le_refl 1⟩
  · simp [DynLayout.cntObj, bU8, Obj.ok, Obj.encOk, Obj.sizeOk]
  · simp [DynLayout.cntObj, bU8, Obj.inRange]

theorem wf_bRec : bRec.wf := by
  simp only [bRec, bRecItem, Desc.wf, Descss.wf, Descs.wf, Descss.comps]
  refine ⟨⟨⟨wfU8 _ _ (by decide) (by decide), wfI16 _ _ (by decide) (by decide), trivial⟩,
    ⟨wfU8 _ _ (by decide) (by decide), wfI16 _ _ (by decide) (by decide), trivial⟩, trivial⟩, forall_mem2' _ _ ?_ ?_⟩
  · exact ⟨⟨rfl, bNames2 _ _ (by decide), rfl⟩, by decide⟩
  · exact ⟨⟨rfl, bNames2 _ _ (by decide), rfl⟩, by decide⟩

theorem exBits_ok : Descs.ok exBits := by
  refine ⟨?_, ?_, ⟨rfl, rfl, rfl, trivial⟩, by decide⟩
  · simp only [exBits, Descs.wf, Desc.wf]
    exact ⟨⟨bU8_ok _, bU8_range _ _ (by decide) (by decide)⟩, wf_bSt, wf_bDf, wf_bRec, trivial⟩
  · simp [Comps.namesOk, exBits, Descs.comps, Desc.comp, Comp.name, Param.name, Comp.ofObjConst, Obj.toConstParam, bSt, bDf, bRec,
      Comp.ofValue, bU8]

/-- the theorem applies to the example: all four conclusions hold of the concrete PDU -/
example : (∀ e ∈ Descs.layout exBits, ∀ j, j < e.bl →
      getBit [0x2E, 0x07, 0x55, 0x01, 0x02, 0x09, 0x00, 0x02, 0x08, 0x12, 0x34, 0x02, 0xA1, 0xA2, 0x01, 0xFF, 0xFE, 0x02, 0x01, 0x2C]
        (absBit e.pos e.k e.hl (j + e.bp)) = e.raw.testBit j) ∧
    (∀ a, (∀ e ∈ Descs.layout exBits, ¬ e.claims a) →
      getBit [0x2E, 0x07, 0x55, 0x01, 0x02, 0x09, 0x00, 0x02, 0x08, 0x12, 0x34, 0x02, 0xA1, 0xA2, 0x01, 0xFF, 0xFE, 0x02, 0x01, 0x2C] a = false) ∧
    LDisj (Descs.layout exBits) ∧
    ([0x2E, 0x07, 0x55, 0x01, 0x02, 0x09, 0x00, 0x02, 0x08, 0x12, 0x34, 0x02, 0xA1, 0xA2, 0x01, 0xFF, 0xFE, 0x02, 0x01, 0x2C] : Bytes).length
      = Descs.extent exBits :=
  C02_bit_exact_nested exBits exBits_ok none _ exBits_pdu

/-- **C02, nested tier, the compositional interface itself — incl. parameters the encoder skips (RESERVED, NRC-CONST).**
    For ANY list of components (`Comp.Ok`, the semantic notion behind `Described`) paired with layouts for which the footprint
    law holds (`Comps.footAll`; `Desc.foot` for every well-formed `Desc`, `foot_reserved` / `foot_nrcConst` for RESERVED and
    NRC-CONST parameters, whose layout has NO entry: they claim no bit, so they never cause an overlap warning and the bits at
    their position are whatever the other parameters put there, or zero): strict `encode` returns some `(pdu, w)`;
    `w = 0` exactly when the entries are pairwise disjoint; if `w = 0` every entry's bits are in the PDU; every unclaimed bit is
    zero (with or without warning); the PDU is as long as the layout's extent (a skipped object at the end extends it). -/
theorem C02_bit_exact_nested_pre (gs : List Comp) (ls : List Lay) (hok : ∀ g ∈ gs, g.Ok) (hF : Comps.footAll gs ls)
    (hn : Comps.namesOk gs) (hlast : Comps.eopLast gs) (hneed : Comps.need gs + 2 ≤ modelFuel) (trig : Option Bytes) :
    ∃ pdu w, encodeMessage none (Comps.toParams gs) (.dict (Comps.values gs)) trig true = .ok (pdu, w) ∧
      (w = 0 ↔ LDisj ((Lay.seqs ls).ents 0 0)) ∧
      (w = 0 → (∀ e ∈ (Lay.seqs ls).ents 0 0, ∀ j, j < e.bl → getBit pdu (absBit e.pos e.k e.hl (j + e.bp)) = e.raw.testBit j)) ∧
      (∀ a, (∀ e ∈ (Lay.seqs ls).ents 0 0, ¬ e.claims a) → getBit pdu a = false) ∧
      pdu.length = (Lay.seqs ls).ext 0 0 :=
  comps_bit_exact gs (Lay.seqs ls) (Comps.okAll_of_forall gs hok) (Comps.foot gs ls hF) hn hlast hneed trig

/-! non-vacuity: negative response [sid = 0x7F (CODED-CONST, omitted); code: VALUE at byte 1; nrc: NRC-CONST {0x11, 0x31} at byte 1
    (on top of `code`: no entry, no warning); res: RESERVED 8 bits; z] -/
def bNrcObj : Obj := ⟨"nrc", some 1, none, none, true, 8, .uint32⟩
def exSkipDescs : List Desc := [.const (bU8 "sid") (.int 0x7F) false, .value (bU8 "code") (.int 0x31), .value (bU8 "z") (.int 0xAA)]
def exSkip : List Comp :=
  [(Desc.const (bU8 "sid") (.int 0x7F) false).comp, (Desc.value (bU8 "code") (.int 0x31)).comp,
   Comp.nrcConst bNrcObj [.int 0x11, .int 0x31] (.int 0x31), Comp.reserved "res" none none 8 0, (Desc.value (bU8 "z") (.int 0xAA)).comp]
def exSkipLays : List Lay :=
  [(Desc.const (bU8 "sid") (.int 0x7F) false).lay, (Desc.value (bU8 "code") (.int 0x31)).lay,
   Lay.skip bNrcObj, Lay.skip (reservedObj "res" none none 8), (Desc.value (bU8 "z") (.int 0xAA)).lay]

theorem exSkip_ok : ∀ g ∈ exSkip, g.Ok := by
  intro g hg
  simp only [exSkip, List.mem_cons, List.mem_nil_iff, or_false] at hg
  rcases hg with rfl | rfl | rfl | rfl | rfl
  · exact (Desc.described _ (by simp only [Desc.wf]; exact ⟨bU8_ok _, bU8_range _ _ (by decide) (by decide)⟩)).ok.1
  · exact (Desc.described _ (wfU8 _ _ (by decide) (by decide))).ok.1
  · exact Comp.nrcConst_ok _ _ _ (by simp [bNrcObj, Obj.ok, Obj.encOk, Obj.sizeOk]) (by decide)
  · exact Comp.reserved_ok _ _ _ _ _ (by decide) (by decide)
  · exact (Desc.described _ (wfU8 _ _ (by decide) (by decide))).ok.1

theorem exSkip_foot : Comps.footAll exSkip exSkipLays :=
  ⟨Desc.foot _ (by simp only [Desc.wf]; exact ⟨bU8_ok _, bU8_range _ _ (by decide) (by decide)⟩),
   Desc.foot _ (wfU8 _ _ (by decide) (by decide)), foot_nrcConst _ _ _, foot_reserved _ _ _ _ _,
   Desc.foot _ (wfU8 _ _ (by decide) (by decide)), trivial⟩

/-- three entries (the NRC-CONST and the RESERVED parameter have none), extent 4 -/
example : (Lay.seqs exSkipLays).ents 0 0 =
    [⟨.codedConst, "sid", 0, 1, true, 0, 8, 0x7F⟩, ⟨.value, "code", 1, 1, true, 0, 8, 0x31⟩, ⟨.value, "z", 3, 1, true, 0, 8, 0xAA⟩] ∧
    (Lay.seqs exSkipLays).ext 0 0 = 4 := by decide +kernel
example : (encodeMessage none (Comps.toParams exSkip) (.dict (Comps.values exSkip)) none true).toOption
    = some ([0x7F, 0x31, 0x00, 0xAA], 0) := by decide +kernel
/-- the theorem applies -/
example :=
  C02_bit_exact_nested_pre exSkip exSkipLays exSkip_ok exSkip_foot
    (by simp [Comps.namesOk, exSkip, Desc.comp, Comp.name, Param.name, Comp.ofObjConst, Obj.toConstParam, Comp.ofObjValue, Obj.toParam,
      Comp.nrcConst, Comp.reserved, bU8, bNrcObj])
    ⟨rfl, rfl, rfl, rfl, trivial⟩ (by decide) none

end OdxVerif.Codec
