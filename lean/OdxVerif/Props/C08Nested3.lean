import OdxVerif.Props.C08Nested2
import OdxVerif.Props.C04Nested3
import OdxVerif.Proofs.CompCompu3Static
/-! # C08 on the compositional nested tier, third part (task W24): descriptions with conversion leaves (`DescribedP3`)
    (Imports `Props/C08Nested2.lean`, hence audited with it in an environment of its own — see `harness/props/c08.py`.)

    **Static length.**  A VALUE parameter over a compu-method DOP (`DataObjectProperty`, any compu method) reports the static
    length of its diag-coded type (`DataObjectProperty.get_static_bit_length`), and that is right: every accepted encoding
    writes the object of the INTERNAL value, so such a parameter is static with the shape of a plain integer leaf
    (`PDesc.ofConv_static`); `C08_static_length_nested3_partial` is `C08_static_length_nested_partial` with such leaves at any
    depth of structures (`StaticP3`).  A **DTC-DOP reports no static length** (`DtcDop` does not override
    `DopBase.get_static_bit_length`; `C08_dtc_no_static_length`) although every accepted encoding has the length of its
    diag-coded type — the statement of C08 ("whenever a static bit length is reported") is vacuous there; a structure that
    contains a DTC parameter has no static length either.
    **Required parameters** through `DescribedP3`: a VALUE over a compu DOP / DTC-DOP without default is required and its
    omission makes strict `encode` fail (`C08_required_iff_not_omittable3`, `C08_required_nested3`, `C08_not_required_nested3`). -/
namespace OdxVerif.Codec
open OdxVerif.Bits OdxVerif.OdxM

/-- **C08, static length, nested tier with compu-method leaves** (`_partial`: as `C08_static_length_nested_partial` — the side
    condition `cursorOkS`, no BYTE-SIZE structures; the conversion leaves are those with a `ConvSpec.Ok`) -/
theorem C08_static_length_nested3_partial (ps : List PDesc) (ts : List Tree) (hlen : ps.length = ts.length)
    (hs : ∀ (i : Nat) (h1 : i < ps.length) (h2 : i < ts.length), StaticP3 ps[i] ts[i]) (hn : PDescs.namesOk ps)
    (hc : Trees.cursorOkS ts = true) (pv : PVal) (hwf : pv.wfAtoms = true) (trig : Option Bytes) (hneed : pv.needFor ps ≤ modelFuel)
    (pdu : Bytes) (w : Nat) (henc : encodeMessage none (PDescs.toParams ps) pv trig true = .ok (pdu, w)) :
    (Dop.struct none (PDescs.toParams ps)).staticBitLen = some (8 * pdu.length) :=
  static_length_nested3 ps ts hlen hs hn hc pv hwf trig hneed pdu w henc

/-- the reported static length of a VALUE / PHYS-CONST parameter over a compu-method DOP is that of its diag-coded type, whatever
    the compu method and the physical type -/
theorem C08_compu_leaf_static_length (o : Obj) (phys : BaseType) (cm : CCompu) (n : String) (bp bitp : Option Nat)
    (dflt : Option PVal) (c : PVal) :
    (Param.mk n bp bitp (.value (.simple o.dct phys cm) dflt)).kind.staticBitLen = some o.bl ∧
    (Param.mk n bp bitp (.physConst (.simple o.dct phys cm) c)).kind.staticBitLen = some o.bl := ⟨rfl, rfl⟩

/-- a DTC-DOP parameter reports no static length — and neither does anything that contains one -/
theorem C08_dtc_no_static_length (dct : Dct) (phys : BaseType) (cm : CCompu) (dtcs : List (Int × String)) (n : String)
    (bp bitp : Option Nat) (dflt : Option PVal) (ps : List PDesc) (p : PDesc) (hp : p ∈ ps)
    (h : p.param = .mk n bp bitp (.value (.dtc dct phys cm dtcs) dflt)) :
    (Dop.struct none (PDescs.toParams ps)).staticBitLen = none :=
  C08_fields_no_static_length ps p hp (by rw [h]; rfl)

/-- **C08, required ⇔ not omittable** for every description of `DescribedP3` -/
theorem C08_required_iff_not_omittable3 (p : PDesc) (h : DescribedP3 p) :
    (p.fill none).isSome = !p.param.kind.required := h.fill_none

/-- a VALUE parameter over a conversion DOP without default is required -/
theorem C08_conv_leaf_required (o : Obj) (dop : Dop) (c : ConvSpec) :
    (PDesc.ofConv o dop c).param.kind.required = true ∧ (PDesc.ofConv o dop c).fill none = none := ⟨rfl, rfl⟩

/-- **C08, required parameters, `DescribedP3`**: a required parameter that is omitted (or given as `None`) makes strict `encode`
    fail with a library error (or the model's `unmodelled` at an untyped atom) -/
theorem C08_required_nested3 (ps : List PDesc) (hd : ∀ p ∈ ps, DescribedP3 p) (hn : PDescs.namesOk ps) (hl : PDescs.eopLast ps)
    (kvs : List (String × PVal)) (hwf : (PVal.dict kvs).wfAtoms = true) (trig : Option Bytes)
    (hneed : (PVal.dict kvs).needFor ps ≤ modelFuel)
    (p : PDesc) (hp : p ∈ ps) (hr : p.param.kind.required = true) (hom : lookupV p.name kvs = none) :
    ∃ e, encodeMessage none (PDescs.toParams ps) (.dict kvs) trig true = .error e ∧
      (e = .encode ∨ e = .odx ∨ (e = .unmodelled ∧ (PVal.dict kvs).typedForP ps = false)) := by
  have hnone : p.fill (lookupV p.name kvs) = none := by
    have := (hd p hp).fill_none
    rw [hr] at this
    rw [hom]
    cases h : p.fill none with
    | none => rfl
    | some g => rw [h] at this; cases this
  have hf := DDesc.struct_fill_none_of_mem ps kvs p hp hnone
  rcases encodeMessage_nested2_cases ps (fun q hq => (hd q hq).okW) hn hl (.dict kvs) hwf trig hneed with
    ⟨_, e, hrun, he⟩ | ⟨c, hc, _⟩
  · refine ⟨e, hrun, ?_⟩
    rcases he with (he | he) | he
    · exact Or.inl he
    · exact Or.inr (Or.inl he)
    · exact Or.inr (Or.inr he)
  · rw [hf] at hc; cases hc

/-- **C08, parameters that are not required may be omitted** (`DescribedP3`) -/
theorem C08_not_required_nested3 (ps : List PDesc) (hd : ∀ p ∈ ps, DescribedP3 p) (hn : PDescs.namesOk ps) (hl : PDescs.eopLast ps)
    (kvs kvs2 : List (String × PVal)) (hwf : (PVal.dict kvs).wfAtoms = true) (hwf2 : (PVal.dict kvs2).wfAtoms = true)
    (trig : Option Bytes)
    (hneed : (PVal.dict kvs).needFor ps ≤ modelFuel) (hneed2 : (PVal.dict kvs2).needFor ps ≤ modelFuel)
    (henc : ∃ r, encodeMessage none (PDescs.toParams ps) (.dict kvs) trig true = .ok r)
    (hknown : PDescs.unknown ps kvs2 = false)
    (hag : ∀ p ∈ ps, lookupV p.name kvs2 = lookupV p.name kvs ∨ (p.param.kind.required = false ∧ lookupV p.name kvs2 = none)) :
    ∃ r, encodeMessage none (PDescs.toParams ps) (.dict kvs2) trig true = .ok r := by
  have h1 := (C04_nested3_accepts_iff ps hd hn hl (.dict kvs) hwf trig hneed).mp henc
  apply (C04_nested3_accepts_iff ps hd hn hl (.dict kvs2) hwf2 trig hneed2).mpr
  simp only [PVal.acceptedByP, DDesc.struct, hknown, Bool.false_eq_true, if_false, Option.isSome_map] at h1 ⊢
  have hfill : (PDescs.fill ps kvs).isSome = true := by
    cases hu : PDescs.unknown ps kvs with
    | true => simp [hu] at h1
    | false => simpa [hu] using h1
  exact PDescs.fill_omit3 ps hd kvs kvs2 hag hfill

/-! ## non-vacuity, on `cDesc` of `Props/C04Nested3.lean`: [ sid; st : { err : DTC-DOP; n : u8 } ] -/
/-- required: `st` at top level; inside it `err` (DTC-DOP, no default) and `n` -/
example : cDesc.map (fun p => (p.name, p.param.kind.required, (p.fill none).isSome)) = [("sid", false, true), ("st", true, false)] := by
  decide +kernel
example : (cErr.pdesc.param.kind.required, (cErr.pdesc.fill none).isSome) = (true, false) := rfl
/-- the theorem applies: omitting `st` fails; and omitting `err` inside `st` is rejected with `EncodeError` -/
example : ∃ e, encodeMessage none (PDescs.toParams cDesc) (.dict []) none true = .error e ∧
    (e = .encode ∨ e = .odx ∨ (e = .unmodelled ∧ (PVal.dict []).typedForP cDesc = false)) :=
  C08_required_nested3 cDesc cDesc_described cDesc_names.1 cDesc_names.2 [] rfl none (by decide +kernel) _
    (List.mem_cons_of_mem _ (List.mem_cons_self ..)) rfl rfl
example : errClass (encodeMessage none (PDescs.toParams cDesc) (.dict [("st", .dict [("n", .atom (.int 5))])]) none true) = some .encode := by
  decide +kernel
/-- no static length: the structure contains a DTC-DOP parameter (although every accepted PDU has 5 bytes) -/
example : (Dop.struct none (PDescs.toParams cDesc)).staticBitLen = none := by decide +kernel

/-! ## non-vacuity — static length with compu-method leaves, on `tDesc` of `Props/C04Nested3.lean`:
    [ sid; st : { mode : TEXTTABLE u8; t : LINEAR u8 } ] — static length 24 bits; every accepted PDU has 3 bytes -/
def tShape : List Tree :=
  [.const ⟨"sid", none, none, none, true, 8, .uint32⟩ (.int 0x22),
   .struct "st" none [.int tMode.o (.int 0), .int tTemp.o (.int 0)]]

theorem tDesc_static : ∀ (i : Nat) (_h1 : i < tDesc.length) (h2 : i < tShape.length), StaticP3 tDesc[i] tShape[i] := by
  intro i _ h2
  match i, h2 with
  | 0, _ => exact .old _ _ (StaticP.const _ _ (by simp [Obj.ok, Obj.encOk, Obj.sizeOk]) (by simp [Obj.inRange]))
  | 1, _ =>
    refine StaticP3.struct "st" none _ _ rfl ?_ (pnamesOk2 _ _ (by decide))
    intro j g1 g2
    match j, g1, g2 with
    | 0, _, _ => exact tMode.static tMode_ok _
    | 1, _, _ => exact tTemp.static tTemp_ok _

example : Trees.cursorOkS tShape = true := by decide
example : (Dop.struct none (PDescs.toParams tDesc)).staticBitLen = some 24 := by decide +kernel
/-- the theorem applies: ("hi", 360) ↦ `22 09 C8`, 3 bytes = 24 bits -/
example : (Dop.struct none (PDescs.toParams tDesc)).staticBitLen = some (8 * [0x22, 9, 200].length) :=
  C08_static_length_nested3_partial tDesc tShape rfl tDesc_static tDesc_names.1 (by decide)
    (tMk tHi (.atom (.int 360))) (by decide +kernel) none (by decide +kernel) _ 0 (except_ok_of_toOption (by decide +kernel))
/-- required: `mode` and `t` (VALUE over compu DOPs, no default); omitting `t` inside `st` is rejected with `EncodeError` -/
example : [tMode.pdesc, tTemp.pdesc].map (fun p => (p.name, p.param.kind.required, (p.fill none).isSome)) =
    [("mode", true, false), ("t", true, false)] := by decide +kernel

end OdxVerif.Codec
