import OdxVerif.Proofs.CompRes2Sup
import OdxVerif.Props.C03Nested2R
/-! # C03, nested tier, extension W25 (C) — re-encoding WITH the RESERVED entries of the decoded dictionary supplied.
    (Separate file; imported nowhere.) -/
namespace OdxVerif.Codec
open OdxVerif.Bits OdxVerif.OdxM

/- Full statement of C03: see `Props/C03Nested.lean` / `Props/C03Nested2R.lean`.  `C03_reencode_nested2R` re-encodes
   `Descs2R.supplied ds`: the decoded dictionary WITHOUT the entries of the skipped parameters.  "Encoding the decoded values"
   literally hands the encoder the entries `name ↦ r` of the RESERVED parameters too (the decoder returns them); the encoder
   ignores them (`ReservedParameter.is_settable = False`; the model: `encodeParam … (.reserved bl)` does not look at the value).
   Proved here: that, for every `Desc2R` description (`C03_reserved_supplied_ignored`: RESERVED nodes at any depth of STRUCTUREs),
   and `C03_reencode_nested2R` for `Descs2R.suppliedFull ds`.  Still missing: the same below field items / multiplexer cases
   (RESERVED is not a constructor there, `Props/C01Nested2U.lean`); NRC-CONST entries are REJECTED by the encoder
   (`C03_nrcconst_decoded_not_reencodable`) and stay out of `suppliedFull`. -/

/-- **a supplied value for a RESERVED parameter is ignored.**  `Descs2R.suppliedFull ds` = `Descs2R.supplied ds` plus the entries
    `name ↦ r` of the RESERVED parameters, at every depth of STRUCTUREs: strict `encode` returns the same PDU with the same number
    of overlap warnings for both dictionaries (and never fails). -/
theorem C03_reserved_supplied_ignored (ds : List Desc2R) (trig : Option Bytes) (hok : Descs2R.ok trig ds) :
    encodeMessage none (Descs2R.params ds) (.dict (Descs2R.suppliedFull ds)) trig true =
      encodeMessage none (Descs2R.params ds) (.dict (Descs2R.supplied ds)) trig true := by
  rw [descs2R_encodeMessage_full trig ds hok, descs2R_encodeMessage trig ds hok]

/-- **C03, nested tier, with the RESERVED entries supplied.**  Hypotheses as in `C03_reencode_nested2R`.  Strict `decode` returns
    `Descs2R.decoded ds`, and strict `encode` of the decoded dictionary's supplied part INCLUDING the RESERVED entries
    (`Descs2R.suppliedFull ds`) returns the PDU byte for byte, without an overlap warning. -/
theorem C03_reencode_nested2R_full (ds : List Desc2R) (trig : Option Bytes) (hok : Descs2R.ok trig ds) (pdu : Bytes) (hall : AllBytes pdu)
    (hbits : ∀ e ∈ Descs2R.layout ds, ∀ j, j < e.bl → getBit pdu (absBit e.pos e.k e.hl (j + e.bp)) = e.raw.testBit j)
    (hdisj : LDisj2 (Descs2R.layout ds))
    (hzero : ∀ a, (∀ e ∈ Descs2R.layout ds, ¬ e.claims a) → getBit pdu a = false)
    (hext : pdu.length = Descs2R.extent ds)
    (hend : Comps.anyEop (Descs2R.comps ds) = true → Descs2R.endCursor ds = pdu.length)
    (hres : Descs2R.resPre ds { msg := pdu }) :
    decodeMessage none (Descs2R.params ds) pdu true = .ok (.dict (Descs2R.decoded ds), Descs2R.endCursor ds) ∧
      encodeMessage none (Descs2R.params ds) (.dict (Descs2R.suppliedFull ds)) trig true = .ok (pdu, 0) := by
  obtain ⟨h1, h2⟩ := C03_reencode_nested2R ds trig hok pdu hall hbits hdisj hzero hext hend hres
  exact ⟨h1, by rw [C03_reserved_supplied_ignored ds trig hok]; exact h2⟩

/-! ### non-vacuity: `exRes` -/

/-- the full dictionary of `exRes`: the entries `rs ↦ 0` (inside the structure `st`) and `tail ↦ 0` are there — it is the decoded
    dictionary without the entry of the CODED-CONST `sid` (which may be supplied or not: `Desc2.const … supplied`) -/
example : Descs2R.suppliedFull exRes =
    [("a", .atom (.int 5)), ("st", .dict [("k", .atom (.int 9)), ("rs", .atom (.int 0))]), ("z", .atom (.int 0x77)),
     ("tail", .atom (.int 0))] := rfl

/-- with `sid` supplied, `suppliedFull` IS the decoded dictionary -/
def exResS : List Desc2R :=
  [.base (.const (rU8 "sid") (.int 0x22) true), .base (.value (rU8 "a") (.int 5)),
   .struct "st" none none [.base (.value (rU8 "k") (.int 9)), .reserved "rs" none none 12 0],
   .base (.value (rU8 "z") (.int 0x77)), .reserved "tail" none none 12 0]
example : Descs2R.suppliedFull exResS = Descs2R.decoded exResS := rfl

example : encodeMessage none (Descs2R.params exRes) (.dict (Descs2R.suppliedFull exRes)) none true = .ok (exResPdu, 0) := by
  rw [C03_reserved_supplied_ignored exRes none exRes_ok]
  exact exRes_enc

example : decodeMessage none (Descs2R.params exRes) exResPdu true = .ok (.dict (Descs2R.decoded exRes), 8) ∧
    encodeMessage none (Descs2R.params exRes) (.dict (Descs2R.suppliedFull exRes)) none true = .ok (exResPdu, 0) :=
  C03_reencode_nested2R_full exRes none exRes_ok exResPdu (allBytes_of_all _ (by decide))
    (by rw [exRes_layout]; decide +kernel) exRes_disj exRes_canon.2.2.1 (by decide +kernel) (fun _ => by decide +kernel) exRes_wire

end OdxVerif.Codec
