import OdxVerif.Props.C04
import OdxVerif.Proofs.FieldTierEop
import OdxVerif.Proofs.ItemLoop
/-! # C04 — the repaired field encoders (fix `c04-field-item-consumes-nothing`, task W16)

The decoders of DYNAMIC-LENGTH-FIELD / END-OF-PDU-FIELD / DYNAMIC-ENDMARKER-FIELD reject an item that leaves the byte cursor
where it was (fixes fc2486c / 6869fd8).  The encoders did not: `df = [{}]` over an item structure without parameters was
encoded to `10 01`, which the decoder rejects, and `ef = [{}]` to `10`, which decodes to `ef = []` (finding
`c04-field-item-consumes-nothing-*`, forced by the hypothesis "every item consumes ≥ 1 byte" of `C04_nested_partial`).
After the fix the three item loops raise `EncodeError` (`odxraise`) for such an item.  Model: `encodeItems`.

The hypothesis `1 ≤ item.minSize` of `DDesc.dynLenField_ok` / `DDesc.eopField_ok` stays (it is what makes the encoder ACCEPT);
what is new is the converse direction, for every item description whatsoever: -/
namespace OdxVerif.Codec
open OdxVerif.Bits OdxVerif.OdxM

/-- **strict mode, all item descriptions, all value lists, all states:** if the item loop of a dynamic field accepts, every
    item occupied data — the byte cursor moved by at least one byte per item.  (Before the fix: false, `xs = [{}]`.) -/
theorem C04_field_items_consume_data (item : Dop) (eop : Bool) (xs : List PVal) (fuel : Nat) (s s' : EncState)
    (h : encodeItems item eop fuel xs s true = .ok ((), s')) : s.cursorByte + xs.length ≤ s'.cursorByte :=
  encodeItems_advances item eop xs fuel s s' h

/-- … lifted to the END-OF-PDU-FIELD encoder: an accepted field of `n` items is at least `n` bytes long, so the decoder's
    `while cursor < len(message)` loop sees every one of them (no item is dropped silently). -/
theorem C04_eop_field_items_consume_data (mn mx : Option Nat) (item : Dop) (xs : List PVal) (fuel : Nat) (s s' : EncState)
    (h : encodeDop fuel (.eopField mn mx item) (.list xs) s true = .ok ((), s')) : s.cursorByte + xs.length ≤ s'.cursorByte := by
  cases fuel with
  | zero => simp [encodeDop, run_raise] at h
  | succ f =>
    by_cases hcb : s.cursorBit = 0
    · by_cases heop : s.isEndOfPdu = true
      · rw [encodeDop_eop_step f mn mx item xs s hcb heop] at h
        cases hr : encodeItems item true f xs { s with isEndOfPdu := false } true with
        | error e => rw [hr] at h; cases h
        | ok r =>
          obtain ⟨⟨⟩, s1⟩ := r
          rw [hr] at h
          simp only [Except.ok.injEq, Prod.mk.injEq, true_and] at h
          have hadv := encodeItems_advances _ _ _ _ _ _ hr
          rw [← h]
          exact hadv
      · simp [encodeDop, bind, run_bind, run_getS, odxassert, hcb, heop, odxraise, run_pure] at h
    · simp [encodeDop, bind, run_bind, run_getS, odxassert, hcb, odxraise] at h

/-! ### the corpus witnesses of the finding are rejected by the repaired model (and unchanged in non-strict mode) -/

private def u8d : Dop := .simple (.std .uint32 none true 8 none false) .uint32 .identical
private def sid10 : Param := .mk "sid" none none (.codedConst (.std .uint32 none true 8 none false) (.int 0x10))

/-- request [sid 0x10, df : DYNAMIC-LENGTH-FIELD(count u8 at byte 0, OFFSET 1, item STRUCTURE {})] -/
def exEmptyItemDyn : List Param := [sid10, .mk "df" none none (.value (.dynLenField 1 0 0 u8d (.struct none [])) none)]
/-- request [sid 0x10, ef : END-OF-PDU-FIELD(item STRUCTURE {})] -/
def exEmptyItemEop : List Param := [sid10, .mk "ef" none none (.value (.eopField none none (.struct none [])) none)]
/-- request [sid 0x10, mf : DYNAMIC-ENDMARKER-FIELD(termination u8 = 0xFF, item STRUCTURE {}), y : u8] -/
def exEmptyItemMarker : List Param :=
  [sid10, .mk "mf" none none (.value (.endMarkerField (.int 255) u8d (.struct none [])) none), .mk "y" none none (.value u8d none)]

/-- **`df = [{}]`, `ef = [{}]`, `mf = [{}]` are EncodeErrors now** (strict mode); an item structure with one parameter is
    accepted as before -/
theorem C04_empty_field_item_rejected :
    errClass (encodeMessage none exEmptyItemDyn (.dict [("df", .list [.dict []])]) none true) = some .encode ∧
    errClass (encodeMessage none exEmptyItemEop (.dict [("ef", .list [.dict []])]) none true) = some .encode ∧
    errClass (encodeMessage none exEmptyItemMarker (.dict [("mf", .list [.dict []]), ("y", .atom (.int 1))]) none true) = some .encode ∧
    (encodeMessage none exEmptyItemDyn (.dict [("df", .list [])]) none true).toOption = some ([0x10, 0x00], 0) := by
  refine ⟨?_, ?_, ?_, ?_⟩ <;> decide +kernel

/-- non-strict mode keeps the old behaviour (`odxraise` is downgraded): `10 01` / `10` -/
example : (encodeMessage none exEmptyItemDyn (.dict [("df", .list [.dict []])]) none false).toOption = some ([0x10, 0x01], 0) ∧
    (encodeMessage none exEmptyItemEop (.dict [("ef", .list [.dict []])]) none false).toOption = some ([0x10], 0) := by
  refine ⟨?_, ?_⟩ <;> decide +kernel

/-- non-vacuity of `C04_eop_field_items_consume_data`: two one-byte items are accepted, the cursor moves by 2 -/
example : (encodeMessage none [sid10, .mk "ef" none none (.value (.eopField none none (.struct none [.mk "a" none none (.value u8d none)])) none)]
    (.dict [("ef", .list [.dict [("a", .atom (.int 7))], .dict [("a", .atom (.int 9))]])]) none true).toOption = some ([0x10, 7, 9], 0) := by
  decide +kernel

end OdxVerif.Codec
