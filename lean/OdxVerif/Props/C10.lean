import OdxVerif.Proofs.OdxLinkDb
/-! # C10 — every reference resolves to the object it names, or loading fails
    Property theorems only; lemmas live in `Proofs/OdxLink*.lean`; the specification vocabulary
    (`Resolves`, `Dangling`, `carried`, `layerStore`, `UniquelyNamed`) is `Spec/OdxLink.lean`.
    All statements are for arbitrary databases, references, fragment lists, item lists and heaps. -/
namespace OdxVerif.OdxLink
open Spec

/-- **ODXLINK resolution (strict mode).** `resolve` returns `o` iff `o` is the object stored under the
    reference's id in the innermost fragment of the reference that stores this id, and `o` has the
    expected type. -/
theorem C10_resolve (db : Db) (r : Ref) (exp : Option String) (o : Obj) :
    resolve db r exp true = .ok (some o) ↔ Resolves (stored db) r o ∧ o.isInst exp = true := by
  unfold resolve
  rw [findIn_reverse_eq]
  cases hr : resolveBy (stored db) r with
  | none =>
    have : ¬ Resolves (stored db) r o := by rw [← resolveBy_eq_some, hr]; simp
    simp [this]
  | some o' =>
    unfold typed
    rw [← resolveBy_eq_some, hr]
    by_cases ht : o'.isInst exp = true
    · simp only [ht, if_true]
      constructor
      · intro h; cases h; exact ⟨rfl, ht⟩
      · rintro ⟨h, _⟩; cases h; rfl
    · simp only [ht, if_true]
      constructor
      · intro h; cases h
      · rintro ⟨h, h2⟩; cases h; exact absurd h2 ht

/-- without a type expectation, in either mode, and for `resolve_lenient` alike -/
theorem C10_resolve_untyped (db : Db) (r : Ref) (strict : Bool) (o : Obj) :
    (resolve db r none strict = .ok (some o) ↔ Resolves (stored db) r o) ∧
    (resolveLenient db r none strict = .ok (some o) ↔ Resolves (stored db) r o) := by
  unfold resolve resolveLenient
  rw [findIn_reverse_eq, ← resolveBy_eq_some]
  cases hr : resolveBy (stored db) r with
  | none => cases strict <;> simp
  | some o' => simp [typed, Obj.isInst]

/-- **Dangling references raise.** In strict mode `resolve` raises `KeyError` iff no fragment of the
    reference stores its id; it never returns `None`; a reference to an object of the wrong type raises
    `OdxError`; `resolve_lenient` returns `None` exactly for dangling references. Hence a strict
    `resolve` never binds to anything but the object the specification names. -/
theorem C10_dangling_raises (db : Db) (r : Ref) (exp : Option String) :
    (resolve db r exp true = .error .key ↔ Dangling (stored db) r) ∧
    resolve db r exp true ≠ .ok none ∧
    (resolve db r exp true = .error .odx ↔ ∃ o, Resolves (stored db) r o ∧ o.isInst exp = false) ∧
    (resolveLenient db r exp true = .ok none ↔ Dangling (stored db) r) := by
  unfold resolve resolveLenient
  rw [findIn_reverse_eq, ← resolveBy_eq_none]
  cases hr : resolveBy (stored db) r with
  | none =>
    refine ⟨by simp, by simp, ?_, by simp⟩
    constructor
    · intro h; simp at h
    · rintro ⟨o, ho, _⟩
      rw [← resolveBy_eq_some, hr] at ho; cases ho
  | some o' =>
    have hres : ∀ o, Resolves (stored db) r o ↔ o' = o := by
      intro o; rw [← resolveBy_eq_some, hr]; simp
    unfold typed
    by_cases ht : o'.isInst exp = true
    · simp only [ht, if_true]
      refine ⟨by simp, by simp, ?_, by simp⟩
      constructor
      · intro h; simp at h
      · rintro ⟨o, ho, h2⟩
        rw [← (hres o).1 ho, ht] at h2; cases h2
    · simp only [ht]
      refine ⟨by simp, by simp, ?_, by simp⟩
      constructor
      · intro _; exact ⟨o', (hres o').2 rfl, by simpa using ht⟩
      · intro _; simp

/-- **The innermost fragment wins.** If the last fragment of a reference stores the id, the reference
    resolves to that object whatever the outer fragments (e.g. the container, or another layer using the
    same local id) store under the same id. -/
theorem C10_innermost_wins (db : Db) (outer : List Frag) (inner : Frag) (i : String) (o : Obj)
    (strict : Bool) (h : stored db inner i = some o) :
    resolve db ⟨i, outer ++ [inner]⟩ none strict = .ok (some o) :=
  ((C10_resolve_untyped db ⟨i, outer ++ [inner]⟩ strict o).1).2 ⟨outer, inner, [], rfl, h, by simp⟩

/-- an outer fragment is consulted only when no inner one stores the id -/
theorem C10_outer_fallback (db : Db) (pre post : List Frag) (f : Frag) (i : String) (o : Obj)
    (strict : Bool) (h : stored db f i = some o) (hpost : ∀ g ∈ post, stored db g i = none) :
    resolve db ⟨i, pre ++ f :: post⟩ none strict = .ok (some o) :=
  ((C10_resolve_untyped db ⟨i, pre ++ f :: post⟩ strict o).1).2 ⟨pre, f, post, rfl, h, hpost⟩

/-- **`update(overwrite=False)` never changes an existing binding**, for any sequence of new entries -/
theorem C10_update_no_overwrite (db : Db) (es : List (Id × Obj)) (f : Frag) (i : String) (o : Obj)
    (h : stored db f i = some o) : stored (update db es false) f i = some o :=
  stored_update_keep es db f i o h

/-- what `update` stores afterwards: with `overwrite=True` the last new pair carrying the id in the
    fragment (else the old binding), with `overwrite=False` the old binding (else the first new pair) -/
theorem C10_update_spec (db : Db) (es : List (Id × Obj)) (f : Frag) (i : String) :
    stored (update db es true) f i = (carried es f i).or (stored db f i) ∧
    stored (update db es false) f i = (stored db f i).or (carriedFirst es f i) :=
  ⟨stored_update_true es db f i, stored_update_false es db f i⟩

/-- **The global database of `refresh`** stores, for every fragment and local id, the object of the last
    `(id, object)` pair in document order that carries this id and lists this fragment — provided no full
    id (local id *and* fragment list) occurs twice. -/
theorem C10_build (extra : List (Id × Obj)) (ls : List Layer)
    (hnd : ((extra ++ ls.flatMap (·.links)).map (·.1)).Nodup) (f : Frag) (i : String) :
    stored (view (buildGlobal extra ls).1 (buildGlobal extra ls).2) f i
      = carried (extra ++ ls.flatMap (·.links)) f i := by
  rw [buildGlobal_view, foldl_dset_nodup _ [] (by simpa using hnd), stored_update_true]
  simp [stored, dget]

/-- **What an importing layer sees** = the specification `layerStore`: global bindings are never
    shadowed by imports; an id the global database leaves unbound in one of the layer's own fragments is
    bound to the imported object. -/
theorem C10_import_view (G : Db) (frags : List Frag) (imp : List (Id × Obj)) (f : Frag) (i : String) :
    stored (extendView G frags imp) f i = layerStore (stored G) frags imp f i :=
  stored_extendView G frags imp f i

/-- **Import references are local (one layer).** On the heap model of the repaired code: resolving the
    references of a layer — with any import references — leaves the global database object storing
    exactly what it stored before (so every later `resolve` on it, by any other layer, is unchanged),
    and the layer's own results are those of the heap-free reading `linkLayer`. -/
theorem C10_import_local (all : List Layer) (h : Heap) (g : DbObj) (hw : WF h g) (l : Layer)
    (h' : Heap) (res : Resolved) (hr : resolveLayer all (h, g) l = .ok (h', res)) :
    view h' g = view h g ∧ WF h' g ∧ linkLayer all (view h g) l = .ok res := by
  have := resolveLayer_pure all h g hw l
  rw [hr] at this
  exact ⟨this.2.1, this.2.2, this.1⟩

/-- **Import references are local (whole link phase).** Running all layers in sequence on one heap
    gives exactly the result of resolving every layer against the *initial* global database extended by
    its own imports only: no layer's result depends on which layers were resolved before it, and the
    global database is the same afterwards. Errors included. -/
theorem C10_link_phase (all : List Layer) (g : DbObj) (ls : List Layer) (h : Heap) (hw : WF h g) :
    (resolveLayers all g h ls).map (·.2) = linkPhase all (view h g) ls ∧
    ∀ h' rs, resolveLayers all g h ls = .ok (h', rs) → view h' g = view h g := by
  have := resolveLayers_pure all g ls h hw
  cases hr : resolveLayers all g h ls with
  | error e => rw [hr] at this; simp only at this; exact ⟨by rw [this]; rfl, by intro _ _ h; cases h⟩
  | ok p =>
    obtain ⟨h', rs⟩ := p
    rw [hr] at this
    simp only at this
    refine ⟨by rw [this.1]; rfl, ?_⟩
    intro h'' rs' he
    cases he
    exact this.2.1

/-- the hypothesis of the two theorems above holds for the database `refresh` builds -/
theorem C10_refresh_wf (extra : List (Id × Obj)) (ls : List Layer) :
    WF (buildGlobal extra ls).1 (buildGlobal extra ls).2 := buildGlobal_wf extra ls

/-- **Generations: `refresh()` on a `Database` object that was loaded, modified and is refreshed again.**
    Whatever dictionaries earlier generations left on the heap (`h0` arbitrary): the link database the
    refresh builds stores exactly what the link database of a *pristine* `Database` with the current
    content stores (hence, by `C10_build`, `carried` of the current entries: an id that no current object
    carries is unbound, whatever carried it before); the dictionaries of the earlier generations are not
    touched; and the complete outcome of the refresh — every bound ODXLINK target, every bound short-name
    target, or the error — is that of the pristine database. -/
theorem C10_refresh_generation_independent (h0 : Heap) (extra : List (Id × Obj)) (ls : List Layer) :
    view (buildGlobalOn h0 extra ls).1 (buildGlobalOn h0 extra ls).2
        = view (buildGlobal extra ls).1 (buildGlobal extra ls).2 ∧
    (∀ a, a < h0.cells.length → (buildGlobalOn h0 extra ls).1.read a = h0.read a) ∧
    (refreshOn h0 extra ls).map (fun l => (l.links, l.snrefs))
        = (refresh extra ls).map (fun l => (l.links, l.snrefs)) := by
  have hOn := hUpdate_spec
    ((extra ++ ls.flatMap (·.links)).foldl (fun acc e => dset e.1 e.2 acc) []) true (h0, []) (WF_nil _)
  have hv : view (buildGlobalOn h0 extra ls).1 (buildGlobalOn h0 extra ls).2
      = view (buildGlobal extra ls).1 (buildGlobal extra ls).2 := by
    rw [buildGlobal_view]
    exact hOn.1
  have hwOn : WF (buildGlobalOn h0 extra ls).1 (buildGlobalOn h0 extra ls).2 := hOn.2.wf
  refine ⟨hv, fun a ha => hOn.2.frame a ha (by simp), ?_⟩
  have h1 := (C10_link_phase ls (buildGlobalOn h0 extra ls).2 ls (buildGlobalOn h0 extra ls).1 hwOn).1
  have h2 := (C10_link_phase ls (buildGlobal extra ls).2 ls (buildGlobal extra ls).1 (buildGlobal_wf extra ls)).1
  rw [hv, ← h2] at h1
  cases hA : resolveLayers ls (buildGlobalOn h0 extra ls).2 (buildGlobalOn h0 extra ls).1 ls with
  | error e =>
    cases hB : resolveLayers ls (buildGlobal extra ls).2 (buildGlobal extra ls).1 ls with
    | error e' =>
      rw [hA, hB] at h1; simp only [Except.map] at h1; cases h1
      simp only [refreshOn, refresh, hA, hB]
    | ok q => rw [hA, hB] at h1; simp [Except.map] at h1
  | ok p =>
    cases hB : resolveLayers ls (buildGlobal extra ls).2 (buildGlobal extra ls).1 ls with
    | error e' => rw [hA, hB] at h1; simp [Except.map] at h1
    | ok q =>
      rw [hA, hB] at h1
      obtain ⟨ha, la⟩ := p
      obtain ⟨hb, lb⟩ := q
      simp only [Except.map, Except.ok.injEq] at h1
      subst h1
      simp only [refreshOn, refresh, hA, hB]
      cases snrefPhase ls la ls <;> rfl

namespace ExGen
def fC : Frag := ⟨"C", "CONTAINER"⟩
def fL : Frag := ⟨"L", "LAYER"⟩
def dOld : Obj := ⟨1, ["DataObjectProperty", "DopBase"], "speed"⟩
def dNew : Obj := ⟨2, ["DataObjectProperty", "DopBase"], "velocity"⟩
/-- generation 1: layer `L` defines the DOP `speed` under the id `d.speed` and refers to it -/
def gen1 : List Layer :=
  [{ obj := ⟨10, ["DiagLayer"], "L"⟩, frags := [fC, fL], isEsd := false,
     links := [(⟨"L", [fC, fL]⟩, ⟨10, ["DiagLayer"], "L"⟩), (⟨"d.speed", [fC, fL]⟩, dOld)], importRefs := [],
     parentKeys := [], prio := 3, refs := [⟨"L.p.dop", ⟨"d.speed", [fC, fL]⟩, none⟩], snrefs := [], locals := [] }]
/-- generation 2: the DOP was replaced by one with another id; the reference still names `d.speed` -/
def gen2 : List Layer :=
  [{ obj := ⟨10, ["DiagLayer"], "L"⟩, frags := [fC, fL], isEsd := false,
     links := [(⟨"L", [fC, fL]⟩, ⟨10, ["DiagLayer"], "L"⟩), (⟨"d.velocity", [fC, fL]⟩, dNew)], importRefs := [],
     parentKeys := [], prio := 3, refs := [⟨"L.p.dop", ⟨"d.speed", [fC, fL]⟩, none⟩], snrefs := [], locals := [] }]
end ExGen

/-- non-vacuity of `C10_refresh_generation_independent`: generation 1 loads (the reference is bound to
    object 1); refreshing generation 2 on the heap generation 1 left behind raises `KeyError`, exactly as
    the pristine database does -/
example :
    (refresh [] ExGen.gen1).map (·.links) = .ok [("L.p.dop", 1)] ∧
    (refreshOn (buildGlobal [] ExGen.gen1).1 [] ExGen.gen2).map (·.links) = .error .key ∧
    (refresh [] ExGen.gen2).map (·.links) = .error .key := by decide

/-- **Counter-example for the variant that keeps the link database object between refreshes** (created
    once in `__init__`, only `update`d by `refresh`): the link database then does *not* store what a
    pristine database stores — the id `d.speed`, carried by no object of generation 2, is still bound to
    the object of generation 1, and the dangling reference is silently bound to it instead of raising. -/
theorem C10_refresh_keep_counterexample :
    ¬ ∀ (prev : Heap × DbObj) (extra : List (Id × Obj)) (ls : List Layer), WF prev.1 prev.2 →
        view (buildGlobalKeep prev extra ls).1 (buildGlobalKeep prev extra ls).2
          = view (buildGlobal extra ls).1 (buildGlobal extra ls).2 := by
  intro hall
  have := hall (buildGlobal [] ExGen.gen1) [] ExGen.gen2 (buildGlobal_wf [] ExGen.gen1)
  have hd : decide (view (buildGlobalKeep (buildGlobal [] ExGen.gen1) [] ExGen.gen2).1
      (buildGlobalKeep (buildGlobal [] ExGen.gen1) [] ExGen.gen2).2
        = view (buildGlobal [] ExGen.gen2).1 (buildGlobal [] ExGen.gen2).2) = false := by decide
  simp [this] at hd

/-- … observable: with the kept object the dangling reference of generation 2 binds to object 1 (the DOP of
    generation 1, no longer part of the database) -/
example :
    let s := buildGlobalKeep (buildGlobal [] ExGen.gen1) [] ExGen.gen2
    (resolveLayers ExGen.gen2 s.2 s.1 ExGen.gen2).map (·.2) = .ok [("L.p.dop", 1)] := by decide

/-- **Short-name references.** In strict mode `resolve_snref` returns `o` iff `o` is the one and only
    item of that name and has the expected type; otherwise it raises `OdxError` (no candidate, several
    candidates, wrong type) — it never returns `None` and never picks one of several. -/
theorem C10_snref_unique (name : String) (items : List Obj) (exp : Option String) :
    (∀ o, resolveSnref name items exp true = .ok (some o) ↔
        UniquelyNamed items name o ∧ o.isInst exp = true) ∧
    (resolveSnref name items exp true = .error .odx ∨
        ∃ o, resolveSnref name items exp true = .ok (some o)) := by
  have hu := uniqueBy_eq_some items name
  unfold uniqueBy at hu
  unfold resolveSnref
  split
  · rename_i hf
    rw [hf] at hu
    exact ⟨by intro o; simp [← hu o], Or.inl (by simp)⟩
  · rename_i c hf
    rw [hf] at hu
    unfold typed
    by_cases ht : c.isInst exp = true
    · simp only [ht, if_true]
      refine ⟨?_, Or.inr ⟨c, rfl⟩⟩
      intro o
      rw [← hu o]
      constructor
      · intro h; cases h; exact ⟨rfl, ht⟩
      · rintro ⟨h, _⟩; cases h; rfl
    · simp only [ht, if_true]
      refine ⟨?_, Or.inl rfl⟩
      intro o
      rw [← hu o]
      constructor
      · intro h; cases h
      · rintro ⟨h, h2⟩; cases h; exact absurd h2 ht
  · rename_i c c' t hf
    rw [hf] at hu
    exact ⟨by intro o; simp [← hu o], Or.inl (by simp)⟩

/-- `l` is reached from `t` by `n` PARENT-REF steps (any parent of a layer, not only its first one) -/
inductive ParentPath (all : List Layer) (res : Resolved) : Nat → Layer → Layer → Prop
  | refl (t : Layer) : ParentPath all res 0 t t
  | step {n : Nat} {t p l : Layer} : p ∈ parentsOf all res t → ParentPath all res n p l →
      ParentPath all res (n + 1) t l

/-- the layers `retarget_snrefs` visits are exactly the layers reachable over PARENT-REFs (through
    whichever parent, in a hierarchy that branches arbitrarily) by a path of at most `fuel` steps -/
theorem C10_retarget_reach (all : List Layer) (res : Resolved) (fuel : Nat) (t l : Layer) :
    l ∈ reach all res fuel t ↔ ∃ n, n ≤ fuel ∧ ParentPath all res n t l := by
  induction fuel generalizing t with
  | zero =>
    simp only [reach, List.mem_singleton]
    constructor
    · rintro rfl; exact ⟨0, Nat.le_refl _, .refl _⟩
    · rintro ⟨n, hn, hp⟩
      cases hp with
      | refl => rfl
      | step _ _ => omega
  | succ fuel ih =>
    simp only [reach, List.mem_cons, List.mem_flatMap]
    constructor
    · rintro (rfl | ⟨p, hp, hl⟩)
      · exact ⟨0, Nat.zero_le _, .refl _⟩
      · obtain ⟨n, hn, hpath⟩ := (ih p).1 hl
        exact ⟨n + 1, by omega, .step hp hpath⟩
    · rintro ⟨n, hn, hpath⟩
      cases hpath with
      | refl => exact Or.inl rfl
      | step hp hrest => exact Or.inr ⟨_, hp, (ih _).2 ⟨_, by omega, hrest⟩⟩

/-- **Re-targeting.** If `retarget_snrefs(db, T)` succeeds, every short-name reference of `T` and of each
    of its direct and indirect parents — through whichever PARENT-REF of a layer with several parents the
    owner is reached — is bound to the uniquely named object among the candidates visible *in `T`*. -/
theorem C10_retarget (all : List Layer) (res : Resolved) (t : Layer) (out : Resolved)
    (h : retarget all res t = .ok out) :
    ∀ l ∈ reach all res all.length t, ∀ s ∈ l.snrefs,
      ∃ o, (s.key, o.uid) ∈ out ∧ UniquelyNamed (candidates all res t s) s.name o ∧ o.isInst s.exp = true := by
  unfold retarget at h
  generalize reach all res all.length t = ch at h
  have key : ∀ (ss : List SnRef) (r : Resolved), resolveSnrefs all res t ss = .ok r →
      ∀ s ∈ ss, ∃ o, (s.key, o.uid) ∈ r ∧ UniquelyNamed (candidates all res t s) s.name o
        ∧ o.isInst s.exp = true := by
    intro ss
    induction ss with
    | nil => intro r _ s hs; cases hs
    | cons s0 ss ih =>
      intro r hr s hs
      simp only [resolveSnrefs] at hr
      cases h1 : resolveSnref s0.name (candidates all res t s0) s0.exp true with
      | error e => rw [h1] at hr; cases hr
      | ok oo =>
        rw [h1] at hr
        cases oo with
        | none => cases hr
        | some o =>
          simp only at hr
          cases h2 : resolveSnrefs all res t ss with
          | error e => rw [h2] at hr; cases hr
          | ok rest =>
            rw [h2] at hr
            cases hr
            rcases List.mem_cons.1 hs with rfl | hs
            · have := ((C10_snref_unique s.name (candidates all res t s) s.exp).1 o).1 h1
              exact ⟨o, by simp, this.1, this.2⟩
            · obtain ⟨o', ho', hu⟩ := ih rest h2 s hs
              exact ⟨o', List.mem_cons_of_mem _ ho', hu⟩
  induction ch generalizing out with
  | nil => intro l hl; cases hl
  | cons l0 ch ih =>
    intro l hl s hs
    simp only [retarget.go] at h
    cases h1 : resolveSnrefs all res t l0.snrefs with
    | error e => rw [h1] at h; cases h
    | ok r =>
      rw [h1] at h
      simp only at h
      cases h2 : retarget.go all res t ch with
      | error e => rw [h2] at h; cases h
      | ok rs =>
        rw [h2] at h
        cases h
        rcases List.mem_cons.1 hl with rfl | hl
        · obtain ⟨o, ho, hu⟩ := key _ r h1 s hs
          exact ⟨o, List.mem_append_left _ ho, hu⟩
        · obtain ⟨o, ho, hu⟩ := ih rs h2 l hl s hs
          exact ⟨o, List.mem_append_right _ ho, hu⟩

/-- the same, stated over paths: whatever layer is reachable from `T` over at most `all.length`
    PARENT-REF steps has all its short-name references rebound to `T`'s view -/
theorem C10_retarget_paths (all : List Layer) (res : Resolved) (t : Layer) (out : Resolved)
    (h : retarget all res t = .ok out) (n : Nat) (hn : n ≤ all.length) (l : Layer)
    (hp : ParentPath all res n t l) :
    ∀ s ∈ l.snrefs,
      ∃ o, (s.key, o.uid) ∈ out ∧ UniquelyNamed (candidates all res t s) s.name o ∧ o.isInst s.exp = true :=
  C10_retarget all res t out h l ((C10_retarget_reach all res all.length t l).2 ⟨n, hn, hp⟩)

/-! ## The pinned commit: `copy(odxlinks)` was an alias — `C10_import_local` fails

    Container `C2` with ECU-SHARED-DATA `S` (defines id `d`); container `C` with base variant `A` (imports
    `S` by DOCREF) and base variant `B` (imports nothing, refers to `d` without DOCREF). -/
namespace Ex
def fC : Frag := ⟨"C", "CONTAINER"⟩
def fC2 : Frag := ⟨"C2", "CONTAINER"⟩
def fS : Frag := ⟨"S", "LAYER"⟩
def fA : Frag := ⟨"A", "LAYER"⟩
def fB : Frag := ⟨"B", "LAYER"⟩
def oS : Obj := ⟨1, ["DiagLayer"], "S"⟩
def oA : Obj := ⟨2, ["DiagLayer"], "A"⟩
def oB : Obj := ⟨3, ["DiagLayer"], "B"⟩
def dS : Obj := ⟨4, ["DopBase"], "temperature"⟩
def dA : Obj := ⟨5, ["DopBase"], "temperature"⟩
def lS : Layer := { obj := oS, frags := [fC2, fS], isEsd := true, links := [(⟨"S", [fC2, fS]⟩, oS), (⟨"d", [fC2, fS]⟩, dS)],
                    importRefs := [], parentKeys := [], prio := 3, refs := [], snrefs := [], locals := [("dops", [dS])] }
def lA : Layer := { obj := oA, frags := [fC, fA], isEsd := false, links := [(⟨"A", [fC, fA]⟩, oA), (⟨"x", [fC, fA]⟩, dA)],
                    importRefs := [⟨"S", [fC2]⟩], parentKeys := [], prio := 3,
                    refs := [⟨"A.p.dop", ⟨"d", [fC, fA]⟩, none⟩, ⟨"A.q.dop", ⟨"x", [fC, fA]⟩, none⟩],
                    snrefs := [], locals := [("dops", [dA])] }
def lB : Layer := { obj := oB, frags := [fC, fB], isEsd := false, links := [(⟨"B", [fC, fB]⟩, oB), (⟨"x", [fC, fB]⟩, dA)],
                    importRefs := [], parentKeys := [], prio := 3,
                    refs := [⟨"B.p.dop", ⟨"d", [fC, fB]⟩, none⟩], snrefs := [], locals := [] }
def all : List Layer := [lS, lA, lB]
end Ex

/-- at the pinned commit, resolving layer `A` (which imports `S`) changes what the *global* database
    stores -/
theorem C10_import_local_pinned_counterexample :
    ¬ ∀ (all : List Layer) (h : Heap) (g : DbObj) (l : Layer) (s' : Heap × DbObj) (res : Resolved),
        WF h g → resolveLayerPinned all (h, g) l = .ok (s', res) → view s'.1 s'.2 = view h g := by
  intro hall
  have hd : (resolveLayerPinned Ex.all (buildGlobal [] Ex.all) Ex.lA).map
      (fun p => decide (view p.1.1 p.1.2 = view (buildGlobal [] Ex.all).1 (buildGlobal [] Ex.all).2))
      = .ok false := by decide
  cases hr : resolveLayerPinned Ex.all (buildGlobal [] Ex.all) Ex.lA with
  | error e => rw [hr] at hd; cases hd
  | ok p =>
    rw [hr] at hd
    have := hall Ex.all _ _ Ex.lA p.1 p.2 (buildGlobal_wf [] Ex.all) hr
    simp [Except.map, this] at hd

/-- … and this is observable: layer `B`'s reference `d` dangles in the database as built, but binds to
    the DOP of the unrelated ECU-SHARED-DATA once `A` has been resolved before it -/
example :
    (resolveLayerPinned Ex.all (buildGlobal [] Ex.all) Ex.lB).map (·.2) = .error .key ∧
    (match resolveLayerPinned Ex.all (buildGlobal [] Ex.all) Ex.lA with
     | .ok (s', _) => (resolveLayerPinned Ex.all s' Ex.lB).map (fun (p : (Heap × DbObj) × Resolved) => p.2)
     | .error e => (.error e : Except Err Resolved)) = .ok [("B.p.dop", 4)] := by decide

/-! ## Non-vacuity: concrete instances of every hypothesis / both sides of every equivalence -/

/-- the same local id `x` in two layers of one container: each layer resolves to its own object, the
    container fragment alone yields the one built last, an unknown id raises `KeyError`, a wrong expected
    type raises `OdxError` -/
example :
    let db := update [] [(⟨"x", [Ex.fC, Ex.fA]⟩, Ex.dA), (⟨"x", [Ex.fC, Ex.fB]⟩, Ex.dS)] true
    resolve db ⟨"x", [Ex.fC, Ex.fA]⟩ none true = .ok (some Ex.dA) ∧
    resolve db ⟨"x", [Ex.fC, Ex.fB]⟩ none true = .ok (some Ex.dS) ∧
    resolve db ⟨"x", [Ex.fC]⟩ none true = .ok (some Ex.dS) ∧
    resolve db ⟨"x", [Ex.fC, Ex.fS]⟩ none true = .ok (some Ex.dS) ∧
    resolve db ⟨"x", [Ex.fC2, Ex.fA]⟩ none false = .ok (some Ex.dA) ∧
    resolve db ⟨"y", [Ex.fC, Ex.fA]⟩ none true = .error .key ∧
    resolveLenient db ⟨"y", [Ex.fC, Ex.fA]⟩ none true = .ok none ∧
    resolve db ⟨"x", [Ex.fC, Ex.fA]⟩ (some "Request") true = .error .odx ∧
    stored db Ex.fA "x" = some Ex.dA ∧ Dangling (stored db) ⟨"y", [Ex.fC, Ex.fA]⟩ := by
  refine ⟨by decide, by decide, by decide, by decide, by decide, by decide, by decide, by decide, by decide, ?_⟩
  intro f hf
  simp at hf
  rcases hf with rfl | rfl <;> decide

/-- `overwrite=False` keeps `x`, adds `y`; `overwrite=True` replaces `x` -/
example :
    let db := update [] [(⟨"x", [Ex.fC]⟩, Ex.dA)] true
    stored db Ex.fC "x" = some Ex.dA ∧
    stored (update db [(⟨"x", [Ex.fC]⟩, Ex.dS), (⟨"y", [Ex.fC]⟩, Ex.dS)] false) Ex.fC "x" = some Ex.dA ∧
    stored (update db [(⟨"x", [Ex.fC]⟩, Ex.dS), (⟨"y", [Ex.fC]⟩, Ex.dS)] false) Ex.fC "y" = some Ex.dS ∧
    stored (update db [(⟨"x", [Ex.fC]⟩, Ex.dS)] true) Ex.fC "x" = some Ex.dS := by decide

/-- the example database meets the hypotheses of `C10_build`, `C10_import_local`, `C10_link_phase`; on
    the repaired model layer `A` resolves the imported `d`, layer `B` does not (loading fails with
    `KeyError`), and without `B`'s dangling reference the whole phase succeeds -/
example : ((Ex.all.flatMap (·.links)).map (·.1)).Nodup := by decide
example : (resolveLayer Ex.all (buildGlobal [] Ex.all) Ex.lA).map (·.2)
    = .ok [("A.p.dop", 4), ("A.q.dop", 5)] := by decide
example : (resolveLayer Ex.all (buildGlobal [] Ex.all) Ex.lB).map (·.2) = .error .key := by decide
example : (refresh [] Ex.all).map (·.links) = .error .key := by decide
example : (refresh [] [Ex.lS, Ex.lA]).map (·.links) = .ok [("A.p.dop", 4), ("A.q.dop", 5)] := by decide

/-- short names: unique → bound; duplicate, missing or wrongly typed → `OdxError` -/
example :
    resolveSnref "temperature" [Ex.oS, Ex.dS] (some "DopBase") true = .ok (some Ex.dS) ∧
    UniquelyNamed [Ex.oS, Ex.dS] "temperature" Ex.dS ∧
    resolveSnref "temperature" [Ex.dS, Ex.dA] none true = .error .odx ∧
    resolveSnref "nope" [Ex.dS, Ex.dA] none true = .error .odx ∧
    resolveSnref "temperature" [Ex.dS] (some "Table") true = .error .odx :=
  ⟨by decide, ⟨[Ex.oS], [], rfl, rfl, by decide, by simp⟩, by decide, by decide, by decide⟩

/-- re-targeting: base variant `P` has a parameter with DOP-SNREF `temperature`; variant `V` derives
    from `P` and defines its own `temperature`. After `refresh` the reference is bound to `P`'s DOP, after
    `retarget` to `V` it is bound to `V`'s. -/
example :
    let fP : Frag := ⟨"P", "LAYER"⟩
    let fV : Frag := ⟨"V", "LAYER"⟩
    let oP : Obj := ⟨10, ["DiagLayer"], "P"⟩
    let oV : Obj := ⟨11, ["DiagLayer"], "V"⟩
    let dP : Obj := ⟨12, ["DopBase"], "temperature"⟩
    let dV : Obj := ⟨13, ["DopBase"], "temperature"⟩
    let lP : Layer := { obj := oP, frags := [Ex.fC, fP], isEsd := false, links := [(⟨"P", [Ex.fC, fP]⟩, oP), (⟨"t", [Ex.fC, fP]⟩, dP)],
                        importRefs := [], parentKeys := [], prio := 3, refs := [],
                        snrefs := [⟨"P.req.p.dop", "temperature", ["dops"], [], some "DopBase"⟩], locals := [("dops", [dP])] }
    let lV : Layer := { obj := oV, frags := [Ex.fC, fV], isEsd := false, links := [(⟨"V", [Ex.fC, fV]⟩, oV), (⟨"t", [Ex.fC, fV]⟩, dV)],
                        importRefs := [], parentKeys := ["V.parent"], prio := 4, refs := [⟨"V.parent", ⟨"P", [Ex.fC, fV]⟩, some "DiagLayer"⟩],
                        snrefs := [], locals := [("dops", [dV])] }
    (refresh [] [lP, lV]).map (·.snrefs) = .ok [("P.req.p.dop", 12)] ∧
    retarget [lP, lV] [("V.parent", 10)] lV = .ok [("P.req.p.dop", 13)] := by decide

/-! re-targeting in a hierarchy that branches: ECU variant `E` derives from base variant `B`, which has
    the two functional groups `F` and `G` as parents (in this order). `F` and `G` each own a DOP-SNREF
    (`x` resp. `y`) and a DOP of that name; `E` overrides both. -/
namespace Ex2
def fr (n : String) : List Frag := [Ex.fC, ⟨n, "LAYER"⟩]
def oF : Obj := ⟨20, ["DiagLayer"], "F"⟩
def oG : Obj := ⟨21, ["DiagLayer"], "G"⟩
def oB : Obj := ⟨22, ["DiagLayer"], "B"⟩
def oE : Obj := ⟨23, ["DiagLayer"], "E"⟩
def xF : Obj := ⟨24, ["DopBase"], "x"⟩
def yG : Obj := ⟨25, ["DopBase"], "y"⟩
def xE : Obj := ⟨26, ["DopBase"], "x"⟩
def yE : Obj := ⟨27, ["DopBase"], "y"⟩
def lF : Layer := { obj := oF, frags := fr "F", isEsd := false, links := [(⟨"F", fr "F"⟩, oF)], importRefs := [],
                    parentKeys := [], prio := 2, refs := [],
                    snrefs := [⟨"F.req.p.dop", "x", ["dops"], [], some "DopBase"⟩], locals := [("dops", [xF])] }
def lG : Layer := { obj := oG, frags := fr "G", isEsd := false, links := [(⟨"G", fr "G"⟩, oG)], importRefs := [],
                    parentKeys := [], prio := 2, refs := [],
                    snrefs := [⟨"G.req.p.dop", "y", ["dops"], [], some "DopBase"⟩], locals := [("dops", [yG])] }
def lB : Layer := { obj := oB, frags := fr "B", isEsd := false, links := [(⟨"B", fr "B"⟩, oB)], importRefs := [],
                    parentKeys := ["B.parent0", "B.parent1"], prio := 3,
                    refs := [⟨"B.parent0", ⟨"F", fr "B"⟩, some "DiagLayer"⟩, ⟨"B.parent1", ⟨"G", fr "B"⟩, some "DiagLayer"⟩],
                    snrefs := [], locals := [] }
def lE : Layer := { obj := oE, frags := fr "E", isEsd := false, links := [(⟨"E", fr "E"⟩, oE)], importRefs := [],
                    parentKeys := ["E.parent0"], prio := 4,
                    refs := [⟨"E.parent0", ⟨"B", fr "E"⟩, some "DiagLayer"⟩],
                    snrefs := [], locals := [("dops", [xE, yE])] }
def all : List Layer := [lF, lG, lB, lE]
def res : Resolved := [("B.parent0", 20), ("B.parent1", 21), ("E.parent0", 22)]
end Ex2

/-- after `refresh` each reference is bound to its owner's DOP; after `retarget` to `E` *both* — also the
    one owned by `B`'s second parent — are bound to `E`'s DOPs; re-targeting to `B` binds them to the
    functional groups' DOPs again; `G` is reached by a path of two steps through `B`'s second PARENT-REF -/
example :
    (refresh [] Ex2.all).map (·.links) = .ok Ex2.res ∧
    (refresh [] Ex2.all).map (·.snrefs) = .ok [("F.req.p.dop", 24), ("G.req.p.dop", 25)] ∧
    (reach Ex2.all Ex2.res Ex2.all.length Ex2.lE).map (·.obj.uid) = [23, 22, 20, 21] ∧
    retarget Ex2.all Ex2.res Ex2.lE = .ok [("F.req.p.dop", 26), ("G.req.p.dop", 27)] ∧
    retarget Ex2.all Ex2.res Ex2.lB = .ok [("F.req.p.dop", 24), ("G.req.p.dop", 25)] ∧
    ParentPath Ex2.all Ex2.res 2 Ex2.lE Ex2.lG := by
  refine ⟨by decide, by decide, by decide, by decide, by decide, ?_⟩
  have h1 : parentsOf Ex2.all Ex2.res Ex2.lE = [Ex2.lB] := by rfl
  have h2 : parentsOf Ex2.all Ex2.res Ex2.lB = [Ex2.lF, Ex2.lG] := by rfl
  exact .step (p := Ex2.lB) (by rw [h1]; simp) (.step (p := Ex2.lG) (by rw [h2]; simp) (.refl _))

/-- value inheritance with several parents: an ECU-SHARED-DATA parent (priority 100) overrides what the
    other parents offer, whatever the order of the PARENT-REFs; among parents of different priority the
    higher one wins; local objects override everything -/
example :
    let mk (u : Nat) (n : String) (esd : Bool) (prio : Nat) (ps : List String) (loc : List Obj) : Layer :=
      { obj := ⟨u, ["DiagLayer"], n⟩, frags := [Ex.fC, ⟨n, "LAYER"⟩], isEsd := esd, links := [], importRefs := [],
        parentKeys := ps, prio := prio, refs := [], snrefs := [], locals := [("dops", loc)] }
    let lS := mk 1 "S" true 100 [] [⟨11, [], "x"⟩]
    let lF := mk 2 "F" false 2 [] [⟨12, [], "x"⟩, ⟨13, [], "y"⟩]
    let lB := mk 3 "B" false 3 ["B.p0"] [⟨14, [], "y"⟩, ⟨15, [], "z"⟩]
    let lE := mk 4 "E" false 4 ["E.p0", "E.p1", "E.p2"] [⟨16, [], "z"⟩]
    let all := [lS, lF, lB, lE]
    let res : Resolved := [("B.p0", 2), ("E.p0", 2), ("E.p1", 3), ("E.p2", 1)]
    (visible all res "dops" all.length lE).map (·.uid) = [11, 14, 16] ∧
    (visible all res "dops" all.length lB).map (·.uid) = [12, 14, 15] := by decide

end OdxVerif.OdxLink
