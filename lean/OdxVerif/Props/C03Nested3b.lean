import OdxVerif.Props.C02Nested3b
import OdxVerif.Props.C03Nested3
import OdxVerif.Proofs.CompBits3URe
/-! # C03, nested tier, edition 3b (task W29) — decode → re-encode reproduces the PDU for descriptions with a compu DOP as
    MULTIPLEXER switch key / DYNAMIC-LENGTH-FIELD count and the W23 leaves (`Desc3b` / `Described3b`).
    (Separate file; imported nowhere.) -/
namespace OdxVerif.Codec
open OdxVerif.Bits OdxVerif.OdxM OdxVerif.Compu

/- Full statement of C03: see `Props/C03Nested.lean`.  Proved here: the instance where the decoded value tree is a well-formed
   `Desc3b`.  "The PDU is described in canonical form" is `hbits` + `hdisj` + `hcover` + `hext` over `Descs3b.layout ds` (as in
   `C03_reencode_nested3`); for the new composites `hbits` says:
     * MULTIPLEXER with a compu switch key: the key object's bits are `Obj.specRepr ki`, where `ki` is the INTERNAL image of
       the key the encoder chooses for the case — `m.lo` = the selected CASE's LOWER-LIMIT (the default case: its key), through
       the key DOP (`MuxLayout.okConv`: `ConvOk kd … m.lo m.lo ki`, `m.encSel`).  A key on the wire whose PHYSICAL value lies in
       the interior of the CASE's range is not canonical: `C03_mux_compu_key_interior_not_reproduced` (`22 0B 07` ↦ ("one", {v: 7})
       ↦ `22 09 07`), as for an IDENTICAL key;
     * DYNAMIC-LENGTH-FIELD with a compu count: the count object's bits are `Obj.specRepr ci`, `ci` the internal image of the
       number of items (`DynLayout.okConv`: `ConvOk cd … n n ci`).  The conversion must be exact in both directions; a count
       DOP under which the number of items has no internal pre-image is outside (`C03_dynlen_compu_count_rounded`: phys = 2·x,
       one item ↦ count 0.5 ↦ rounded to 0 by the encoder — the encoded PDU `22 00 0A` does not decode to the one item);
     * the W23 leaves: as for the W21 leaves (`ConvOk`), `Desc3.full`: `sup = val` (LINEAR / real physical type: the supplied
       float is the decoded one, `LinFLeaf.desc_full`; DTC / LINEAR: the DTC object is supplied).
   `Descs3b.full`: every value is supplied as the decoder returns it; the switch key / the count are no part of the value.
   Missing relative to the full statement: what `Described3b` lacks (see `Props/C01Nested3b.lean`) and the completeness
   direction (that every successfully decoded PDU whose bits are described is such a layout). -/

/-- a parameter containing an END-OF-PDU object is present (then necessarily in last position) -/
def Descs3b.endsWithEop (ds : List Desc3b) : Bool := Comps.anyEop (Descs3b.comps ds)

/-- **C03, nested tier, edition 3b — with MATCHING-REQUEST-PARAMs** (`C03_reencode_nested3_echo` over `Desc3b`): `ds` a
    well-formed request / response to `trig` with its value tree, `pdu` a PDU whose bits are exactly the canonical layout of `ds`
    (compu switch key / count: the pattern of the internal key / count).  Then strict `decode` returns `Descs3b.decoded ds`
    (physical values) and the cursor `Descs3b.endCursor ds`, and strict `encode` of `Descs3b.supplied ds` returns the PDU byte
    for byte, without an overlap warning. -/
theorem C03_reencode_nested3b_echo (ds : List Desc3b) (trig : Option Bytes) (hok : Descs3b.ok trig ds) (pdu : Bytes) (hall : AllBytes pdu)
    (hbits : ∀ e ∈ Descs3b.layout ds, ∀ j, j < e.bl → getBit pdu (absBit e.pos e.k e.hl (j + e.bp)) = e.raw.testBit j)
    (hdisj : LDisj2 (Descs3b.layout ds))
    (hcover : ∀ a, a < 8 * pdu.length → ∃ e ∈ Descs3b.layout ds, e.claims a)
    (hext : Descs3b.extent ds ≤ pdu.length)
    (hend : Descs3b.endsWithEop ds = true → Descs3b.endCursor ds = pdu.length) :
    decodeMessage none (Descs3b.params ds) pdu true = .ok (.dict (Descs3b.decoded ds), Descs3b.endCursor ds) ∧
      encodeMessage none (Descs3b.params ds) (.dict (Descs3b.supplied ds)) trig true = .ok (pdu, 0) := by
  obtain ⟨hm, hw⟩ := descs3b_reencode_pure trig ds hok.1 pdu hall hbits ((LDisj2_iff _).mp hdisj) hcover hext
  have henc : encodeMessage none (Descs3b.params ds) (.dict (Descs3b.supplied ds)) trig true = .ok (pdu, 0) := by
    rw [descs3b_encodeMessage trig ds hok, hm, hw]
  refine ⟨?_, henc⟩
  have hcur := descs3b_cur_eq trig ds hok.1
  have hdec := C01_roundtrip_nested3b (Descs3b.mcs ds) trig (Descs3b.describedTop trig ds hok.1) hok.2.2.2.2 hok.2.1 hok.2.2.1
    hok.2.2.2.1 pdu
    (fun h => by
      have h1 : Comps.cur (Descs3b.comps ds) 0 0 = Descs3b.endCursor ds := hcur
      have h2 := hend h
      exact h1.trans h2) henc
  have hdec' : decodeMessage none (Descs3b.params ds) pdu true =
      .ok (.dict (Descs3b.decoded ds), Comps.cur (Descs3b.comps ds) 0 0) := hdec
  rw [hcur] at hdec'
  exact hdec'

/-- **C03, nested tier, edition 3b.**  For a fully supplied value tree (`Descs3b.full`: an entry for every parameter, a compu
    leaf's supplied value is the decoded one; no MATCHING-REQUEST-PARAM) strict `decode` of the canonical PDU returns exactly
    `V = Descs3b.decoded ds`, and strict `encode` of exactly that `V` returns the PDU, without an overlap warning. -/
theorem C03_reencode_nested3b (ds : List Desc3b) (trig : Option Bytes) (hok : Descs3b.ok trig ds) (hfull : Descs3b.full ds)
    (pdu : Bytes) (hall : AllBytes pdu)
    (hbits : ∀ e ∈ Descs3b.layout ds, ∀ j, j < e.bl → getBit pdu (absBit e.pos e.k e.hl (j + e.bp)) = e.raw.testBit j)
    (hdisj : LDisj2 (Descs3b.layout ds))
    (hcover : ∀ a, a < 8 * pdu.length → ∃ e ∈ Descs3b.layout ds, e.claims a)
    (hext : Descs3b.extent ds ≤ pdu.length)
    (hend : Descs3b.endsWithEop ds = true → Descs3b.endCursor ds = pdu.length) :
    decodeMessage none (Descs3b.params ds) pdu true = .ok (.dict (Descs3b.decoded ds), Descs3b.endCursor ds) ∧
      encodeMessage none (Descs3b.params ds) (.dict (Descs3b.decoded ds)) trig true = .ok (pdu, 0) := by
  have h := C03_reencode_nested3b_echo ds trig hok pdu hall hbits hdisj hcover hext hend
  rw [Descs3b.supplied_eq_decoded ds hfull] at h
  exact h

/-- the converse: the PDU that strict `encode` makes satisfies the canonicity hypotheses except coverage — provided no
    BYTE-SIZE padding lies over an earlier object -/
theorem C03_encoded_is_canonical3b (ds : List Desc3b) (trig : Option Bytes) (hok : Descs3b.ok trig ds) (hp : Descs3b.padOk ds) (pdu : Bytes)
    (henc : encodeMessage none (Descs3b.params ds) (.dict (Descs3b.supplied ds)) trig true = .ok (pdu, 0)) :
    (∀ e ∈ Descs3b.layout ds, ∀ j, j < e.bl → getBit pdu (absBit e.pos e.k e.hl (j + e.bp)) = e.raw.testBit j) ∧
    LDisj2 (Descs3b.layout ds) ∧ Descs3b.extent ds ≤ pdu.length := by
  obtain ⟨h1, _, h4⟩ := C02_bit_exact_nested3b ds trig hok pdu henc
  exact ⟨(h1 hp).1, (h1 hp).2, by omega⟩

/-- the W23 leaf kinds: a LINEAR / real-physical-type leaf is "full" when the supplied float is the decoded one; a DTC / LINEAR
    leaf when the DTC object is supplied; an IDENTICAL leaf always -/
theorem LinFLeaf.desc_full (l : LinFLeaf) (h : l.sup = .flt l.b) : l.desc.full := by simp [LinFLeaf.desc, Desc3.full, h]
theorem DtcLinLeaf.desc_full (l : DtcLinLeaf) : (l.desc (.dtc l.z)).full := by simp [DtcLinLeaf.desc, Desc3.full]
theorem IdLeaf.desc_full (l : IdLeaf) : l.desc.full := by simp [IdLeaf.desc, Desc3.full]

/-! ### non-vacuity: the message `ex9` of `Props/C01Nested3b.lean` as a decoded value tree
    PDU `22 04 04 01 07 03 0A 0B` ↦ { sid: 0x22, temp: 2.5, err: DTC 5, mx: ("one", {v: 7}), df: [{b: 10}, {b: 11}] } ↦ the PDU -/
def exRe9 : List Desc3b :=
  [.old (.const (u8o "sid") (.int 0x22) true), .old ex9Temp.desc, .old (ex9Err.desc (.dtc 5)), exD9Mx, exD9Df]

example : Descs3b.decoded exRe9 =
    [("sid", .atom (.int 0x22)), ("temp", .atom (.flt 0x4004000000000000)), ("err", .dtc 5),
     ("mx", .pair "one" (.dict [("v", .atom (.int 7))])),
     ("df", .list [.dict [("b", .atom (.int 10))], .dict [("b", .atom (.int 11))]])] := rfl

theorem exRe9_ok : Descs3b.ok none exRe9 := by
  refine ⟨⟨?_, ex9Temp.desc_wf ex9Temp_ok, ex9Err.desc_wf ex9Err_ok _ rfl, exD9Mx_wf, exD9Df_wf, trivial⟩, ?_,
    ⟨rfl, rfl, rfl, rfl, trivial⟩, rfl, by decide⟩
  · show Desc3.wf (.const (u8o "sid") (.int 0x22) true)
    simp only [Desc3.wf]
    exact ⟨u8o_ok _, by simp [u8o, Obj.inRange]⟩
  · simp [Comps.namesOk, exRe9, exD9Mx, exD9Df, Descs3b.comps, Descs3b.mcs, Desc3b.mc, Desc3.mc, MComps.cs, Comp.name, Param.name,
      Comp.ofObjConst, Obj.toConstParam, Comp.ofValue, LinFLeaf.desc, DtcLinLeaf.desc, Comp.ofConvLeaf, ex9Temp, ex9Err, u8o]

theorem exRe9_full : Descs3b.full exRe9 := by
  simp [exRe9, exD9Mx, exD9Df, u8d, Descs3b.full, Desc3b.full, Descss3b.full, Desc3.full, LinFLeaf.desc, DtcLinLeaf.desc,
    ex9Temp, ex9Err]

theorem exRe9_layout : Descs3b.layout exRe9 = Descs3b.layout exD9 := by decide +kernel

theorem exRe9_disj : LDisj2 (Descs3b.layout exRe9) := by rw [exRe9_layout]; exact exD9_disj

/-- the theorem applies: strict decode of `22 04 04 01 07 03 0A 0B` returns the physical values and consumes the 8 bytes; strict
    encode of exactly the decoded dictionary returns the PDU -/
example : decodeMessage none (Descs3b.params exRe9) ex9Pdu true = .ok (.dict (Descs3b.decoded exRe9), 8) ∧
    encodeMessage none (Descs3b.params exRe9) (.dict (Descs3b.decoded exRe9)) none true = .ok (ex9Pdu, 0) :=
  C03_reencode_nested3b exRe9 none exRe9_ok exRe9_full ex9Pdu (by unfold AllBytes ex9Pdu; decide)
    (by rw [exRe9_layout, exD9_layout]; decide +kernel) exRe9_disj
    (by rw [exRe9_layout, exD9_layout]; decide +kernel) (by decide +kernel) (fun _ => by decide +kernel)

/-! ### the excluded points — model = odxtools at each of them (/tmp/w29/real.py on /repo, see design_notes/C03.md, W29) -/

def exKeyOffDop : Dop := .simple (.std .uint32 none true 8 none false) .uint32
  (.linear { num0 := 1, num1 := 1, den := 1, lower := none, upper := none })
def exKeyOffParams : List Param :=
  [.mk "sid" none none (.codedConst (.std .uint32 none true 8 none false) (.int 0x22)),
   .mk "mx" none none (.value (.mux 1 0 none exKeyOffDop ex9Mux.cases none) none)]

/-- **MULTIPLEXER with a compu switch key, a key in the interior of the CASE's range is not canonical** (`MuxLayout.okConv` /
    `encSel`: the key the encoder writes is the internal image of the CASE's LOWER-LIMIT): key DOP phys = x + 1, cases
    "zero" 0..9, "one" 10..19.  `22 0B 07` — every bit described, the key 0x0B ↦ physical 12 selects "one" — decodes to
    {sid: 0x22, mx: ("one", {v: 7})}; strict encode of exactly that returns `22 09 07` (the internal image of the lower limit
    10).  Inherent, as for an IDENTICAL key: the case name does not determine the key. -/
theorem C03_mux_compu_key_interior_not_reproduced :
    decodesTo (decodeMessage none exKeyOffParams [0x22, 0x0B, 0x07] true)
      (.dict [("sid", .atom (.int 0x22)), ("mx", .pair "one" (.dict [("v", .atom (.int 7))]))]) 3 = true ∧
    (encodeMessage none exKeyOffParams (.dict [("sid", .atom (.int 0x22)), ("mx", .pair "one" (.dict [("v", .atom (.int 7))]))])
      none true).toOption = some ([0x22, 0x09, 0x07], 0) ∧
    decodesTo (decodeMessage none exKeyOffParams [0x22, 0x09, 0x07] true)
      (.dict [("sid", .atom (.int 0x22)), ("mx", .pair "one" (.dict [("v", .atom (.int 7))]))]) 3 = true := by
  refine ⟨?_, ?_, ?_⟩ <;> decide +kernel

def exCnt2Params : List Param :=
  [.mk "sid" none none (.codedConst (.std .uint32 none true 8 none false) (.int 0x22)),
   .mk "df" none none (.value (.dynLenField 1 0 0
     (.simple (.std .uint32 none true 8 none false) .uint32 (.linear { num0 := 0, num1 := 2, den := 1, lower := none, upper := none }))
     (.struct none (Comps.toParams (MComps.cs (ex9Item 0))))) none)]

/-- **DYNAMIC-LENGTH-FIELD with a compu count, a number of items without internal pre-image** (`DynLayout.okConv`: `ConvOk`
    needs `p2i n = ci` AND `i2p ci = n`): count DOP phys = 2·x.  Two items: count 1, `22 01 0A 0B`, decodes to the two items.
    One item: the encoder writes round-half-even(0.5) = 0 — `22 00 0A`, a PDU whose count says "no items" in front of one
    item (strict mode, no error, no warning). -/
theorem C03_dynlen_compu_count_rounded :
    (encodeMessage none exCnt2Params (.dict [("df", .list [.dict [("b", .atom (.int 10))], .dict [("b", .atom (.int 11))]])])
      none true).toOption = some ([0x22, 0x01, 0x0A, 0x0B], 0) ∧
    decodesTo (decodeMessage none exCnt2Params [0x22, 0x01, 0x0A, 0x0B] true)
      (.dict [("sid", .atom (.int 0x22)), ("df", .list [.dict [("b", .atom (.int 10))], .dict [("b", .atom (.int 11))]])]) 4 = true ∧
    (encodeMessage none exCnt2Params (.dict [("df", .list [.dict [("b", .atom (.int 10))]])]) none true).toOption
      = some ([0x22, 0x00, 0x0A], 0) := by
  refine ⟨?_, ?_, ?_⟩ <;> decide +kernel

/-! ## UTF-16LE leaves inside field items and multiplexer cases (`Desc2U` / `Described2U`) -/

def Descs2U.endsWithEop (ds : List Desc2U) : Bool := Comps.anyEop (Descs2U.comps ds)

/-- **C03, nested tier, with UTF-16LE leaves at any depth** (`C03_reencode_nested2` over `Desc2U`): `ds` a well-formed request /
    response with a fully supplied value tree (`Descs2U.full`; a UTF-16LE leaf's value is its list of code points), `pdu` a PDU whose
    bits are exactly the layout of `ds` (UTF-16LE leaf: the UTF-16LE bytes of the string — the canonical encoding of the code
    points, `U16.inRange`).  Then strict `decode` returns `V = Descs2U.decoded ds`, and strict `encode` of exactly `V` returns
    the PDU byte for byte, without an overlap warning. -/
theorem C03_reencode_nested2U (ds : List Desc2U) (trig : Option Bytes) (hok : Descs2U.ok trig ds) (hfull : Descs2U.full ds)
    (pdu : Bytes) (hall : AllBytes pdu)
    (hbits : ∀ e ∈ Descs2U.layout ds, ∀ j, j < e.bl → getBit pdu (absBit e.pos e.k e.hl (j + e.bp)) = e.raw.testBit j)
    (hdisj : LDisj2 (Descs2U.layout ds))
    (hcover : ∀ a, a < 8 * pdu.length → ∃ e ∈ Descs2U.layout ds, e.claims a)
    (hext : Descs2U.extent ds ≤ pdu.length)
    (hend : Descs2U.endsWithEop ds = true → Descs2U.endCursor ds = pdu.length) :
    decodeMessage none (Descs2U.params ds) pdu true = .ok (.dict (Descs2U.decoded ds), Descs2U.endCursor ds) ∧
      encodeMessage none (Descs2U.params ds) (.dict (Descs2U.decoded ds)) trig true = .ok (pdu, 0) := by
  obtain ⟨hm, hw⟩ := descs2U_reencode_pure trig ds hok.1 pdu hall hbits ((LDisj2_iff _).mp hdisj) hcover hext
  have henc : encodeMessage none (Descs2U.params ds) (.dict (Descs2U.supplied ds)) trig true = .ok (pdu, 0) := by
    rw [descs2U_encodeMessage trig ds hok, hm, hw]
  have hcur := descs2U_cur_eq trig ds hok.1
  have hdec := C01_roundtrip_nested2U (Descs2U.mcs ds) trig (Descs2U.describedTop trig ds hok.1) hok.2.2.2.2 hok.2.1 hok.2.2.1
    hok.2.2.2.1 pdu
    (fun h => by
      have h1 : Comps.cur (Descs2U.comps ds) 0 0 = Descs2U.endCursor ds := hcur
      have h2 := hend h
      exact h1.trans h2) henc
  have hdec' : decodeMessage none (Descs2U.params ds) pdu true =
      .ok (.dict (Descs2U.decoded ds), Comps.cur (Descs2U.comps ds) 0 0) := hdec
  rw [hcur] at hdec'
  rw [Descs2U.supplied_eq_decoded trig ds hok.1 hfull] at henc
  exact ⟨hdec', henc⟩

/-- non-vacuity: `exU` of `Props/C01Nested2U.lean` with `sid` supplied:
    `22 01 48 00 69 00 01 48 00 69 00 02 3D D8 00 DE` ↦ {sid, m: ("c1", {txt: "Hi"}), f: [{k: 1, txt: "Hi"}, {k: 2, txt: "😀"}]} ↦ the PDU -/
def exReU : List Desc2U :=
  [.base (.const ⟨"sid", none, none, none, true, 8, .uint32⟩ (.int 0x22) true),
   .mux "m" none exUMuxLayout [.u16le uTxt [0x48, 0x69] [0x48, 0x00, 0x69, 0x00]],
   .eopField "f" none none none none (Comps.toParams (MComps.cs (exUItem 0 [] [])))
     [exDUItem 1 [0x48, 0x69] [0x48, 0x00, 0x69, 0x00], exDUItem 2 [0x1F600] [0x3D, 0xD8, 0x00, 0xDE]]]

theorem exReU_ok : Descs2U.ok none exReU := by
  obtain ⟨⟨_, h2, h3, _⟩, _, _, _, _⟩ := exDU_ok
  refine ⟨⟨?_, h2, h3, trivial⟩, ?_, ⟨rfl, rfl, trivial⟩, rfl, by decide⟩
  · show Desc2.wf (.const ⟨"sid", none, none, none, true, 8, .uint32⟩ (.int 0x22) true)
    simp only [Desc2.wf]
    exact ⟨by simp [Obj.ok, Obj.encOk, Obj.sizeOk], by simp [Obj.inRange]⟩
  · show Comps.namesOk (MComps.cs exU)
    exact exU_names

theorem exReU_full : Descs2U.full exReU := by
  simp [exReU, exDUItem, u8bU, Descs2U.full, Desc2U.full, Descss2U.full, Desc2.full]

theorem exReU_layout : Descs2U.layout exReU = Descs2U.layout exDU := by decide +kernel

theorem exReU_disj : LDisj2 (Descs2U.layout exReU) := by
  obtain ⟨pdu, w, h, _, hiff⟩ := C02_overlap_iff_nested2U exDU none exDU_ok
  rw [show encodeMessage none (Descs2U.params exDU) (.dict (Descs2U.supplied exDU)) none true = .ok (exUPdu, 0) from exU_enc] at h
  simp only [Except.ok.injEq, Prod.mk.injEq] at h
  rw [exReU_layout]
  exact (hiff (Descs2U.padOk_of_noSizePadding _ (by rw [exDU_layout]; decide))).mp h.2.symm

example : decodeMessage none (Descs2U.params exReU) exUPdu true = .ok (.dict (Descs2U.decoded exReU), 16) ∧
    encodeMessage none (Descs2U.params exReU) (.dict (Descs2U.decoded exReU)) none true = .ok (exUPdu, 0) :=
  C03_reencode_nested2U exReU none exReU_ok exReU_full exUPdu (by unfold AllBytes exUPdu; decide)
    (by rw [exReU_layout, exDU_layout]; decide +kernel) exReU_disj
    (by rw [exReU_layout, exDU_layout]; decide +kernel) (by decide +kernel) (fun _ => by decide +kernel)

end OdxVerif.Codec
