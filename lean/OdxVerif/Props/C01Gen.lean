import OdxVerif.Props.C01
import OdxVerif.Proofs.MuxDefaultKeyGenEq
/-! # C01 — the multiplexer's default-case key through the function GENERATED from the source

    `Gen.defaultCaseKeyE` (`Gen/MuxDefaultKey.lean`) is regenerated from `Multiplexer._get_default_case_key` of
    `odxtools/multiplexer.py` on every run of C01 (`harness/extract/py2lean.py`); the theorems below are re-checked against
    the current source. `self.cases` is the model's case list, `self._get_case_limits(x)` the pair `(x.lower, x.upper)`
    (abstract record interface: integer switch keys). -/
namespace OdxVerif.Codec

/-- **Tie + `C01_mux_default_key` for the rendered source.** For every list of cases (any declaration order, overlapping
    or not) the rendered `_get_default_case_key` raises nothing, returns the model's `defaultCaseKey`, and the key it returns
    is non-negative, claimed by no regular case, and sends the decoder's case look-up to the DEFAULT-CASE. -/
theorem C01_gen_mux_default_key (cases : List MuxCaseD) :
    Gen.defaultCaseKeyE cases = .ok (defaultCaseKey cases) ∧
    ∃ k, Gen.defaultCaseKeyE cases = .ok k ∧ 0 ≤ k ∧ caseOfKey k cases = none ∧
      ∀ c ∈ cases, ¬ (c.lower ≤ k ∧ k ≤ c.upper) :=
  ⟨gen_defaultCaseKey_eq cases,
   defaultCaseKey cases, gen_defaultCaseKey_eq cases, (C01_mux_default_key cases).1, (C01_mux_default_key cases).2.1,
   (C01_mux_default_key cases).2.2⟩

/-! non-vacuity on the generated function itself: unsorted declaration order, overlapping cases, a gap, negative limits -/
example : Gen.defaultCaseKeyE [.mk "high" 16 31 none, .mk "b" 1 2 none, .mk "low" 0 15 none, .mk "x" 32 32 none] = .ok 33 := by decide
example : Gen.defaultCaseKeyE [.mk "c" 5 9 none, .mk "a" (-3) 1 none, .mk "b" 1 3 none] = .ok 4 := by decide
example : Gen.defaultCaseKeyE [.mk "a" 1 9 none] = .ok 0 := by decide
example : Gen.defaultCaseKeyE [] = .ok 0 := by decide

end OdxVerif.Codec
