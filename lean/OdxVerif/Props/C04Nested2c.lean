import OdxVerif.Props.C04Nested2b
import OdxVerif.Proofs.CompReject4MinMaxStr
import OdxVerif.Proofs.CompReject4EndMarker
/-! # C04 on the compositional nested tier, part 2c (task W31): **terminated MIN-MAX-LENGTH-TYPE leaves over the string base types**
    `C04_nested2b` (`Props/C04Nested2b.lean`) has terminated MIN-MAX-LENGTH leaves over `A_BYTEFIELD`.  Here the leaf may also be over
    `A_ASCIISTRING` (ISO-8859-1), `A_UTF8STRING` or `A_UNICODE2STRING` (two-byte terminator, UTF-16 in the DOP's byte order):
    `PDesc.ofMinMaxMidStr` (`Proofs/CompReject4MinMaxStr.lean`), class `DescribedP2c`.
    Acceptance (explicit, `MMStrShape.rawOf`): a string the DOP's codec can encode into MIN-LENGTH … MAX-LENGTH bytes without a
    termination sequence at an aligned position ≥ MIN-LENGTH.
    Shape hypothesis `MMStrShape.okMid` (decidable): string base type, TERMINATION ≠ END-OF-PDU, MIN-LENGTH ≥ 1, and an even (or absent)
    MAX-LENGTH for A_UNICODE2STRING.  The last condition is forced by the proof: with an odd MAX-LENGTH m a value of m − 1 bytes
    gets a two-byte terminator ending at m + 1 while the decoder looks at m bytes at most (see the note at `x4OddMax` below).
    NOT covered: MIN-LENGTH 0, BASE-TYPE-ENCODING on the string types other than none, a terminated leaf in last position of a field item. -/
namespace OdxVerif.Codec
open OdxVerif.Bits OdxVerif.OdxM

/-- **C04, nested tier with terminated MIN-MAX-LENGTH leaves over A_BYTEFIELD and the string base types.**  The request's parameters
    `MDescs.ps ms` are `DescribedP2c` descriptions (flag `mid = false`) or terminated MIN-MAX-LENGTH leaves (`mid = true`, none of them
    last).  Strict `encode` of the model on an arbitrary supplied value (atoms Python can supply, typed) raises `EncodeError` /
    `OdxError`, or returns a PDU — and then the value is a dictionary the description accepts, and unless an overlap was reported strict
    `decode` returns its completion. -/
theorem C04_nested2c (ms : List MDesc) (hd : ∀ m ∈ ms, m.mid = false → DescribedP2c m.p)
    (hm : ∀ m ∈ ms, m.mid = true → m.p.IsMidLeaf)
    (hn : PDescs.namesOk (MDescs.ps ms)) (hl : PDescs.eopLast (MDescs.ps ms)) (hmid : MDescs.lastMid ms = false)
    (pv : PVal) (hwf : pv.wfAtoms = true) (trig : Option Bytes) (hneed : pv.needFor (MDescs.ps ms) ≤ modelFuel)
    (hty : pv.typedForP (MDescs.ps ms) = true) :
    (∃ e, encodeMessage none (PDescs.toParams (MDescs.ps ms)) pv trig true = .error e ∧ (e = .encode ∨ e = .odx)) ∨
    ∃ (kvs : List (String × PVal)) (pdu : Bytes) (w : Nat), pv = .dict kvs ∧ pv.acceptedByP (MDescs.ps ms) = true ∧
      encodeMessage none (PDescs.toParams (MDescs.ps ms)) pv trig true = .ok (pdu, w) ∧
      (w = 0 → (PDescs.anyEop (MDescs.ps ms) = true → pv.endCursor (MDescs.ps ms) = pdu.length) →
        ∃ cursor, decodeMessage none (PDescs.toParams (MDescs.ps ms)) pdu true =
          .ok (.dict (PDescs.complete (MDescs.ps ms) kvs), cursor)) := by
  rcases encodeMessage_nested2c_cases ms hd hm hn hl hmid pv hwf trig hneed with
    ⟨_, e, hrun, he⟩ | ⟨c, hf, hc, pdu, w, hrun, hrt⟩
  · rcases he with he | ⟨_, hff⟩
    · exact Or.inl ⟨e, hrun, he⟩
    · rw [PVal.typedForP] at hty; rw [hty] at hff; cases hff
  · obtain ⟨kvs, rfl⟩ := DDesc.struct_fill_dict _ pv c hf
    refine Or.inr ⟨kvs, pdu, w, rfl, by simp [PVal.acceptedByP, hf], hrun, ?_⟩
    intro hw hend
    exact hrt hw (fun he => by
      have := hend (hc.eop he)
      simpa [PVal.endCursor, hf] using this)

/-- **accepted ⇔ acceptable** with terminated leaves of both kinds -/
theorem C04_nested_accepts_iff2c (ms : List MDesc) (hd : ∀ m ∈ ms, m.mid = false → DescribedP2c m.p)
    (hm : ∀ m ∈ ms, m.mid = true → m.p.IsMidLeaf)
    (hn : PDescs.namesOk (MDescs.ps ms)) (hl : PDescs.eopLast (MDescs.ps ms)) (hmid : MDescs.lastMid ms = false)
    (pv : PVal) (hwf : pv.wfAtoms = true) (trig : Option Bytes) (hneed : pv.needFor (MDescs.ps ms) ≤ modelFuel) :
    (∃ r, encodeMessage none (PDescs.toParams (MDescs.ps ms)) pv trig true = .ok r) ↔ pv.acceptedByP (MDescs.ps ms) = true := by
  rcases encodeMessage_nested2c_cases ms hd hm hn hl hmid pv hwf trig hneed with
    ⟨hf, e, hrun, _⟩ | ⟨c, hf, _, pdu, w, hrun, _⟩
  · rw [hrun, PVal.acceptedByP, hf]
    constructor
    · rintro ⟨r, h⟩; cases h
    · intro h; cases h
  · rw [hrun, PVal.acceptedByP, hf]
    exact ⟨fun _ => rfl, fun _ => ⟨_, rfl⟩⟩

/-- the acceptance of a terminated string leaf, spelled out -/
theorem PDesc.ofMinMaxMidStr_fill_isSome (sh : MMStrShape) (pv : Option PVal) :
    ((PDesc.ofMinMaxMidStr sh).fill pv).isSome = true ↔ ∃ cps r, pv = some (.atom (.str cps)) ∧ sh.rawOf cps = some r := by
  constructor
  · intro h
    cases pv with
    | none => simp [PDesc.ofMinMaxMidStr] at h
    | some x =>
      cases x with
      | atom v =>
        cases v with
        | str cps =>
          cases hr : sh.rawOf cps with
          | some r => exact ⟨cps, r, rfl, hr⟩
          | none => simp [PDesc.ofMinMaxMidStr, hr] at h
        | _ => simp [PDesc.ofMinMaxMidStr] at h
      | _ => simp [PDesc.ofMinMaxMidStr] at h
  · rintro ⟨cps, r, rfl, hr⟩
    simp [PDesc.ofMinMaxMidStr, hr]

/-! ## non-vacuity
    request = [ sid (CODED-CONST 0x2E); as : MIN-MAX-LENGTH-TYPE over A_ASCIISTRING, MIN 1, MAX 3, TERMINATION ZERO;
                u8s : … over A_UTF8STRING, MIN 1, no MAX, TERMINATION HEX-FF;
                st : STRUCTURE { u2 : … over A_UNICODE2STRING (big endian), MIN 2, MAX 6, TERMINATION ZERO; bf : A_BYTEFIELD leaf of W30; n : 8 bit };
                tail : 8 bit ] -/
def x4Asc : MMStrShape := { name := "as", bytePos := none, bt := .ascii, hl := true, minLen := 1, maxLen := some 3, term := .zero }
def x4Utf : MMStrShape := { name := "u8s", bytePos := none, bt := .utf8, hl := true, minLen := 1, maxLen := none, term := .hexff }
def x4Uni : MMStrShape := { name := "u2", bytePos := none, bt := .unicode2, hl := true, minLen := 2, maxLen := some 6, term := .zero }
def x4Inner : List MDesc := [MDesc.ofMinMaxMidStr x4Uni, MDesc.ofMinMaxMid wShX, MDesc.plain (pu8 "n")]
def x4St : PDesc := PDesc.ofValue "st" none (DDesc.struct (MDescs.ps x4Inner))
def x4Ms : List MDesc :=
  [MDesc.plain (PDesc.ofObjConst ⟨"sid", none, none, none, true, 8, .uint32⟩ (.int 0x2E)), MDesc.ofMinMaxMidStr x4Asc,
   MDesc.ofMinMaxMidStr x4Utf, MDesc.plain x4St, MDesc.plain (pu8 "tail")]
def x4S (cps : List Nat) : PVal := .atom (.str cps)
def x4Mk (a u u2 : PVal) : PVal :=
  .dict [("as", a), ("u8s", u), ("st", .dict [("u2", u2), ("hx", wB [1, 2]), ("n", .atom (.int 7))]), ("tail", .atom (.int 0x99))]

theorem x4_shapes_ok : x4Asc.okMid ∧ x4Utf.okMid ∧ x4Uni.okMid := by decide

theorem x4St_described : DescribedP2c x4St := by
  refine DescribedP2c.structM "st" none x4Inner ?_ ?_ ?_ ⟨rfl, rfl, trivial⟩ rfl
  · intro m hmem hmid
    simp only [x4Inner, List.mem_cons, List.mem_nil_iff, or_false] at hmem
    rcases hmem with rfl | rfl | rfl
    · cases hmid
    · cases hmid
    · exact DescribedP2c.base _ (DescribedP2b.base _ (described_pu8' _))
  · intro m hmem hmid
    simp only [x4Inner, List.mem_cons, List.mem_nil_iff, or_false] at hmem
    rcases hmem with rfl | rfl | rfl
    · exact Or.inr ⟨x4Uni, x4_shapes_ok.2.2, rfl⟩
    · exact Or.inl ⟨wShX, wSh_ok.2, rfl⟩
    · cases hmid
  · simp [PDescs.namesOk, MDescs.ps, x4Inner, MDesc.ofMinMaxMidStr, MDesc.ofMinMaxMid, MDesc.plain, PDesc.name, Param.name,
      PDesc.ofMinMaxMidStr, PDesc.ofMinMaxMidBytes, MMStrShape.leaf, MMShape.leaf, MMLeaf.toParam, x4Uni, wShX, pu8, PDesc.ofObjValue,
      Obj.toParam]

theorem x4Ms_described : (∀ m ∈ x4Ms, m.mid = false → DescribedP2c m.p) ∧ (∀ m ∈ x4Ms, m.mid = true → m.p.IsMidLeaf) := by
  constructor
  · intro m hmem hmid
    simp only [x4Ms, List.mem_cons, List.mem_nil_iff, or_false] at hmem
    rcases hmem with rfl | rfl | rfl | rfl | rfl
    · exact DescribedP2c.base _ (DescribedP2b.base _
        (DescribedP2.const _ _ (by simp [Obj.ok, Obj.encOk, Obj.sizeOk]) (by simp [Obj.inRange])))
    · cases hmid
    · cases hmid
    · exact x4St_described
    · exact DescribedP2c.base _ (DescribedP2b.base _ (described_pu8' _))
  · intro m hmem hmid
    simp only [x4Ms, List.mem_cons, List.mem_nil_iff, or_false] at hmem
    rcases hmem with rfl | rfl | rfl | rfl | rfl
    · cases hmid
    · exact Or.inr ⟨x4Asc, x4_shapes_ok.1, rfl⟩
    · exact Or.inr ⟨x4Utf, x4_shapes_ok.2.1, rfl⟩
    · cases hmid
    · cases hmid

theorem x4Ms_names : PDescs.namesOk (MDescs.ps x4Ms) ∧ PDescs.eopLast (MDescs.ps x4Ms) ∧ MDescs.lastMid x4Ms = false := by
  refine ⟨?_, ⟨rfl, rfl, rfl, rfl, trivial⟩, rfl⟩
  simp [PDescs.namesOk, MDescs.ps, x4Ms, MDesc.ofMinMaxMidStr, MDesc.plain, PDesc.name, Param.name, PDesc.ofObjConst, Obj.toConstParam,
    PDesc.ofMinMaxMidStr, MMStrShape.leaf, MMLeaf.toParam, x4Asc, x4Utf, x4St, PDesc.ofValue, pu8, PDesc.ofObjValue, Obj.toParam]

/-- accepted: "A" (terminated by `00`), "é" in UTF-8 (two bytes, terminated by `FF`), "AB" in UTF-16-BE (terminated by `00 00`);
    "ABC" = MAX-LENGTH of the ASCII leaf (NO terminator), U+1F600 (surrogate pair = 4 bytes), and "ABC" in UTF-16 = MAX-LENGTH 6 (no
    terminator) -/
example : [x4Mk (x4S [0x41]) (x4S [0xE9]) (x4S [0x41, 0x42]), x4Mk (x4S [0x41, 0x42, 0x43]) (x4S [0x1F600]) (x4S [0x41, 0x42, 0x43])].map
    (fun p => (p.wfAtoms && p.typedForP (MDescs.ps x4Ms) && p.acceptedByP (MDescs.ps x4Ms),
       (encodeMessage none (PDescs.toParams (MDescs.ps x4Ms)) p none true).toOption)) =
    [(true, some ([0x2E, 0x41, 0, 0xC3, 0xA9, 0xFF, 0, 0x41, 0, 0x42, 0, 0, 1, 2, 0xFF, 7, 0x99], 0)),
     (true, some ([0x2E, 0x41, 0x42, 0x43, 0xF0, 0x9F, 0x98, 0x80, 0xFF, 0, 0x41, 0, 0x42, 0, 0x43, 1, 2, 0xFF, 7, 0x99], 0))] := by
  decide +kernel
/-- rejected with `EncodeError`: the empty string, four characters, a character ISO-8859-1 does not have, an embedded NUL at a position
    ≥ MIN-LENGTH, one UTF-16 character below MIN-LENGTH… no: one character = 2 bytes = MIN-LENGTH is fine, so four characters (8 bytes
    > MAX-LENGTH 6), an embedded U+0000 at the aligned position 2, a lone surrogate, bytes, an int -/
example : [x4Mk (x4S []) (x4S [0x41]) (x4S [0x41]), x4Mk (x4S [0x41, 0x42, 0x43, 0x44]) (x4S [0x41]) (x4S [0x41]),
      x4Mk (x4S [0x20AC]) (x4S [0x41]) (x4S [0x41]), x4Mk (x4S [0x41, 0]) (x4S [0x41]) (x4S [0x41]),
      x4Mk (x4S [0x41]) (x4S [0x41]) (x4S [0x41, 0x42, 0x43, 0x44]), x4Mk (x4S [0x41]) (x4S [0x41]) (x4S [0x41, 0, 0x42]),
      x4Mk (x4S [0x41]) (x4S [0x41]) (x4S [0xD800]), x4Mk (wB [0x41]) (x4S [0x41]) (x4S [0x41]),
      x4Mk (x4S [0x41]) (.atom (.int 1)) (x4S [0x41])].all (fun p =>
      p.wfAtoms && p.typedForP (MDescs.ps x4Ms) && p.acceptedByP (MDescs.ps x4Ms) == false &&
      decide (p.needFor (MDescs.ps x4Ms) ≤ modelFuel) &&
      errClass (encodeMessage none (PDescs.toParams (MDescs.ps x4Ms)) p none true) == some .encode) = true := by decide +kernel
/-- the theorem applies: the PDU of the first value decodes to its completion -/
example : ∃ cursor, decodeMessage none (PDescs.toParams (MDescs.ps x4Ms))
      [0x2E, 0x41, 0, 0xC3, 0xA9, 0xFF, 0, 0x41, 0, 0x42, 0, 0, 1, 2, 0xFF, 7, 0x99] true =
    .ok (.dict (PDescs.complete (MDescs.ps x4Ms)
      [("as", x4S [0x41]), ("u8s", x4S [0xE9]), ("st", .dict [("u2", x4S [0x41, 0x42]), ("hx", wB [1, 2]), ("n", .atom (.int 7))]),
       ("tail", .atom (.int 0x99))]), cursor) := by
  rcases C04_nested2c x4Ms x4Ms_described.1 x4Ms_described.2 x4Ms_names.1 x4Ms_names.2.1 x4Ms_names.2.2
    (x4Mk (x4S [0x41]) (x4S [0xE9]) (x4S [0x41, 0x42]))
    (by decide +kernel) none (by decide +kernel) (by decide +kernel) with ⟨e, he, _⟩ | ⟨kvs, pdu, w, hkvs, _, henc, hrt⟩
  · have : (encodeMessage none (PDescs.toParams (MDescs.ps x4Ms)) (x4Mk (x4S [0x41]) (x4S [0xE9]) (x4S [0x41, 0x42])) none true).toOption
        = none := by rw [he]; rfl
    exact absurd this (by decide +kernel)
  · have h2 : (encodeMessage none (PDescs.toParams (MDescs.ps x4Ms)) (x4Mk (x4S [0x41]) (x4S [0xE9]) (x4S [0x41, 0x42])) none true).toOption
        = some (pdu, w) := by rw [henc]; rfl
    have h4 : (encodeMessage none (PDescs.toParams (MDescs.ps x4Ms)) (x4Mk (x4S [0x41]) (x4S [0xE9]) (x4S [0x41, 0x42])) none true).toOption
        = some ([0x2E, 0x41, 0, 0xC3, 0xA9, 0xFF, 0, 0x41, 0, 0x42, 0, 0, 1, 2, 0xFF, 7, 0x99], 0) := by decide +kernel
    rw [h2] at h4
    simp only [Option.some.injEq, Prod.mk.injEq] at h4
    obtain ⟨hp, hw⟩ := h4
    subst hp
    cases hkvs
    obtain ⟨cursor, hdec⟩ := hrt hw (fun h => by cases h)
    exact ⟨cursor, hdec⟩
/-- the decoder's result on the accepted PDUs, concretely -/
example : [x4Mk (x4S [0x41]) (x4S [0xE9]) (x4S [0x41, 0x42]), x4Mk (x4S [0x41, 0x42, 0x43]) (x4S [0x1F600]) (x4S [0x41, 0x42, 0x43])].all
    (fun p => match encodeMessage none (PDescs.toParams (MDescs.ps x4Ms)) p none true with
    | .ok (pdu, _) => (match decodeMessage none (PDescs.toParams (MDescs.ps x4Ms)) pdu true with
        | .ok (v, cursor) => pvalEq v ((DDesc.struct (MDescs.ps x4Ms)).complete p) && cursor == pdu.length
        | .error _ => false)
    | .error _ => false) = true := by decide +kernel

/-! ## the excluded point: A_UNICODE2STRING with an odd MAX-LENGTH
    `x4OddMax`: MIN-LENGTH 2, MAX-LENGTH 5, TERMINATION ZERO.  The value "AB" (4 bytes < 5) is written with the terminator `00 00`
    (6 bytes in all); the decoder looks for the terminator within MAX-LENGTH bytes only, reads 5 bytes and fails.  The real code does
    the same (`MinMaxLengthType.encode_into_pdu` → `00 41 00 42 00 00`, `decode_from_pdu` → `DecodeError: Cannot decode 0x0041004200 as
    a string using the encoding 'utf-16-be'`): the KNOWN finding `minmax-unicode2-odd-max-length` (DESIGN.md, found at C01) — it is a
    violation of C04 as well (an accepted value that strict decode does not give back). -/
def x4OddMax : MMStrShape := { name := "u2", bytePos := none, bt := .unicode2, hl := true, minLen := 2, maxLen := some 5, term := .zero }
def x4OddPs : List Param := [(x4OddMax.leaf [] []).toParam, (pu8 "tail").param]
def x4OddV : PVal := .dict [("u2", x4S [0x41, 0x42]), ("tail", .atom (.int 0x99))]

theorem x4OddMax_not_ok : ¬ x4OddMax.okMid := by decide

/-- the model at the excluded point: the encoder accepts, the strict decoder fails on the PDU -/
theorem C04_minmax_unicode2_odd_max_counterexample :
    (encodeMessage none x4OddPs x4OddV none true).toOption = some ([0, 0x41, 0, 0x42, 0, 0, 0x99], 0) ∧
    (decodeMessage none x4OddPs [0, 0x41, 0, 0x42, 0, 0, 0x99] true).toOption = none := by decide +kernel

/-! # DYNAMIC-ENDMARKER-FIELD, positive direction (task W31, part 2)
    Class `DescribedM p mid` (`Proofs/CompReject4EndMarker.lean`): `DescribedP2c` descriptions, terminated MIN-MAX-LENGTH leaves,
    structures of such, and DYNAMIC-ENDMARKER-FIELDs whose items are structures of such — in last position (`emEop`: no end marker is
    written) or anywhere else (`emMid`: the termination value is written, the cursor stays in front of it, so the next parameter
    needs a BYTE-POSITION behind it or the encoder reports an overlap).  Termination objects: `A_UINT32`, 1–64 bits, byte aligned.
    Hypothesis `EmLayout.missD` on the item structure: no component it can produce starts with the termination value; decidable
    sufficient condition `EmLayout.missD_of_constFirst` (the item starts with a CODED-CONST ≠ termination value coded like the
    termination object).  Without it: the open finding `end-marker-item-collision` (`C04_endmarker_collision_counterexample`). -/

/-- **C04 with DYNAMIC-ENDMARKER-FIELDs**: under `DescribedM` (which contains "no item starts with the termination value"), strict
    `encode` of the model on an arbitrary supplied value raises `EncodeError` / `OdxError`, or returns a PDU — and then the value is a
    dictionary the description accepts, and unless an overlap was reported strict `decode` returns its completion. -/
theorem C04_nested2c_endmarker (ms : List MDesc) (hd : ∀ m ∈ ms, DescribedM m.p m.mid)
    (hn : PDescs.namesOk (MDescs.ps ms)) (hl : PDescs.eopLast (MDescs.ps ms)) (hmid : MDescs.lastMid ms = false)
    (pv : PVal) (hwf : pv.wfAtoms = true) (trig : Option Bytes) (hneed : pv.needFor (MDescs.ps ms) ≤ modelFuel)
    (hty : pv.typedForP (MDescs.ps ms) = true) :
    (∃ e, encodeMessage none (PDescs.toParams (MDescs.ps ms)) pv trig true = .error e ∧ (e = .encode ∨ e = .odx)) ∨
    ∃ (kvs : List (String × PVal)) (pdu : Bytes) (w : Nat), pv = .dict kvs ∧ pv.acceptedByP (MDescs.ps ms) = true ∧
      encodeMessage none (PDescs.toParams (MDescs.ps ms)) pv trig true = .ok (pdu, w) ∧
      (w = 0 → (PDescs.anyEop (MDescs.ps ms) = true → pv.endCursor (MDescs.ps ms) = pdu.length) →
        ∃ cursor, decodeMessage none (PDescs.toParams (MDescs.ps ms)) pdu true =
          .ok (.dict (PDescs.complete (MDescs.ps ms) kvs), cursor)) := by
  rcases encodeMessage_describedM_cases ms hd hn hl hmid pv hwf trig hneed with
    ⟨_, e, hrun, he⟩ | ⟨c, hf, hc, pdu, w, hrun, hrt⟩
  · rcases he with he | ⟨_, hff⟩
    · exact Or.inl ⟨e, hrun, he⟩
    · rw [PVal.typedForP] at hty; rw [hty] at hff; cases hff
  · obtain ⟨kvs, rfl⟩ := DDesc.struct_fill_dict _ pv c hf
    refine Or.inr ⟨kvs, pdu, w, rfl, by simp [PVal.acceptedByP, hf], hrun, ?_⟩
    intro hw hend
    exact hrt hw (fun he => by
      have := hend (hc.eop he)
      simpa [PVal.endCursor, hf] using this)

/-- **accepted ⇔ acceptable** -/
theorem C04_nested_accepts_iff2c_endmarker (ms : List MDesc) (hd : ∀ m ∈ ms, DescribedM m.p m.mid)
    (hn : PDescs.namesOk (MDescs.ps ms)) (hl : PDescs.eopLast (MDescs.ps ms)) (hmid : MDescs.lastMid ms = false)
    (pv : PVal) (hwf : pv.wfAtoms = true) (trig : Option Bytes) (hneed : pv.needFor (MDescs.ps ms) ≤ modelFuel) :
    (∃ r, encodeMessage none (PDescs.toParams (MDescs.ps ms)) pv trig true = .ok r) ↔ pv.acceptedByP (MDescs.ps ms) = true := by
  rcases encodeMessage_describedM_cases ms hd hn hl hmid pv hwf trig hneed with
    ⟨hf, e, hrun, _⟩ | ⟨c, hf, _, pdu, w, hrun, _⟩
  · rw [hrun, PVal.acceptedByP, hf]
    constructor
    · rintro ⟨r, h⟩; cases h
    · intro h; cases h
  · rw [hrun, PVal.acceptedByP, hf]
    exact ⟨fun _ => rfl, fun _ => ⟨_, rfl⟩⟩

/-! ## non-vacuity
    request = [ sid (CODED-CONST 0x2E); recs : DYNAMIC-ENDMARKER-FIELD (termination value 0xFF, 8 bit) of { rid : CODED-CONST 0x10; val : 8 bit };
                m8 : 8 bit at BYTE-POSITION 8; tl : DYNAMIC-ENDMARKER-FIELD of the same items, last ] -/
def x4L : EmLayout := { hl := true, bl := 8, tv := 0xFF }
def x4Item : List MDesc := [MDesc.plain (PDesc.ofObjConst (x4L.named "rid") (.int 0x10)), MDesc.plain (pu8 "val")]
def x4Recs : PDesc := PDesc.ofValue "recs" none (DDesc.endMarkerMid x4L (DDesc.struct (MDescs.ps x4Item)))
def x4Tl : PDesc := PDesc.ofValue "tl" none (DDesc.endMarkerEop x4L (DDesc.struct (MDescs.ps x4Item)))
def x4M8 : PDesc := PDesc.ofObjValue ⟨"m8", some 8, none, none, true, 8, .uint32⟩ (fun _ => true)
def x4EmMs : List MDesc :=
  [MDesc.plain (PDesc.ofObjConst ⟨"sid", none, none, none, true, 8, .uint32⟩ (.int 0x2E)), { p := x4Recs, mid := true },
   MDesc.plain x4M8, MDesc.plain x4Tl]
def x4Rec (v : Int) : PVal := .dict [("val", .atom (.int v))]
def x4EmMk (recs : PVal) (tl : PVal) : PVal := .dict [("recs", recs), ("m8", .atom (.int 5)), ("tl", tl)]

theorem x4L_ok : x4L.ok := ⟨by simp [EmLayout.obj, x4L, Obj.ok, Obj.encOk, Obj.sizeOk], by simp [EmLayout.obj, x4L, Obj.inRange]⟩

theorem x4L_missD : x4L.missD (DDesc.struct (MDescs.ps x4Item)) :=
  EmLayout.missD_of_constFirst x4L "rid" 0x10 [pu8 "val"] (by decide)

theorem x4Item_described : ∀ m ∈ x4Item, DescribedM m.p m.mid := by
  intro m hmem
  simp only [x4Item, List.mem_cons, List.mem_nil_iff, or_false] at hmem
  rcases hmem with rfl | rfl
  · exact DescribedM.plain _ (DescribedP2c.base _ (DescribedP2b.base _ (DescribedP2.const _ _
      (by simp [EmLayout.named, EmLayout.obj, x4L, Obj.ok, Obj.encOk, Obj.sizeOk])
      (by simp [EmLayout.named, EmLayout.obj, x4L, Obj.inRange]))))
  · exact DescribedM.plain _ (DescribedP2c.base _ (DescribedP2b.base _ (described_pu8' _)))

theorem x4Item_names : PDescs.namesOk (MDescs.ps x4Item) ∧ PDescs.eopLast (MDescs.ps x4Item) ∧ MDescs.lastMid x4Item = false ∧
    PDescs.anyEop (MDescs.ps x4Item) = false ∧ 1 ≤ PDescs.lastAdv (MDescs.ps x4Item) := by
  refine ⟨?_, ⟨rfl, trivial⟩, rfl, rfl, by decide⟩
  simp [PDescs.namesOk, MDescs.ps, x4Item, MDesc.plain, PDesc.name, Param.name, PDesc.ofObjConst, Obj.toConstParam, EmLayout.named,
    EmLayout.obj, pu8, PDesc.ofObjValue, Obj.toParam]

theorem x4EmMs_described : ∀ m ∈ x4EmMs, DescribedM m.p m.mid := by
  intro m hmem
  simp only [x4EmMs, List.mem_cons, List.mem_nil_iff, or_false] at hmem
  rcases hmem with rfl | rfl | rfl | rfl
  · exact DescribedM.plain _ (DescribedP2c.base _ (DescribedP2b.base _
      (DescribedP2.const _ _ (by simp [Obj.ok, Obj.encOk, Obj.sizeOk]) (by simp [Obj.inRange]))))
  · exact DescribedM.emMid "recs" none x4L x4Item x4L_ok x4Item_described x4Item_names.1 x4Item_names.2.1 x4Item_names.2.2.1
      x4Item_names.2.2.2.1 x4Item_names.2.2.2.2 x4L_missD
  · exact DescribedM.plain _ (DescribedP2c.base _ (DescribedP2b.base _
      (DescribedP2.of_value_int _ (by simp [Obj.ok, Obj.encOk, Obj.sizeOk]) (Or.inr rfl))))
  · exact DescribedM.emEop "tl" none x4L x4Item x4L_ok x4Item_described x4Item_names.1 x4Item_names.2.1 x4Item_names.2.2.1
      x4Item_names.2.2.2.1 x4Item_names.2.2.2.2 x4L_missD

theorem x4EmMs_names : PDescs.namesOk (MDescs.ps x4EmMs) ∧ PDescs.eopLast (MDescs.ps x4EmMs) ∧ MDescs.lastMid x4EmMs = false := by
  refine ⟨?_, ⟨rfl, rfl, rfl, trivial⟩, rfl⟩
  simp [PDescs.namesOk, MDescs.ps, x4EmMs, MDesc.plain, PDesc.name, Param.name, PDesc.ofObjConst, Obj.toConstParam, x4Recs, x4Tl, x4M8,
    PDesc.ofValue, PDesc.ofObjValue, Obj.toParam]

/-- accepted: two records (end marker `FF` at byte 5, two filler bytes, `m8` at byte 8) and one trailing record; three records (the
    end marker directly in front of `m8`) and no trailing record; no record at all (the end marker alone); the constant supplied -/
example : [x4EmMk (.list [x4Rec 1, x4Rec 2]) (.list [x4Rec 9]), x4EmMk (.list [x4Rec 1, x4Rec 2, x4Rec 3]) (.list []),
      x4EmMk (.list []) (.list [.dict [("rid", .atom (.int 0x10)), ("val", .atom (.int 0xFF))]])].map (fun p =>
      (p.wfAtoms && p.typedForP (MDescs.ps x4EmMs) && p.acceptedByP (MDescs.ps x4EmMs),
       (encodeMessage none (PDescs.toParams (MDescs.ps x4EmMs)) p none true).toOption)) =
    [(true, some ([0x2E, 0x10, 1, 0x10, 2, 0xFF, 0, 0, 5, 0x10, 9], 0)),
     (true, some ([0x2E, 0x10, 1, 0x10, 2, 0x10, 3, 0xFF, 5], 0)),
     (true, some ([0x2E, 0xFF, 0, 0, 0, 0, 0, 0, 5, 0x10, 0xFF], 0))] := by decide +kernel
/-- rejected with `EncodeError`: a record value out of range, a record that is not a dictionary, a field value that is not a list,
    a record without `val`, the field omitted -/
example : [x4EmMk (.list [x4Rec 300]) (.list []), x4EmMk (.list [.atom (.int 1)]) (.list []), x4EmMk (.atom (.int 1)) (.list []),
      x4EmMk (.list [x4Rec 1]) (.list [.dict []]), .dict [("m8", .atom (.int 5)), ("tl", .list [])]].all (fun p =>
      p.wfAtoms && p.typedForP (MDescs.ps x4EmMs) && p.acceptedByP (MDescs.ps x4EmMs) == false &&
      decide (p.needFor (MDescs.ps x4EmMs) ≤ modelFuel) &&
      errClass (encodeMessage none (PDescs.toParams (MDescs.ps x4EmMs)) p none true) == some .encode) = true := by decide +kernel
/-- the theorem applies: the PDU of the first value decodes to its completion (the constants filled in) -/
example : ∃ cursor, decodeMessage none (PDescs.toParams (MDescs.ps x4EmMs)) [0x2E, 0x10, 1, 0x10, 2, 0xFF, 0, 0, 5, 0x10, 9] true =
    .ok (.dict (PDescs.complete (MDescs.ps x4EmMs)
      [("recs", .list [x4Rec 1, x4Rec 2]), ("m8", .atom (.int 5)), ("tl", .list [x4Rec 9])]), cursor) := by
  rcases C04_nested2c_endmarker x4EmMs x4EmMs_described x4EmMs_names.1 x4EmMs_names.2.1 x4EmMs_names.2.2
    (x4EmMk (.list [x4Rec 1, x4Rec 2]) (.list [x4Rec 9]))
    (by decide +kernel) none (by decide +kernel) (by decide +kernel) with ⟨e, he, _⟩ | ⟨kvs, pdu, w, hkvs, _, henc, hrt⟩
  · have : (encodeMessage none (PDescs.toParams (MDescs.ps x4EmMs)) (x4EmMk (.list [x4Rec 1, x4Rec 2]) (.list [x4Rec 9])) none true).toOption
        = none := by rw [he]; rfl
    exact absurd this (by decide +kernel)
  · have h2 : (encodeMessage none (PDescs.toParams (MDescs.ps x4EmMs)) (x4EmMk (.list [x4Rec 1, x4Rec 2]) (.list [x4Rec 9])) none true).toOption
        = some (pdu, w) := by rw [henc]; rfl
    have h4 : (encodeMessage none (PDescs.toParams (MDescs.ps x4EmMs)) (x4EmMk (.list [x4Rec 1, x4Rec 2]) (.list [x4Rec 9])) none true).toOption
        = some ([0x2E, 0x10, 1, 0x10, 2, 0xFF, 0, 0, 5, 0x10, 9], 0) := by decide +kernel
    rw [h2] at h4
    simp only [Option.some.injEq, Prod.mk.injEq] at h4
    obtain ⟨hp, hw⟩ := h4
    subst hp
    cases hkvs
    obtain ⟨cursor, hdec⟩ := hrt hw (fun _ => by decide +kernel)
    exact ⟨cursor, hdec⟩
/-- the decoder's result on the accepted PDUs, concretely -/
example : [x4EmMk (.list [x4Rec 1, x4Rec 2]) (.list [x4Rec 9]), x4EmMk (.list [x4Rec 1, x4Rec 2, x4Rec 3]) (.list []),
      x4EmMk (.list []) (.list [.dict [("rid", .atom (.int 0x10)), ("val", .atom (.int 0xFF))]])].all
    (fun p => match encodeMessage none (PDescs.toParams (MDescs.ps x4EmMs)) p none true with
    | .ok (pdu, _) => (match decodeMessage none (PDescs.toParams (MDescs.ps x4EmMs)) pdu true with
        | .ok (v, cursor) => pvalEq v ((DDesc.struct (MDescs.ps x4EmMs)).complete p) && cursor == pdu.length
        | .error _ => false)
    | .error _ => false) = true := by decide +kernel

end OdxVerif.Codec
