import OdxVerif.Proofs.CompBits3Msg
import OdxVerif.Props.C01Nested3b
import OdxVerif.Proofs.CompBits3U
import OdxVerif.Props.C01Nested2U
/-! # C02, nested tier, edition 3b (task W29) — bit-exact PDUs for `Desc3b` / `Described3b`: a compu DOP as the SWITCH KEY of a
    MULTIPLEXER and as the COUNT of a DYNAMIC-LENGTH-FIELD, and the W23 leaves (LINEAR with a real physical type, DTC-DOP with a
    LINEAR method, IDENTICAL with physical type ≠ coded type).  (Separate file; imported by `Props/C03Nested3b.lean` only.) -/
namespace OdxVerif.Codec
open OdxVerif.Bits OdxVerif.OdxM OdxVerif.Compu

/- Full statement of C02: see `Props/C02Nested.lean`.  Proved here: the instance where every top-level parameter is a well-formed
   `Desc3b` (`Proofs/CompBits3Desc.lean`, the syntactic mirror of `Described3b`).  What the layout says for the new composites:
     * MULTIPLEXER with a compu switch key (`Desc3b.muxConv`): the `switchKey` entry is the key object with the raw pattern of
       the INTERNAL key `ki` — the value the key DOP's compu method computes from the physical key `m.lo` (`MuxLayout.okConv`:
       `ConvOk kd … (m.lo) (m.lo) ki`; LINEAR: `MuxLayout.okConv_lin`).  The CASE limits are compared with `m.lo`, the wire
       holds `ki` (example: limits 10..19, key DOP phys = 10·x, wire 01);
     * DYNAMIC-LENGTH-FIELD with a compu count (`Desc3b.dynLenFieldConv`): the `count` entry holds the INTERNAL count `ci`
       (example: two items, count DOP phys = x − 1, wire 03);
     * the W23 leaves are `Desc3.conv…` descriptions (`LinFLeaf.desc`, `DtcLinLeaf.desc`, `IdLeaf.desc`): the entry holds
       `Obj.specRepr` of the internal value.
   Still missing relative to the full statement: what `Props/C01Nested3b.lean` lists (the compu categories the codec model does
   not carry), RESERVED / NRC-CONST together with compu leaves (`Desc2R`/`Desc2U` are a separate class), and the completeness
   direction. -/

/-- **C02, nested tier, edition 3b**: `C02_bit_exact_nested3` for descriptions with compu switch keys / counts (`Desc3b`; the
    `switchKey` / `count` entry of a compu-typed key / count holds `Obj.specRepr` of the INTERNAL value).  If strict `encode`
    returns a PDU without overlap warning then (1)+(3) — given `padOk` — every entry's pattern sits at its bits and the entries
    are pairwise disjoint; (2) every bit no entry claims is zero; (4) the PDU is as long as the furthest byte an entry reaches. -/
theorem C02_bit_exact_nested3b (ds : List Desc3b) (trig : Option Bytes) (hok : Descs3b.ok trig ds) (pdu : Bytes)
    (henc : encodeMessage none (Descs3b.params ds) (.dict (Descs3b.supplied ds)) trig true = .ok (pdu, 0)) :
    (Descs3b.padOk ds →
      (∀ e ∈ Descs3b.layout ds, ∀ j, j < e.bl → getBit pdu (absBit e.pos e.k e.hl (j + e.bp)) = e.raw.testBit j) ∧
      LDisj2 (Descs3b.layout ds)) ∧
    (∀ a, (∀ e ∈ Descs3b.layout ds, ¬ e.claims a) → getBit pdu a = false) ∧
    pdu.length = Descs3b.extent ds := by
  rw [descs3b_encodeMessage trig ds hok] at henc
  simp only [Except.ok.injEq, Prod.mk.injEq] at henc
  obtain ⟨hpdu, hwarn⟩ := henc
  subst hpdu
  refine ⟨fun hp => ?_, descs3b_pure_outside trig ds hok.1, descs3b_pure_length trig ds hok.1⟩
  have hd := descs3b_pure_disj_of trig ds hok.1 hwarn hp
  exact ⟨descs3b_pure_inside trig ds hok.1 hd, (LDisj2_iff _).mpr hd⟩

/-- **C02, overlap clause, edition 3b** (as `C02_overlap_iff_nested3`): strict `encode` of a well-formed description never
    fails; disjoint entries ⇒ no overlap warning; and conversely given `padOk` -/
theorem C02_overlap_iff_nested3b (ds : List Desc3b) (trig : Option Bytes) (hok : Descs3b.ok trig ds) :
    ∃ pdu w, encodeMessage none (Descs3b.params ds) (.dict (Descs3b.supplied ds)) trig true = .ok (pdu, w) ∧
      (LDisj2 (Descs3b.layout ds) → w = 0) ∧ (Descs3b.padOk ds → (w = 0 ↔ LDisj2 (Descs3b.layout ds))) :=
  ⟨_, _, descs3b_encodeMessage trig ds hok,
    fun hd => descs3b_pure_nowarn_of trig ds hok.1 ((LDisj2_iff _).mp hd),
    fun hp => ⟨fun hw => (LDisj2_iff _).mpr (descs3b_pure_disj_of trig ds hok.1 hw hp),
      fun hd => descs3b_pure_nowarn_of trig ds hok.1 ((LDisj2_iff _).mp hd)⟩⟩

/-- `Desc3` embedded (`Desc3b.old`): same components, same layout — `C02_bit_exact_nested3` is the instance without compu
    keys / counts -/
def Descs3b.ofBase (ds : List Desc3) : List Desc3b := ds.map Desc3b.old
theorem Descs3b.ofBase_mcs : (ds : List Desc3) → Descs3b.mcs (Descs3b.ofBase ds) = Descs3.mcs ds
  | [] => rfl
  | d :: ds => by
    show d.mc :: Descs3b.mcs (Descs3b.ofBase ds) = d.mc :: Descs3.mcs ds
    rw [Descs3b.ofBase_mcs ds]
theorem Descs3b.ofBase_lay : (ds : List Desc3) → Descs3b.lay (Descs3b.ofBase ds) = Descs3.lay ds
  | [] => rfl
  | d :: ds => by
    show d.lay.seq (Descs3b.lay (Descs3b.ofBase ds)) = d.lay.seq (Descs3.lay ds)
    rw [Descs3b.ofBase_lay ds]
theorem Descs3b.ofBase_ok (trig : Option Bytes) (ds : List Desc3) (h : Descs3.ok trig ds) : Descs3b.ok trig (Descs3b.ofBase ds) := by
  have hwf : ∀ ds : List Desc3, Descs3.wfTop trig ds → Descs3b.wfTop trig (Descs3b.ofBase ds) := by
    intro ds
    induction ds with
    | nil => intro _; trivial
    | cons d ds ih => intro h; exact ⟨h.1, ih h.2⟩
  unfold Descs3b.ok Descs3b.comps
  rw [Descs3b.ofBase_mcs]
  exact ⟨hwf ds h.1, h.2⟩

/-! ### non-vacuity: the examples `ex9` / `ex12` of `Props/C01Nested3b.lean` as descriptions -/

def u8d (n : String) (v : Int) : Desc3b := .old (.value ⟨n, none, none, none, true, 8, .uint32⟩ (.int v))
theorem u8d_wf (n : String) (v : Int) (h0 : 0 ≤ v) (h1 : v < 256) : (u8d n v).wf := by
  simp only [u8d, Desc3b.wf, Desc3.wf]
  exact ⟨by simp [Obj.ok, Obj.encOk, Obj.sizeOk], by simp [Obj.inRange]; omega⟩

def exD9Mx : Desc3b := .muxConv "mx" none ex9Mux ex9Key.dop (.int 1) [u8d "v" 7]
def exD9Df : Desc3b :=
  .dynLenFieldConv "df" none ex9Lay ex9Cnt.dop (.int 3) none (Comps.toParams (MComps.cs (ex9Item 0))) [[u8d "b" 10], [u8d "b" 11]]
/-- [ sid; temp : LINEAR / A_FLOAT64; err : DTC-DOP with a LINEAR method; mx : MULTIPLEXER with a LINEAR switch key;
      df : DYNAMIC-LENGTH-FIELD with a LINEAR count ] with the values of `ex9` -/
def exD9 : List Desc3b :=
  [.old (.const (u8o "sid") (.int 0x22) false), .old ex9Temp.desc, .old (ex9Err.desc ex9ErrSup), exD9Mx, exD9Df]

/-- the description denotes exactly the message of `Props/C01Nested3b.lean` -/
example : Descs3b.mcs exD9 = ex9 := rfl

theorem exD9Mx_wf : exD9Mx.wf := by
  simp only [exD9Mx, Desc3b.wf, Descs3b.wf]
  refine ⟨⟨u8d_wf _ _ (by decide) (by decide), trivial⟩, namesOk1 _, trivial, ?_⟩
  exact MuxLayout.okConv_lin ex9Mux ex9Key _ ex9Key_ok rfl rfl
    (MuxLayout.sel_of_case ex9Mux _ [.mk "zero" 0 9 (some (.struct none (Comps.toParams [u8 "u" 0])))] [] 19 rfl (by decide) rfl rfl)

theorem exD9Df_wf : exD9Df.wf := by
  simp only [exD9Df, Desc3b.wf, Descss3b.wf, Descs3b.wf, Descss3b.mcss]
  refine ⟨⟨⟨u8d_wf _ _ (by decide) (by decide), trivial⟩, ⟨u8d_wf _ _ (by decide) (by decide), trivial⟩, trivial⟩, mem2 _ _ ?_ ?_, ?_⟩
  · exact ⟨⟨rfl, namesOk1 _, rfl, fun _ h => nomatch h⟩, by decide⟩
  · exact ⟨⟨rfl, namesOk1 _, rfl, fun _ h => nomatch h⟩, by decide⟩
  · exact DynLayout.okConv_lin ex9Lay ex9Cnt 2 ex9Cnt_ok rfl rfl (by decide)

theorem exD9_ok : Descs3b.ok none exD9 := by
  refine ⟨⟨?_, ex9Temp.desc_wf ex9Temp_ok, ex9Err.desc_wf ex9Err_ok _ ex9Err_sup, exD9Mx_wf, exD9Df_wf, trivial⟩, ?_,
    ⟨rfl, rfl, rfl, rfl, trivial⟩, rfl, by decide⟩
  · show Desc3.wf (.const (u8o "sid") (.int 0x22) false)
    simp only [Desc3.wf]
    exact ⟨u8o_ok _, by simp [u8o, Obj.inRange]⟩
  · show Comps.namesOk (MComps.cs ex9)
    simp [Comps.namesOk, ex9, MComps.cs, mc, Comp.name, Param.name, Comp.ofObjConst, Obj.toConstParam, Comp.ofValue,
      LinFLeaf.comp, DtcLinLeaf.comp, Comp.ofConvLeaf, ex9Temp, ex9Err, u8o]

/-- the layout of `22 | 04 | 04 | 01 07 | 03 0A 0B`: the `switchKey` entry holds 1 (the INTERNAL key; the physical key, which the
    CASE limits 10..19 are compared with, is 10), the `count` entry holds 3 (the INTERNAL count; two items), the LINEAR /
    A_FLOAT64 leaf holds 4 (physical 2.5), the DTC leaf 4 (trouble code 5) -/
theorem exD9_layout : Descs3b.layout exD9 =
    [⟨.codedConst, "sid", 0, 1, true, 0, 8, 0x22⟩, ⟨.value, "temp", 1, 1, true, 0, 8, 4⟩, ⟨.value, "err", 2, 1, true, 0, 8, 4⟩,
     ⟨.switchKey, "", 3, 1, true, 0, 8, 1⟩, ⟨.value, "v", 4, 1, true, 0, 8, 7⟩,
     ⟨.count, "", 5, 1, true, 0, 8, 3⟩, ⟨.value, "b", 6, 1, true, 0, 8, 10⟩, ⟨.value, "b", 7, 1, true, 0, 8, 11⟩] := by decide +kernel
example : Descs3b.extent exD9 = 8 := by decide +kernel

theorem exD9_enc : encodeMessage none (Descs3b.params exD9) (.dict (Descs3b.supplied exD9)) none true = .ok (ex9Pdu, 0) :=
  Except.eq_ok_of_toOption (by decide +kernel)

theorem exD9_padOk : Descs3b.padOk exD9 :=
  Descs3b.padOk_of_noSizePadding _ (by rw [exD9_layout]; decide)

/-- the theorem applied to `ex9`: all four clauses for the PDU `22 04 04 01 07 03 0A 0B` -/
example : ((∀ e ∈ Descs3b.layout exD9, ∀ j, j < e.bl → getBit ex9Pdu (absBit e.pos e.k e.hl (j + e.bp)) = e.raw.testBit j) ∧
      LDisj2 (Descs3b.layout exD9)) ∧
    (∀ a, (∀ e ∈ Descs3b.layout exD9, ¬ e.claims a) → getBit ex9Pdu a = false) ∧ ex9Pdu.length = 8 := by
  obtain ⟨h1, h2, h4⟩ := C02_bit_exact_nested3b exD9 none exD9_ok ex9Pdu exD9_enc
  exact ⟨h1 exD9_padOk, h2, rfl⟩

/-- the overlap clause applied: the layout of `ex9` is pairwise disjoint (derived from "no warning", not computed) -/
theorem exD9_disj : LDisj2 (Descs3b.layout exD9) := by
  obtain ⟨pdu, w, h, _, hiff⟩ := C02_overlap_iff_nested3b exD9 none exD9_ok
  rw [exD9_enc] at h
  simp only [Except.ok.injEq, Prod.mk.injEq] at h
  exact (hiff exD9_padOk).mp h.2.symm

/-! `ex12` = [ sid; w : STRUCTURE { mx : the multiplexer with the LINEAR switch key } ] → 22 | 01 07: the new composite at depth -/
def exD12 : List Desc3b := [.old (.const (u8o "sid") (.int 0x22) false), .struct "w" none none [exD9Mx]]
example : Descs3b.mcs exD12 = ex12 := rfl

theorem exD12_ok : Descs3b.ok none exD12 := by
  refine ⟨⟨?_, ?_, trivial⟩, ?_, ⟨rfl, trivial⟩, rfl, by decide⟩
  · show Desc3.wf (.const (u8o "sid") (.int 0x22) false)
    simp only [Desc3.wf]
    exact ⟨u8o_ok _, by simp [u8o, Obj.inRange]⟩
  · show Desc3b.wf (.struct "w" none none [exD9Mx])
    simp only [Desc3b.wf, Descs3b.wf]
    exact ⟨⟨exD9Mx_wf, trivial⟩, namesOk1 _, trivial, fun _ h => nomatch h⟩
  · show Comps.namesOk (MComps.cs ex12)
    simp [Comps.namesOk, ex12, MComps.cs, mc, Comp.name, Param.name, Comp.ofObjConst, Obj.toConstParam, Comp.ofValue, u8o]

theorem exD12_layout : Descs3b.layout exD12 =
    [⟨.codedConst, "sid", 0, 1, true, 0, 8, 0x22⟩, ⟨.switchKey, "", 1, 1, true, 0, 8, 1⟩, ⟨.value, "v", 2, 1, true, 0, 8, 7⟩] := by
  decide +kernel

theorem exD12_enc : encodeMessage none (Descs3b.params exD12) (.dict (Descs3b.supplied exD12)) none true = .ok ([0x22, 0x01, 0x07], 0) :=
  Except.eq_ok_of_toOption (by decide +kernel)

example : (∀ e ∈ Descs3b.layout exD12, ∀ j, j < e.bl → getBit [0x22, 0x01, 0x07] (absBit e.pos e.k e.hl (j + e.bp)) = e.raw.testBit j) ∧
    LDisj2 (Descs3b.layout exD12) :=
  (C02_bit_exact_nested3b exD12 none exD12_ok _ exD12_enc).1 (Descs3b.padOk_of_noSizePadding _ (by rw [exD12_layout]; decide))

/-- the W23 string leaf (`IdLeaf`, IDENTICAL with physical type ≠ coded type; `ex13` of `Props/C01Nested3b.lean`):
    [ sid; n : coded A_ASCIISTRING / physical A_UNICODE2STRING "hi"; r : coded A_UTF8STRING / physical A_ASCIISTRING "é" ]
    → 22 | 68 69 | C3 A9: the entry of `r` holds the UTF-8 bytes of the INTERNAL string -/
def exD13 : List Desc3b := [.old (.const (u8o "sid") (.int 0x22) false), .old ex13N.desc, .old ex13R.desc]
example : Descs3b.mcs exD13 = ex13 := rfl
theorem exD13_layout : Descs3b.layout exD13 =
    [⟨.codedConst, "sid", 0, 1, true, 0, 8, 0x22⟩, ⟨.value, "n", 1, 2, true, 0, 16, 0x6869⟩, ⟨.value, "r", 3, 2, true, 0, 16, 0xC3A9⟩] := by
  decide +kernel

/-! ## (C) UTF-16LE leaves inside field items and multiplexer cases (`Desc2U` / `Described2U`) -/

/-- **C02, nested tier, with UTF-16LE leaves at any depth**: `C02_bit_exact_nested2` for `ds : List Desc2U` (`Proofs/CompBits3U.lean`,
    the mirror of `Described2U`): a VALUE parameter over a standard-length A_UNICODE2STRING object with low-high byte order is ONE
    `value` entry — the UTF-16LE bytes of the string (surrogate pairs: low byte first), read as one big-endian number, in the
    object's bytes — also as a member of the items of the four field kinds and of multiplexer cases (W22 had it below STRUCTUREs
    only).  If strict `encode` returns a PDU without overlap warning then (1)+(3) — given `padOk` — every entry's pattern sits at
    its bits and the entries are pairwise disjoint; (2) every bit no entry claims is zero; (4) the PDU is as long as the
    furthest byte an entry reaches. -/
theorem C02_bit_exact_nested2U (ds : List Desc2U) (trig : Option Bytes) (hok : Descs2U.ok trig ds) (pdu : Bytes)
    (henc : encodeMessage none (Descs2U.params ds) (.dict (Descs2U.supplied ds)) trig true = .ok (pdu, 0)) :
    (Descs2U.padOk ds →
      (∀ e ∈ Descs2U.layout ds, ∀ j, j < e.bl → getBit pdu (absBit e.pos e.k e.hl (j + e.bp)) = e.raw.testBit j) ∧
      LDisj2 (Descs2U.layout ds)) ∧
    (∀ a, (∀ e ∈ Descs2U.layout ds, ¬ e.claims a) → getBit pdu a = false) ∧
    pdu.length = Descs2U.extent ds := by
  rw [descs2U_encodeMessage trig ds hok] at henc
  simp only [Except.ok.injEq, Prod.mk.injEq] at henc
  obtain ⟨hpdu, hwarn⟩ := henc
  subst hpdu
  refine ⟨fun hp => ?_, descs2U_pure_outside trig ds hok.1, descs2U_pure_length trig ds hok.1⟩
  have hd := descs2U_pure_disj_of trig ds hok.1 hwarn hp
  exact ⟨descs2U_pure_inside trig ds hok.1 hd, (LDisj2_iff _).mpr hd⟩

/-- **C02, overlap clause, with UTF-16LE leaves at any depth** -/
theorem C02_overlap_iff_nested2U (ds : List Desc2U) (trig : Option Bytes) (hok : Descs2U.ok trig ds) :
    ∃ pdu w, encodeMessage none (Descs2U.params ds) (.dict (Descs2U.supplied ds)) trig true = .ok (pdu, w) ∧
      (LDisj2 (Descs2U.layout ds) → w = 0) ∧ (Descs2U.padOk ds → (w = 0 ↔ LDisj2 (Descs2U.layout ds))) :=
  ⟨_, _, descs2U_encodeMessage trig ds hok,
    fun hd => descs2U_pure_nowarn_of trig ds hok.1 ((LDisj2_iff _).mp hd),
    fun hp => ⟨fun hw => (LDisj2_iff _).mpr (descs2U_pure_disj_of trig ds hok.1 hw hp),
      fun hd => descs2U_pure_nowarn_of trig ds hok.1 ((LDisj2_iff _).mp hd)⟩⟩

/-! non-vacuity: the request `exU` of `Props/C01Nested2U.lean`
    [sid; m : MULTIPLEXER, case c1 { txt } selected; f : END-OF-PDU-FIELD, items { k : u8; txt : A_UNICODE2STRING 32 bits low-high }]
    value {m: ('c1', {txt: 'Hi'}), f: [{k: 1, txt: 'Hi'}, {k: 2, txt: '😀'}]} → 22 | 01 | 48 00 69 00 | 01 48 00 69 00 | 02 3D D8 00 DE -/
def u8bU (n : String) (v : Int) : Desc2U := .base (.value ⟨n, none, none, none, true, 8, .uint32⟩ (.int v))
def exDUItem (k : Int) (cps : List Nat) (bs : Bytes) : List Desc2U := [u8bU "k" k, .u16le uTxt cps bs]
def exDU : List Desc2U :=
  [.base (.const ⟨"sid", none, none, none, true, 8, .uint32⟩ (.int 0x22) false),
   .mux "m" none exUMuxLayout [.u16le uTxt [0x48, 0x69] [0x48, 0x00, 0x69, 0x00]],
   .eopField "f" none none none none (Comps.toParams (MComps.cs (exUItem 0 [] [])))
     [exDUItem 1 [0x48, 0x69] [0x48, 0x00, 0x69, 0x00], exDUItem 2 [0x1F600] [0x3D, 0xD8, 0x00, 0xDE]]]

/-- the description denotes exactly the message of `Props/C01Nested2U.lean` -/
example : Descs2U.mcs exDU = exU := rfl

theorem exDUItem_wf (k : Int) (cps : List Nat) (bs : Bytes) (h0 : 0 ≤ k) (h1 : k < 256) (h : uTxt.inRange cps bs) :
    Descs2U.wf (exDUItem k cps bs) := by
  simp only [exDUItem, u8bU, Descs2U.wf, Desc2U.wf, Desc2.wf]
  exact ⟨⟨by simp [Obj.ok, Obj.encOk, Obj.sizeOk], by simp [Obj.inRange]; omega⟩, ⟨uTxt_ok, h⟩, trivial⟩

theorem exDU_ok : Descs2U.ok none exDU := by
  refine ⟨⟨?_, ?_, ?_, trivial⟩, exU_names, ⟨rfl, rfl, trivial⟩, rfl, by decide⟩
  · show Desc2.wf (.const ⟨"sid", none, none, none, true, 8, .uint32⟩ (.int 0x22) false)
    simp only [Desc2.wf]
    exact ⟨by simp [Obj.ok, Obj.encOk, Obj.sizeOk], by simp [Obj.inRange]⟩
  · show Desc2U.wf (.mux "m" none exUMuxLayout [.u16le uTxt [0x48, 0x69] [0x48, 0x00, 0x69, 0x00]])
    simp only [Desc2U.wf, Descs2U.wf]
    refine ⟨⟨⟨uTxt_ok, uTxt_hi⟩, trivial⟩, namesOk1 _, trivial, ?_, ?_, ?_⟩
    · simp [exUMuxLayout, MuxLayout.keyObj, Obj.ok, Obj.encOk, Obj.sizeOk]
    · simp [exUMuxLayout, MuxLayout.keyObj, Obj.inRange]
    · exact MuxLayout.sel_of_case exUMuxLayout _ [] [.mk "c2" 2 2 (some (.struct none (Comps.toParams [u8 "k" 0])))] 1 rfl (by decide) rfl rfl
  · show Desc2U.wf (.eopField "f" none none none none _ [exDUItem 1 _ _, exDUItem 2 _ _])
    simp only [Desc2U.wf, Descss2U.wf, Descss2U.mcss]
    refine ⟨⟨exDUItem_wf 1 _ _ (by decide) (by decide) uTxt_hi, exDUItem_wf 2 _ _ (by decide) (by decide) uTxt_grin, trivial⟩,
      mem2 _ _ (exUItem_side 1 _ _) (exUItem_side 2 _ _), fun k hk => ?_⟩
    have : k = Descs2U.mcs (exDUItem 2 [0x1F600] [0x3D, 0xD8, 0x00, 0xDE]) := by simpa using hk.symm
    subst this; rfl

/-- the layout: the strings inside the multiplexer case and inside the field items are single `value` entries of 32 bits whose
    pattern is the UTF-16LE bytes (`48 00 69 00`; the surrogate pair `3D D8 00 DE`) read as one big-endian number -/
theorem exDU_layout : Descs2U.layout exDU =
    [⟨.codedConst, "sid", 0, 1, true, 0, 8, 0x22⟩, ⟨.switchKey, "", 1, 1, true, 0, 8, 1⟩, ⟨.value, "txt", 2, 4, true, 0, 32, 0x48006900⟩,
     ⟨.value, "k", 6, 1, true, 0, 8, 1⟩, ⟨.value, "txt", 7, 4, true, 0, 32, 0x48006900⟩,
     ⟨.value, "k", 11, 1, true, 0, 8, 2⟩, ⟨.value, "txt", 12, 4, true, 0, 32, 0x3DD800DE⟩] := by decide +kernel

/-- the theorem applied to `exU`: all four clauses for the 16-byte PDU -/
example : ((∀ e ∈ Descs2U.layout exDU, ∀ j, j < e.bl → getBit exUPdu (absBit e.pos e.k e.hl (j + e.bp)) = e.raw.testBit j) ∧
      LDisj2 (Descs2U.layout exDU)) ∧
    (∀ a, (∀ e ∈ Descs2U.layout exDU, ¬ e.claims a) → getBit exUPdu a = false) ∧ exUPdu.length = Descs2U.extent exDU := by
  obtain ⟨h1, h2, h4⟩ := C02_bit_exact_nested2U exDU none exDU_ok exUPdu exU_enc
  exact ⟨h1 (Descs2U.padOk_of_noSizePadding _ (by rw [exDU_layout]; decide)), h2, h4⟩

end OdxVerif.Codec
