import OdxVerif.Proofs.DynLeafLeading
/-! # C01, leaves of input-dependent size — MIN-MAX-LENGTH-TYPE (terminated strings / byte fields) and
    LEADING-LENGTH-INFO-TYPE parameters at the top level of a request/response, next to everything of the field tier.
    (Separate file; imported nowhere.) -/
namespace OdxVerif.Codec
open OdxVerif.Bits OdxVerif.OdxM

/- Full statement of C01 (not yet a theorem, see `Props/C01.lean`):
   ∀ ps v trig pdu, wf ps → canon ps v → encodeMessage ps v trig true = .ok (pdu, 0) →
     decodeMessage ps pdu true = .ok (complete ps v trig, pdu.length)
   Proved here: the instance where the top-level parameters are those of `C01_roundtrip_fields[_eop]` and VALUE parameters
   over LEADING-LENGTH-INFO-TYPE / MIN-MAX-LENGTH-TYPE DOPs (identical compu method). Still missing relative to the full
   statement: these DOPs nested inside structures / field items / multiplexer cases (the pairs are `Good`, the structure
   tier's `Tree` has no constructor for them yet), terminated MIN-MAX values that are *empty* (see `Good.thenRaw`), the
   PARAM-LENGTH-INFO-TYPE, and everything `Props/C01.lean` lists. -/

/-- top-level parameters: the field tier plus the new leaves, in the places where they can stand anywhere but last
    (`mmTerm`) or anywhere at all -/
inductive DItem where
  | fitem (x : FItem)        -- tier-2 parameter, multiplexer, STATIC-FIELD, DYNAMIC-LENGTH-FIELD
  | lead (l : LeadLeaf)      -- LEADING-LENGTH-INFO-TYPE
  | mmTerm (l : MMLeaf)      -- MIN-MAX-LENGTH-TYPE, ZERO / HEX-FF, value shorter than MAX-LENGTH: terminator written
  | mmFull (l : MMLeaf)      -- MIN-MAX-LENGTH-TYPE, ZERO / HEX-FF, value of exactly MAX-LENGTH bytes: no terminator

/-- what may stand in the last place only: a MIN-MAX-LENGTH-TYPE object ended by the end of the PDU (TERMINATION
    END-OF-PDU, or ZERO / HEX-FF with the terminator omitted), or an END-OF-PDU-FIELD -/
inductive DLast where
  | mm (l : MMLeaf)
  | eop (e : EopLeaf)

def DItem.toM : DItem → MItem
  | .fitem x => { g := x.toG }
  | .lead l => { g := l.toG }
  | .mmTerm l => l.toMid
  | .mmFull l => { g := l.gFull }
def DLast.toM : DLast → MItem
  | .mm l => { g := l.gLast }
  | .eop e => { g := e.toG }

def DItem.ok : DItem → Prop
  | .fitem x => x.ok
  | .lead l => l.ok
  | .mmTerm l => l.okMid
  | .mmFull l => l.okFull
def DLast.ok : DLast → Prop
  | .mm l => l.okLast
  | .eop e => e.ok

def DItems.ms (xs : List DItem) (last : Option DLast) : List MItem := xs.map DItem.toM ++ (last.map DLast.toM).toList
/-- the parameter list -/
def DItems.toParams (xs : List DItem) (last : Option DLast) : List Param := GItems.toParams (MItems.gs (DItems.ms xs last))
/-- pure encoder/decoder of the whole parameter list; `.val` is the value dictionary -/
def DItems.pair (xs : List DItem) (last : Option DLast) : Pair (List (String × PVal)) := GItems.pair (MItems.gs (DItems.ms xs last))
def DItems.need (xs : List DItem) (last : Option DLast) : Nat := GItems.need (MItems.gs (DItems.ms xs last))
/-- the top-level short names are pairwise distinct -/
def DItems.namesOk (xs : List DItem) (last : Option DLast) : Prop := GItems.namesOk (MItems.gs (DItems.ms xs last))
/-- a terminated MIN-MAX parameter is not the last parameter (there the encoder omits the terminator: `DLast.mm`) -/
def DItems.termNotLast (xs : List DItem) (last : Option DLast) : Prop := MItems.midNotLast (DItems.ms xs last)

theorem DItem.toM_ok (x : DItem) (h : x.ok) : x.toM.Ok := by
  cases x with
  | fitem x => exact MItem.ofG _ (FItem.toG_ok x h)
  | lead l => exact MItem.ofG _ (l.toG_ok h)
  | mmTerm l => exact l.toMid_ok h
  | mmFull l => exact MItem.ofG _ (l.gFull_ok h)

theorem DLast.toM_ok (x : DLast) (h : x.ok) : x.toM.Ok := by
  cases x with
  | mm l => exact MItem.ofG _ (l.gLast_ok h)
  | eop e => exact MItem.ofG _ (e.toG_ok h)

theorem DItem.toM_eopOnly (x : DItem) : x.toM.g.eopOnly = false := by cases x <;> rfl

theorem MItems.okAll_append (ms : List MItem) (ns : List MItem) (h1 : MItems.okAll ms) (h2 : MItems.okAll ns) :
    MItems.okAll (ms ++ ns) := by
  induction ms with
  | nil => exact h2
  | cons m ms ih => exact ⟨h1.1, ih h1.2⟩

theorem DItems.okAll_ms (xs : List DItem) (last : Option DLast) (hok : ∀ x ∈ xs, x.ok) (hl : ∀ e, last = some e → e.ok) :
    MItems.okAll (DItems.ms xs last) := by
  apply MItems.okAll_append
  · induction xs with
    | nil => trivial
    | cons x xs ih => exact ⟨x.toM_ok (hok x (List.mem_cons_self ..)), ih (fun y hy => hok y (List.mem_cons_of_mem _ hy))⟩
  · cases last with
    | none => trivial
    | some e => exact ⟨e.toM_ok (hl e rfl), trivial⟩

theorem DItems.eopLast_ms (xs : List DItem) (last : Option DLast) : GItems.eopLast (MItems.gs (DItems.ms xs last)) := by
  have hx : ∀ g ∈ (xs.map DItem.toM).map MItem.g, g.eopOnly = false := by
    intro g hg
    simp only [List.map_map, List.mem_map, Function.comp] at hg
    obtain ⟨x, _, rfl⟩ := hg
    exact x.toM_eopOnly
  cases last with
  | none =>
    simp only [DItems.ms, MItems.gs, Option.map_none, Option.toList_none, List.append_nil]
    exact GItems.eopLast_of_none _ hx
  | some e =>
    simp only [DItems.ms, MItems.gs, Option.map_some, Option.toList_some, List.map_append, List.map_cons, List.map_nil]
    exact GItems.eopLast_append _ _ hx

/-- **C01, leaves of input-dependent size.** Requests/responses whose top-level parameters are, in any order and each
    positioned explicitly (BYTE-POSITION) or behind its predecessor, with pairwise distinct short names:
    * everything of `C01_roundtrip_fields` (`DItem.fitem`);
    * VALUE parameters over a **LEADING-LENGTH-INFO-TYPE** (`DItem.lead`, `LeadLeaf.ok`): a length prefix of 1 … 64 bits at
      the parameter's byte *and bit* position, either byte order, able to hold the number of bytes, then the bytes of an
      A_BYTEFIELD value or of an A_ASCIISTRING / A_UTF8STRING / A_UNICODE2STRING value (`Payload`: the bytes `str.encode`
      gives, which `bytes.decode` turns back — hypotheses on the concrete string; `leadByteLen`: the length the encoder
      writes is the number of payload bytes);
    * VALUE parameters over a **MIN-MAX-LENGTH-TYPE** with TERMINATION ZERO / HEX-FF (`MMLeaf.okBase`: MIN-LENGTH ≤ number of
      bytes ≤ MAX-LENGTH and — *exactly the condition under which the encoder accepts* — no termination sequence inside the
      value at a multiple of its length at or behind MIN-LENGTH; one-byte sequence, two bytes for A_UNICODE2STRING):
      - `DItem.mmTerm` (`okMid`): the value is shorter than MAX-LENGTH and the parameter is not the last one — the terminator
        is written, and the decoder's search (`findTerm_spec`) finds exactly it: the first aligned occurrence at or behind
        MIN-LENGTH;
      - `DItem.mmFull` (`okFull`): the value has exactly MAX-LENGTH bytes — no terminator, anywhere in the PDU;
    * as the **last** parameter (`DLast`), optionally: a MIN-MAX-LENGTH-TYPE parameter of any TERMINATION (END-OF-PDU, or
      ZERO / HEX-FF whose terminator the encoder omits at the end of the PDU), or an END-OF-PDU-FIELD; then `hend`: the
      position behind it is the end of the PDU (the decoder reads to the end of the message).
    `(DItems.pair xs last).val` is the value dictionary. If strict `Request.encode` returns a PDU without an overlap
    warning, strict `Request.decode` returns exactly that dictionary.
    Restrictions the proof forced (`MMLeaf.okMid`): a terminated value is non-empty (a limit of the proof framework, not
    of odxtools: see `Good.thenRaw`); its length is a multiple of the terminator's length (the encoder asserts it); and
    the terminator ends within MAX-LENGTH — for the two-byte terminator this excludes `len = MAX-LENGTH − 1` (odd
    MAX-LENGTH), where odxtools does *not* round-trip: finding `minmax-unicode2-odd-max-length`. -/
theorem C01_roundtrip_dynleaves (xs : List DItem) (last : Option DLast) (hneed : DItems.need xs last + 2 ≤ modelFuel)
    (hok : ∀ x ∈ xs, x.ok) (hlok : ∀ e, last = some e → e.ok) (hn : DItems.namesOk xs last)
    (hterm : DItems.termNotLast xs last) (trig : Option Bytes) (pdu : Bytes)
    (hend : last.isSome = true → ((DItems.pair xs last).enc {}).cursorByte = pdu.length)
    (henc : encodeMessage none (DItems.toParams xs last) (.dict (DItems.pair xs last).val) trig true = .ok (pdu, 0)) :
    ∃ cursor, decodeMessage none (DItems.toParams xs last) pdu true = .ok (.dict (DItems.pair xs last).val, cursor) := by
  refine mitems_roundtrip_msg (DItems.ms xs last) hneed (DItems.okAll_ms xs last hok hlok) (DItems.eopLast_ms xs last) hterm hn
    trig pdu ?_ henc
  intro ⟨g, hg, he⟩
  apply hend
  cases last with
  | some e => rfl
  | none =>
    exfalso
    simp only [DItems.ms, MItems.gs, Option.map_none, Option.toList_none, List.append_nil, List.map_map, List.mem_map,
      Function.comp] at hg
    obtain ⟨x, _, rfl⟩ := hg
    rw [x.toM_eopOnly] at he
    cases he


/-! non-vacuity: [sid; ll: LEADING-LENGTH-INFO-TYPE A_BYTEFIELD, 4-bit prefix at bit 4; bf: MIN-MAX A_BYTEFIELD, MIN-LENGTH 2,
    ZERO — the value starts with the terminator byte 00, at a non-admissible position (before MIN-LENGTH); u2: MIN-MAX
    A_UNICODE2STRING (UTF-16-LE), MAX-LENGTH 8, ZERO — "A\u0100" = 41 00 00 01 contains 00 00 at the *odd* offset 1, not a
    terminator; two-byte terminator 00 00 behind it; fx: MIN-MAX A_ASCIISTRING, MAX-LENGTH 3, HEX-FF, "abc": no terminator;
    z; tail: MIN-MAX A_UTF8STRING, ZERO, "hé" as the last parameter: terminator omitted at the end of the PDU] -/
def exDLead : LeadLeaf :=
  { name := "ll", bytePos := none, bitPos := some 4, bt := .bytefield, enc := none, hl := true, bitLen := 4,
    v := .bytes [0xDE, 0xAD, 0xBE], raw := [0xDE, 0xAD, 0xBE] }
def exDTermBytes : MMLeaf :=
  { name := "bf", bytePos := none, bt := .bytefield, enc := none, hl := true, minLen := 2, maxLen := none, term := .zero,
    v := .bytes [0x00, 0x11, 0x22], raw := [0x00, 0x11, 0x22] }
def exDTermU2 : MMLeaf :=
  { name := "u2", bytePos := none, bt := .unicode2, enc := none, hl := false, minLen := 0, maxLen := some 8, term := .zero,
    v := .str [0x41, 0x100], raw := [0x41, 0x00, 0x00, 0x01] }
def exDFull : MMLeaf :=
  { name := "fx", bytePos := none, bt := .ascii, enc := none, hl := true, minLen := 1, maxLen := some 3, term := .hexff,
    v := .str [0x61, 0x62, 0x63], raw := [0x61, 0x62, 0x63] }
def exDLast : MMLeaf :=
  { name := "tail", bytePos := none, bt := .utf8, enc := none, hl := true, minLen := 0, maxLen := none, term := .zero,
    v := .str [0x68, 0xE9], raw := [0x68, 0xC3, 0xA9] }
def exDItems : List DItem :=
  [.fitem (.item (.tree (.const ⟨"sid", none, none, none, true, 8, .uint32⟩ (.int 0x22)))), .lead exDLead, .mmTerm exDTermBytes,
   .mmTerm exDTermU2, .mmFull exDFull, .fitem (.item (.tree (.int ⟨"z", none, none, none, true, 8, .uint32⟩ (.int 0xA5))))]

/-- the value dictionary -/
example : (DItems.pair exDItems (some (.mm exDLast))).val =
    [("sid", .atom (.int 0x22)), ("ll", .atom (.bytes [0xDE, 0xAD, 0xBE])), ("bf", .atom (.bytes [0x00, 0x11, 0x22])),
     ("u2", .atom (.str [0x41, 0x100])), ("fx", .atom (.str [0x61, 0x62, 0x63])), ("z", .atom (.int 0xA5)),
     ("tail", .atom (.str [0x68, 0xE9]))] := rfl
/-- the PDU (no overlap warning): 22 | 3·16 = 30, DE AD BE | 00 11 22, terminator 00 | 41 00 00 01, terminator 00 00 |
    61 62 63 | A5 | 68 C3 A9 -/
example : (encodeMessage none (DItems.toParams exDItems (some (.mm exDLast)))
      (.dict (DItems.pair exDItems (some (.mm exDLast))).val) none true).toOption
    = some ([0x22, 0x30, 0xDE, 0xAD, 0xBE, 0x00, 0x11, 0x22, 0x00, 0x41, 0x00, 0x00, 0x01, 0x00, 0x00, 0x61, 0x62, 0x63, 0xA5,
             0x68, 0xC3, 0xA9], 0) := by decide +kernel
/-- … and what the model's decoder makes of it -/
example : ((decodeMessage none (DItems.toParams exDItems (some (.mm exDLast)))
      [0x22, 0x30, 0xDE, 0xAD, 0xBE, 0x00, 0x11, 0x22, 0x00, 0x41, 0x00, 0x00, 0x01, 0x00, 0x00, 0x61, 0x62, 0x63, 0xA5,
       0x68, 0xC3, 0xA9] true).toOption.map
        fun r => (pvalEq r.1 (.dict (DItems.pair exDItems (some (.mm exDLast))).val), r.2)) = some (true, 22) := by decide +kernel
/-- `hend`: the pure encoder's cursor ends at byte 22 = the length of the PDU -/
example : ((DItems.pair exDItems (some (.mm exDLast))).enc {}).cursorByte = 22 := by decide +kernel
example : DItems.need exDItems (some (.mm exDLast)) + 2 ≤ modelFuel := by decide
example : DItems.namesOk exDItems (some (.mm exDLast)) := by
  simp [DItems.namesOk, DItems.ms, MItems.gs, GItems.namesOk, exDItems, DItem.toM, DLast.toM, FItem.toG, FItem.name, Item.name,
    Tree.name, LeadLeaf.toG, MMLeaf.toMid, MMLeaf.gFull, MMLeaf.gLast, exDLead, exDTermBytes, exDTermU2, exDFull, exDLast]
example : DItems.termNotLast exDItems (some (.mm exDLast)) := rfl
example : exDLead.ok :=
  ⟨by decide, by decide, by decide, ⟨allBytes_of_all _ (by decide), Or.inl ⟨rfl, rfl, Or.inl rfl⟩⟩, rfl⟩
/-- the terminator byte at offset 0 is in front of MIN-LENGTH = 2: the encoder's check passes -/
example : exDTermBytes.okMid :=
  ⟨⟨⟨allBytes_of_all _ (by decide), Or.inl ⟨rfl, rfl, Or.inl rfl⟩⟩, by decide, (fun _ h => nomatch h), fun _ => by decide⟩, by decide, by decide,
    by decide, (fun _ h => nomatch h)⟩
/-- `00 00` at the odd offset 1 is not aligned: the encoder's check passes; 4 + 2 ≤ MAX-LENGTH = 8 -/
example : exDTermU2.okMid :=
  ⟨⟨⟨allBytes_of_all _ (by decide), Or.inr ⟨rfl, .utf16le, [0x41, 0x100], rfl, rfl, by decide +kernel, by decide +kernel⟩⟩, by decide,
      fun mx h => by cases h; decide, fun _ => by decide⟩,
    by decide, by decide, by decide, fun mx h => by cases h; decide⟩
example : exDFull.okFull :=
  ⟨⟨⟨allBytes_of_all _ (by decide), Or.inr ⟨rfl, .latin1, [0x61, 0x62, 0x63], rfl, rfl, by decide +kernel, by decide +kernel⟩⟩, by decide,
      fun mx h => by cases h; decide, fun _ => by decide⟩, by decide, rfl⟩
example : exDLast.okLast :=
  ⟨⟨allBytes_of_all _ (by decide), Or.inr ⟨rfl, .utf8, [0x68, 0xE9], rfl, rfl, by decide +kernel, by decide +kernel⟩⟩, by decide,
    (fun _ h => nomatch h), fun _ => by decide⟩
example : ∀ x ∈ exDItems, x.ok := by
  intro x hx
  simp only [exDItems, List.mem_cons, List.mem_nil_iff, or_false] at hx
  rcases hx with rfl | rfl | rfl | rfl | rfl | rfl
  · simp [DItem.ok, FItem.ok, Item.ok, Tree.okAll, Tree.namesOk, Obj.ok, Obj.encOk, Obj.sizeOk, Obj.inRange]
  · exact ⟨by decide, by decide, by decide, ⟨allBytes_of_all _ (by decide), Or.inl ⟨rfl, rfl, Or.inl rfl⟩⟩, rfl⟩
  · exact ⟨⟨⟨allBytes_of_all _ (by decide), Or.inl ⟨rfl, rfl, Or.inl rfl⟩⟩, by decide, (fun _ h => nomatch h), fun _ => by decide⟩, by decide, by decide,
      by decide, (fun _ h => nomatch h)⟩
  · exact ⟨⟨⟨allBytes_of_all _ (by decide), Or.inr ⟨rfl, .utf16le, [0x41, 0x100], rfl, rfl, by decide +kernel, by decide +kernel⟩⟩, by decide,
        fun mx h => by cases h; decide, fun _ => by decide⟩,
      by decide, by decide, by decide, fun mx h => by cases h; decide⟩
  · exact ⟨⟨⟨allBytes_of_all _ (by decide), Or.inr ⟨rfl, .latin1, [0x61, 0x62, 0x63], rfl, rfl, by decide +kernel, by decide +kernel⟩⟩, by decide,
        fun mx h => by cases h; decide, fun _ => by decide⟩, by decide, rfl⟩
  · simp [DItem.ok, FItem.ok, Item.ok, Tree.okAll, Tree.namesOk, Obj.ok, Obj.encOk, Obj.sizeOk, Obj.inRange]

/-- the excluded point of `MMLeaf.okMid` (two-byte terminator, odd MAX-LENGTH, value of MAX-LENGTH − 1 bytes): the
    model's encoder accepts "a" for MAX-LENGTH 3 and writes 61 00 00 00, its decoder then fails — and so does odxtools
    (finding `minmax-unicode2-odd-max-length`; real code: `Request.encode(s="a", y=0x77)` = 22 00 61 00 00 77 (UTF-16-BE),
    `Request.decode` raises DecodeError "Cannot decode 0x006100 as a string"). -/
def exDOdd : List Param :=
  [.mk "s" none none (.value (.simple (.minmax .unicode2 none false 0 (some 3) .zero) .unicode2 .identical) none),
   .mk "y" none none (.value (.simple (.std .uint32 none true 8 none false) .uint32 .identical) none)]
example : (encodeMessage none exDOdd (.dict [("s", .atom (.str [0x61])), ("y", .atom (.int 0x77))]) none true).toOption
    = some ([0x61, 0x00, 0x00, 0x00, 0x77], 0) := by decide +kernel
example : (decodeMessage none exDOdd [0x61, 0x00, 0x00, 0x00, 0x77] true).toOption.isNone = true := by decide +kernel

end OdxVerif.Codec
