import OdxVerif.Props.C08
import OdxVerif.Proofs.CodecStaticLenGenEq
/-! # C08 — the static bit length through the function GENERATED from the source

    `Gen.staticBitLengthE` (`Gen/CodecStaticLen.lean`) is regenerated from `composite_codec_get_static_bit_length`
    of `odxtools/codec.py` on every run of C08 (`harness/extract/py2lean.py`); the theorems below are re-checked against
    the current source. `param.get_static_bit_length()`, `param.byte_position`, `param.bit_position` are the abstract
    record interface (`Param.kind.staticBitLen`, `Param.bytePos`, `Param.bitPos`). -/
namespace OdxVerif.Codec

/-- **Tie.** For every parameter list the rendered source raises nothing and computes the model's static length -/
theorem C08_gen_static_length (ps : List Param) :
    Gen.staticBitLengthE ps = .ok ((paramsStaticLen ps 0 0).map (· * 8)) ∧
    Gen.staticBitLengthE ps = .ok (Dop.struct none ps).staticBitLen :=
  ⟨gen_staticLen_eq ps, gen_staticLen_struct ps⟩

/-! non-vacuity: positioned and unpositioned parameters, a bit position, the early `return None` -/
example : Gen.staticBitLengthE [.mk "a" none none (.reserved 12), .mk "b" (some 5) (some 3) (.reserved 6), .mk "c" none none (.reserved 8)]
    = .ok (some 64) := by decide
example : Gen.staticBitLengthE [.mk "a" none none (.reserved 12), .mk "b" none none .unsupported] = .ok none := by decide

end OdxVerif.Codec
