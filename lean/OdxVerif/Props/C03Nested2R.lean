import OdxVerif.Props.C02Nested2R
import OdxVerif.Props.C03Nested2
/-! # C03, nested tier, extension W22 — decode → re-encode with RESERVED / NRC-CONST parameters (`Desc2R`).
    (Separate file; imported nowhere.) -/
namespace OdxVerif.Codec
open OdxVerif.Bits OdxVerif.OdxM

/- Full statement of C03: see `Props/C03Nested.lean`.  With skipped parameters the statement needs care:
   * "whose bits are all described by value-carrying parameters in canonical form" — the bits of a RESERVED / NRC-CONST object
     that no entry of the layout claims are described by NO value-carrying parameter; the encoder never writes them, so the PDU
     is reproduced only if they are ZERO (`hzero`; `22 05 FF 0F` decodes to `{…, 'r': 4095}` and re-encodes to `22 05 00 00`, in
     the model and in odxtools — outside the hypothesis of C03).  `hzero` + `hext` replace the coverage hypothesis `hcover`.
   * "encoding the decoded values": the decoded dictionary has an entry for every skipped parameter.  For RESERVED the encoder
     ignores it (`ReservedParameter.is_settable = False`, no check).  For **NRC-CONST it is an EncodeError** ("The value of
     NRC-CONST parameters cannot be set directly!"): `C03_nrcconst_decoded_not_reencodable` — a PDU all of whose bits are
     described by value-carrying parameters, decoded successfully, whose decoded values the encoder REJECTS.  Candidate finding
     (model = odxtools).  The theorem below therefore re-encodes `Descs2R.supplied ds` = the decoded dictionary WITHOUT the
     entries of the skipped parameters (and of MATCHING-REQUEST-PARAMs / omitted constants, as in `C03_reencode_nested2_echo`). -/

/-- **C03, nested tier, with RESERVED and NRC-CONST.**  `ds`: a well-formed request / response to `trig` with its value tree
    (`Descs2R.ok`; every RESERVED / NRC-CONST node carries the value `r` the decoder returned for it); `pdu`: every entry of the
    layout reads as its pattern (`hbits`), the entries are pairwise disjoint (`hdisj`), every bit no entry claims is zero
    (`hzero`), the PDU is as long as the layout's extent (`hext`), an END-OF-PDU object ends at the end (`hend`), and the skipped
    objects read as their `r` (`hres`, the wire condition — by `hzero` necessarily `r = 0` where nobody overlaps).  Then strict
    `decode` returns `Descs2R.decoded ds`, and strict `encode` of `Descs2R.supplied ds` returns the PDU byte for byte, without
    an overlap warning. -/
theorem C03_reencode_nested2R (ds : List Desc2R) (trig : Option Bytes) (hok : Descs2R.ok trig ds) (pdu : Bytes) (hall : AllBytes pdu)
    (hbits : ∀ e ∈ Descs2R.layout ds, ∀ j, j < e.bl → getBit pdu (absBit e.pos e.k e.hl (j + e.bp)) = e.raw.testBit j)
    (hdisj : LDisj2 (Descs2R.layout ds))
    (hzero : ∀ a, (∀ e ∈ Descs2R.layout ds, ¬ e.claims a) → getBit pdu a = false)
    (hext : pdu.length = Descs2R.extent ds)
    (hend : Comps.anyEop (Descs2R.comps ds) = true → Descs2R.endCursor ds = pdu.length)
    (hres : Descs2R.resPre ds { msg := pdu }) :
    decodeMessage none (Descs2R.params ds) pdu true = .ok (.dict (Descs2R.decoded ds), Descs2R.endCursor ds) ∧
      encodeMessage none (Descs2R.params ds) (.dict (Descs2R.supplied ds)) trig true = .ok (pdu, 0) := by
  obtain ⟨hm, hw⟩ := descs2R_reencode_pure trig ds hok.1 pdu hall hbits ((LDisj2_iff _).mp hdisj) hzero hext
  have henc : encodeMessage none (Descs2R.params ds) (.dict (Descs2R.supplied ds)) trig true = .ok (pdu, 0) := by
    rw [descs2R_encodeMessage trig ds hok, hm, hw]
  exact ⟨C01_roundtrip_nested2R ds trig hok pdu hend hres henc, henc⟩

/-- the converse: the PDU strict `encode` makes satisfies `hbits`, `hdisj`, `hzero`, `hext` (given `padOk`) -/
theorem C03_encoded_is_canonical2R (ds : List Desc2R) (trig : Option Bytes) (hok : Descs2R.ok trig ds) (hp : Descs2R.padOk ds)
    (pdu : Bytes) (henc : encodeMessage none (Descs2R.params ds) (.dict (Descs2R.supplied ds)) trig true = .ok (pdu, 0)) :
    (∀ e ∈ Descs2R.layout ds, ∀ j, j < e.bl → getBit pdu (absBit e.pos e.k e.hl (j + e.bp)) = e.raw.testBit j) ∧
    LDisj2 (Descs2R.layout ds) ∧ (∀ a, (∀ e ∈ Descs2R.layout ds, ¬ e.claims a) → getBit pdu a = false) ∧
    pdu.length = Descs2R.extent ds := by
  obtain ⟨h1, h2, h4⟩ := C02_bit_exact_nested2R ds trig hok pdu henc
  exact ⟨(h1 hp).1, (h1 hp).2, h2, h4⟩

/-! ### non-vacuity: `exRes` (request with two RESERVED parameters) as a decoded value tree -/

theorem exRes_canon :
    (∀ e ∈ Descs2R.layout exRes, ∀ j, j < e.bl → getBit exResPdu (absBit e.pos e.k e.hl (j + e.bp)) = e.raw.testBit j) ∧
    LDisj2 (Descs2R.layout exRes) ∧ (∀ a, (∀ e ∈ Descs2R.layout exRes, ¬ e.claims a) → getBit exResPdu a = false) ∧
    exResPdu.length = Descs2R.extent exRes :=
  C03_encoded_is_canonical2R exRes none exRes_ok (Descs2R.padOk_of_check _ (by decide +kernel)) exResPdu exRes_enc
theorem exRes_disj : LDisj2 (Descs2R.layout exRes) := exRes_canon.2.1

example : decodeMessage none (Descs2R.params exRes) exResPdu true = .ok (.dict (Descs2R.decoded exRes), 8) ∧
    encodeMessage none (Descs2R.params exRes) (.dict (Descs2R.supplied exRes)) none true = .ok (exResPdu, 0) :=
  C03_reencode_nested2R exRes none exRes_ok exResPdu (allBytes_of_all _ (by decide))
    (by rw [exRes_layout]; decide +kernel) exRes_disj
    exRes_canon.2.2.1
    (by decide +kernel) (fun _ => by decide +kernel) exRes_wire

/-- for RESERVED parameters the FULL decoded dictionary (with the entries `rs ↦ 0`, `tail ↦ 0`) re-encodes to the PDU as well:
    the encoder ignores them (model = odxtools) -/
example : (encodeMessage none (Descs2R.params exRes) (.dict (Descs2R.decoded exRes)) none true).toOption = some (exResPdu, 0) := by
  decide +kernel

/-- a RESERVED object with non-zero bits in the PDU (outside `hzero`): decodes (`r = 4095`), re-encodes to a DIFFERENT PDU -/
theorem C03_reserved_nonzero_not_reproduced :
    let ps : List Param := [(rU8 "sid").toConstParam (.int 0x22), (rU8 "a").toParam, .mk "r" none none (.reserved 12)]
    (decodeMessage none ps [0x22, 0x05, 0xFF, 0x0F] true).toOption.map (fun r => pvalEq r.1
      (.dict [("sid", .atom (.int 0x22)), ("a", .atom (.int 5)), ("r", .atom (.int 4095))])) = some true ∧
    (encodeMessage none ps (.dict [("sid", .atom (.int 0x22)), ("a", .atom (.int 5)), ("r", .atom (.int 4095))]) none true).toOption
      = some ([0x22, 0x05, 0x00, 0x00], 0) := by
  constructor <;> decide +kernel

/-- **NRC-CONST: the decoded dictionary is rejected by the encoder.**  Negative response [sid = 0x7F; n : NRC-CONST {0x10, 0x11} at
    byte 1; code : VALUE u8 at byte 1]; the PDU `7F 11` — every bit described by a value-carrying parameter — decodes to
    `{sid: 0x7F, n: 0x11, code: 0x11}`; strict `encode` of exactly that dictionary raises EncodeError; without the entry `n` it
    returns `7F 11`.  (odxtools: "The value of NRC-CONST parameters cannot be set directly!") -/
theorem C03_nrcconst_decoded_not_reencodable :
    let ps : List Param := [(rU8 "sid").toConstParam (.int 0x7F),
      .mk "n" (some 1) none (.nrcConst (.std .uint32 none true 8 none false) [.int 0x10, .int 0x11]), (rU8 "code" (some 1)).toParam]
    (decodeMessage none ps [0x7F, 0x11] true).toOption.map (fun r => pvalEq r.1
      (.dict [("sid", .atom (.int 0x7F)), ("n", .atom (.int 0x11)), ("code", .atom (.int 0x11))])) = some true ∧
    (match encodeMessage none ps (.dict [("sid", .atom (.int 0x7F)), ("n", .atom (.int 0x11)), ("code", .atom (.int 0x11))]) none true
      with | .error .encode => true | _ => false) = true ∧
    (encodeMessage none ps (.dict [("sid", .atom (.int 0x7F)), ("code", .atom (.int 0x11))]) none true).toOption
      = some ([0x7F, 0x11], 0) := by
  refine ⟨?_, ?_, ?_⟩ <;> decide +kernel

end OdxVerif.Codec
