import OdxVerif.Props.C04Nested2
import OdxVerif.Proofs.CompReject3MinMax
/-! # C04 on the compositional nested tier, part 2b (task W30): **terminated MIN-MAX-LENGTH-TYPE leaves**
    `C04_nested` (`Props/C04Nested2.lean`) had MIN-MAX-LENGTH leaves in last position only (ended by the end of the PDU).  Here a
    MIN-MAX-LENGTH-TYPE leaf over `A_BYTEFIELD` may stand at every position of a structure (request or nested STRUCTURE) but the
    last: the encoder sees `is_end_of_pdu` cleared there, writes the value and — unless the value has exactly MAX-LENGTH bytes — the
    termination byte (`PDesc.ofMinMaxMidBytes`, `Proofs/CompReject3MinMax.lean`).
    Acceptance (explicit, `MMShape.acceptsMid`): bytes < 256, MIN-LENGTH ≤ length ≤ MAX-LENGTH, no termination byte at a position
    ≥ MIN-LENGTH.  The real encoder makes exactly these checks (`/repo/odxtools/minmaxlengthtype.py`: the embedded-terminator check
    precedes the emplacement), so an accepted value never decodes to a shorter one — no finding here.
    Shape hypothesis `MMShape.okMid` (decidable): base-type encoding none / NONE / BCD-P / BCD-UP (no influence on `bytes`),
    TERMINATION ≠ END-OF-PDU, MIN-LENGTH ≥ 1.
    NOT covered: terminated leaves over the string base types (alignment of the two-byte terminator of `A_UNICODE2STRING`), MIN-LENGTH 0
    (the empty value is accepted by the encoder; `MMLeaf.okMid` has no empty payloads), a terminated leaf directly as an item
    parameter's last position of a field (only via a STRUCTURE in which it is not last). -/
namespace OdxVerif.Codec
open OdxVerif.Bits OdxVerif.OdxM

/-- **C04, nested tier with terminated MIN-MAX-LENGTH leaves.**  The request's parameters `MDescs.ps ms` are `DescribedP2b`
    descriptions (flag `mid = false`) or terminated MIN-MAX-LENGTH leaves (`mid = true`, none of them last).  Strict `encode` of the
    model on an arbitrary supplied value (atoms Python can supply, typed) raises `EncodeError` / `OdxError`, or returns a PDU — and then the
    value is a dictionary the description accepts, and unless an overlap was reported strict `decode` returns its completion. -/
theorem C04_nested2b (ms : List MDesc) (hd : ∀ m ∈ ms, m.mid = false → DescribedP2b m.p)
    (hm : ∀ m ∈ ms, m.mid = true → ∃ sh : MMShape, sh.okMid ∧ m.p = PDesc.ofMinMaxMidBytes sh)
    (hn : PDescs.namesOk (MDescs.ps ms)) (hl : PDescs.eopLast (MDescs.ps ms)) (hmid : MDescs.lastMid ms = false)
    (pv : PVal) (hwf : pv.wfAtoms = true) (trig : Option Bytes) (hneed : pv.needFor (MDescs.ps ms) ≤ modelFuel)
    (hty : pv.typedForP (MDescs.ps ms) = true) :
    (∃ e, encodeMessage none (PDescs.toParams (MDescs.ps ms)) pv trig true = .error e ∧ (e = .encode ∨ e = .odx)) ∨
    ∃ (kvs : List (String × PVal)) (pdu : Bytes) (w : Nat), pv = .dict kvs ∧ pv.acceptedByP (MDescs.ps ms) = true ∧
      encodeMessage none (PDescs.toParams (MDescs.ps ms)) pv trig true = .ok (pdu, w) ∧
      (w = 0 → (PDescs.anyEop (MDescs.ps ms) = true → pv.endCursor (MDescs.ps ms) = pdu.length) →
        ∃ cursor, decodeMessage none (PDescs.toParams (MDescs.ps ms)) pdu true =
          .ok (.dict (PDescs.complete (MDescs.ps ms) kvs), cursor)) := by
  rcases encodeMessage_nested2b_cases ms hd hm hn hl hmid pv hwf trig hneed with
    ⟨_, e, hrun, he⟩ | ⟨c, hf, hc, pdu, w, hrun, hrt⟩
  · rcases he with he | ⟨_, hff⟩
    · exact Or.inl ⟨e, hrun, he⟩
    · rw [PVal.typedForP] at hty; rw [hty] at hff; cases hff
  · obtain ⟨kvs, rfl⟩ := DDesc.struct_fill_dict _ pv c hf
    refine Or.inr ⟨kvs, pdu, w, rfl, by simp [PVal.acceptedByP, hf], hrun, ?_⟩
    intro hw hend
    exact hrt hw (fun he => by
      have := hend (hc.eop he)
      simpa [PVal.endCursor, hf] using this)

/-- **accepted ⇔ acceptable** with terminated leaves: the strict encoder returns a PDU exactly for the values `acceptedByP` describes
    (for a terminated leaf: `MMShape.acceptsMid`) -/
theorem C04_nested_accepts_iff2b (ms : List MDesc) (hd : ∀ m ∈ ms, m.mid = false → DescribedP2b m.p)
    (hm : ∀ m ∈ ms, m.mid = true → ∃ sh : MMShape, sh.okMid ∧ m.p = PDesc.ofMinMaxMidBytes sh)
    (hn : PDescs.namesOk (MDescs.ps ms)) (hl : PDescs.eopLast (MDescs.ps ms)) (hmid : MDescs.lastMid ms = false)
    (pv : PVal) (hwf : pv.wfAtoms = true) (trig : Option Bytes) (hneed : pv.needFor (MDescs.ps ms) ≤ modelFuel) :
    (∃ r, encodeMessage none (PDescs.toParams (MDescs.ps ms)) pv trig true = .ok r) ↔ pv.acceptedByP (MDescs.ps ms) = true := by
  rcases encodeMessage_nested2b_cases ms hd hm hn hl hmid pv hwf trig hneed with
    ⟨hf, e, hrun, _⟩ | ⟨c, hf, _, pdu, w, hrun, _⟩
  · rw [hrun, PVal.acceptedByP, hf]
    constructor
    · rintro ⟨r, h⟩; cases h
    · intro h; cases h
  · rw [hrun, PVal.acceptedByP, hf]
    exact ⟨fun _ => rfl, fun _ => ⟨_, rfl⟩⟩

/-- the acceptance of a terminated leaf, spelled out: the description accepts `pv` iff it is a `bytes` atom satisfying `acceptsMid` -/
theorem PDesc.ofMinMaxMidBytes_fill_isSome (sh : MMShape) (pv : Option PVal) :
    ((PDesc.ofMinMaxMidBytes sh).fill pv).isSome = true ↔ ∃ b, pv = some (.atom (.bytes b)) ∧ sh.acceptsMid b = true := by
  constructor
  · intro h
    cases pv with
    | none => simp [PDesc.ofMinMaxMidBytes] at h
    | some x =>
      cases x with
      | atom v =>
        cases v with
        | bytes b =>
          refine ⟨b, rfl, ?_⟩
          cases hc : sh.acceptsMid b with
          | true => rfl
          | false => simp [PDesc.ofMinMaxMidBytes, hc] at h
        | _ => simp [PDesc.ofMinMaxMidBytes] at h
      | _ => simp [PDesc.ofMinMaxMidBytes] at h
  · rintro ⟨b, rfl, hb⟩
    simp [PDesc.ofMinMaxMidBytes, hb]

/-! ## non-vacuity
    request = [ sid (CODED-CONST 0x2E); mm : MIN-MAX-LENGTH-TYPE, MIN-LENGTH 1, MAX-LENGTH 3, TERMINATION ZERO;
                st : STRUCTURE { hx : MIN-MAX-LENGTH-TYPE, MIN 2, no MAX, TERMINATION HEX-FF; n : 8 bit }; tail : 8 bit ] -/
def wSh : MMShape := { name := "mm", bytePos := none, enc := none, hl := true, minLen := 1, maxLen := some 3, term := .zero }
def wShX : MMShape := { name := "hx", bytePos := none, enc := none, hl := true, minLen := 2, maxLen := none, term := .hexff }
def wInner : List MDesc := [MDesc.ofMinMaxMid wShX, MDesc.plain (pu8 "n")]
def wSt : PDesc := PDesc.ofValue "st" none (DDesc.struct (MDescs.ps wInner))
def wMs : List MDesc :=
  [MDesc.plain (PDesc.ofObjConst ⟨"sid", none, none, none, true, 8, .uint32⟩ (.int 0x2E)), MDesc.ofMinMaxMid wSh, MDesc.plain wSt,
   MDesc.plain (pu8 "tail")]
def wMk (mm hx : PVal) : PVal := .dict [("mm", mm), ("st", .dict [("hx", hx), ("n", .atom (.int 7))]), ("tail", .atom (.int 0x99))]
def wB (b : List Nat) : PVal := .atom (.bytes b)

theorem wSh_ok : wSh.okMid ∧ wShX.okMid := by decide

theorem wSt_described : DescribedP2b wSt := by
  refine DescribedP2b.structM "st" none wInner ?_ ?_ ?_ ⟨rfl, trivial⟩ rfl
  · intro m hmem hmid
    simp only [wInner, List.mem_cons, List.mem_nil_iff, or_false] at hmem
    rcases hmem with rfl | rfl
    · cases hmid
    · exact DescribedP2b.base _ (described_pu8' _)
  · intro m hmem hmid
    simp only [wInner, List.mem_cons, List.mem_nil_iff, or_false] at hmem
    rcases hmem with rfl | rfl
    · exact ⟨wShX, wSh_ok.2, rfl⟩
    · cases hmid
  · simp [PDescs.namesOk, MDescs.ps, wInner, MDesc.ofMinMaxMid, MDesc.plain, PDesc.name, Param.name, PDesc.ofMinMaxMidBytes,
      MMShape.leaf, MMLeaf.toParam, wShX, pu8, PDesc.ofObjValue, Obj.toParam]

theorem wMs_described : (∀ m ∈ wMs, m.mid = false → DescribedP2b m.p) ∧
    (∀ m ∈ wMs, m.mid = true → ∃ sh : MMShape, sh.okMid ∧ m.p = PDesc.ofMinMaxMidBytes sh) := by
  constructor
  · intro m hmem hmid
    simp only [wMs, List.mem_cons, List.mem_nil_iff, or_false] at hmem
    rcases hmem with rfl | rfl | rfl | rfl
    · exact DescribedP2b.base _ (DescribedP2.const _ _ (by simp [Obj.ok, Obj.encOk, Obj.sizeOk]) (by simp [Obj.inRange]))
    · cases hmid
    · exact wSt_described
    · exact DescribedP2b.base _ (described_pu8' _)
  · intro m hmem hmid
    simp only [wMs, List.mem_cons, List.mem_nil_iff, or_false] at hmem
    rcases hmem with rfl | rfl | rfl | rfl
    · cases hmid
    · exact ⟨wSh, wSh_ok.1, rfl⟩
    · cases hmid
    · cases hmid

theorem wMs_names : PDescs.namesOk (MDescs.ps wMs) ∧ PDescs.eopLast (MDescs.ps wMs) ∧ MDescs.lastMid wMs = false := by
  refine ⟨?_, ⟨rfl, rfl, rfl, trivial⟩, rfl⟩
  simp [PDescs.namesOk, MDescs.ps, wMs, MDesc.ofMinMaxMid, MDesc.plain, PDesc.name, Param.name, PDesc.ofObjConst, Obj.toConstParam,
    PDesc.ofMinMaxMidBytes, MMShape.leaf, MMLeaf.toParam, wSh, wSt, PDesc.ofValue, pu8, PDesc.ofObjValue, Obj.toParam]

/-- accepted: one byte (terminated by `00`), three bytes = MAX-LENGTH (NO terminator), a zero byte BEFORE MIN-LENGTH (no terminator
    there); the inner leaf is terminated by `FF` -/
example : [wMk (wB [5]) (wB [1, 2]), wMk (wB [1, 2, 3]) (wB [1, 2, 0, 4]), wMk (wB [0, 9]) (wB [0xFF, 0xFF])].map (fun p =>
      (p.wfAtoms && p.typedForP (MDescs.ps wMs) && p.acceptedByP (MDescs.ps wMs),
       (encodeMessage none (PDescs.toParams (MDescs.ps wMs)) p none true).toOption)) =
    [(true, some ([0x2E, 5, 0, 1, 2, 0xFF, 7, 0x99], 0)), (true, some ([0x2E, 1, 2, 3, 1, 2, 0, 4, 0xFF, 7, 0x99], 0)),
     (true, some ([0x2E, 0, 9, 0, 0xFF, 0xFF, 0xFF, 7, 0x99], 0))] := by decide +kernel
/-- rejected with `EncodeError`: the empty value, four bytes, an embedded terminator at a position ≥ MIN-LENGTH (outer and inner leaf),
    a string, an int, omission -/
example : [wMk (wB []) (wB [1, 2]), wMk (wB [1, 2, 3, 4]) (wB [1, 2]), wMk (wB [1, 0]) (wB [1, 2]), wMk (wB [1]) (wB [1, 2, 0xFF]),
      wMk (wB [1]) (wB [1]), wMk (.atom (.str [0x41])) (wB [1, 2]), wMk (.atom (.int 1)) (wB [1, 2]),
      .dict [("st", .dict [("hx", wB [1, 2]), ("n", .atom (.int 7))]), ("tail", .atom (.int 0x99))]].all (fun p =>
      p.wfAtoms && p.typedForP (MDescs.ps wMs) && p.acceptedByP (MDescs.ps wMs) == false &&
      decide (p.needFor (MDescs.ps wMs) ≤ modelFuel) &&
      errClass (encodeMessage none (PDescs.toParams (MDescs.ps wMs)) p none true) == some .encode) = true := by decide +kernel
/-- the theorem applies: the PDU of the first value decodes to its completion -/
example : ∃ cursor, decodeMessage none (PDescs.toParams (MDescs.ps wMs)) [0x2E, 5, 0, 1, 2, 0xFF, 7, 0x99] true =
    .ok (.dict (PDescs.complete (MDescs.ps wMs)
      [("mm", wB [5]), ("st", .dict [("hx", wB [1, 2]), ("n", .atom (.int 7))]), ("tail", .atom (.int 0x99))]), cursor) := by
  rcases C04_nested2b wMs wMs_described.1 wMs_described.2 wMs_names.1 wMs_names.2.1 wMs_names.2.2 (wMk (wB [5]) (wB [1, 2]))
    (by decide +kernel) none (by decide +kernel) (by decide +kernel) with ⟨e, he, _⟩ | ⟨kvs, pdu, w, hkvs, _, henc, hrt⟩
  · have : (encodeMessage none (PDescs.toParams (MDescs.ps wMs)) (wMk (wB [5]) (wB [1, 2])) none true).toOption = none := by rw [he]; rfl
    exact absurd this (by decide +kernel)
  · have h2 : (encodeMessage none (PDescs.toParams (MDescs.ps wMs)) (wMk (wB [5]) (wB [1, 2])) none true).toOption = some (pdu, w) := by
      rw [henc]; rfl
    have h4 : (encodeMessage none (PDescs.toParams (MDescs.ps wMs)) (wMk (wB [5]) (wB [1, 2])) none true).toOption
        = some ([0x2E, 5, 0, 1, 2, 0xFF, 7, 0x99], 0) := by decide +kernel
    rw [h2] at h4
    simp only [Option.some.injEq, Prod.mk.injEq] at h4
    obtain ⟨hp, hw⟩ := h4
    subst hp
    cases hkvs
    obtain ⟨cursor, hdec⟩ := hrt hw (fun h => by cases h)
    exact ⟨cursor, hdec⟩
/-- the decoder's result on the three accepted PDUs, concretely -/
example : [wMk (wB [5]) (wB [1, 2]), wMk (wB [1, 2, 3]) (wB [1, 2, 0, 4]), wMk (wB [0, 9]) (wB [0xFF, 0xFF])].all (fun p =>
    match encodeMessage none (PDescs.toParams (MDescs.ps wMs)) p none true with
    | .ok (pdu, _) => (match decodeMessage none (PDescs.toParams (MDescs.ps wMs)) pdu true with
        | .ok (v, cursor) => pvalEq v ((DDesc.struct (MDescs.ps wMs)).complete p) && cursor == pdu.length
        | .error _ => false)
    | .error _ => false) = true := by decide +kernel

end OdxVerif.Codec
