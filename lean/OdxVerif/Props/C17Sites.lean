import OdxVerif.Gen.CatchSites
/-! # C17 — table obligation: every catch site and every access to the strict flag is accounted for

    `OdxVerif.Gen.catchSites` is regenerated from the working tree of odxtools on every run of `./check C17`
    (harness/extract/catchsites.py: every `except` handler that can catch an OdxError-family exception and every
    access to `strict_mode` outside odxraise/odxassert/odxrequire). `accountedSites` is the hand-maintained list
    of the sites whose effect on the strict/lenient simulation has been examined (arguments, fixes and open
    findings: design_notes/C17.md and `ACCOUNTED` in harness/props/c17.py). A new handler, a handler that catches
    more, or a new flag access in odxtools makes the generated list differ and this theorem fail. -/
namespace OdxVerif.Codec

def accountedSites : List (String × String × String × String × Nat) := [
  ("cli/browse.py", "_validate_string_value", "except", "<bare>", 0),
  ("cli/main.py", "<module>", "except", "Exception", 0),
  ("cli/main.py", "start_cli", "flag-read", "odxtools.exceptions.strict_mode", 0),
  ("cli/main.py", "start_cli", "flag-write", "odxtools.exceptions.strict_mode", 0),
  ("cli/main.py", "start_cli", "flag-write", "odxtools.exceptions.strict_mode", 1),
  ("cli/snoop.py", "handle_telegram", "except", "DecodeError", 0),
  ("cli/snoop.py", "handle_telegram", "except", "DecodeError", 1),
  ("diaglayers/diaglayer.py", "DiagLayer._decode", "except", "DecodeError", 0),
  ("diaglayers/diaglayer.py", "DiagLayer._decode", "except", "DecodeError", 1),
  ("diagservice.py", "DiagService.decode_message", "except", "DecodeError", 0),
  ("dynamicendmarkerfield.py", "DynamicEndmarkerField.decode_from_pdu", "except", "DecodeError", 0),
  ("odxtypes.py", "parse_int", "except", "Exception", 0),
  ("variantmatcher.py", "VariantMatcher._ident_response_matches", "except", "DecodeError", 0)
]

/-- the sites found in the source are exactly the accounted ones -/
theorem C17_sites_accounted : OdxVerif.Gen.catchSites = accountedSites := by decide

end OdxVerif.Codec
