import OdxVerif.Props.C02
import OdxVerif.Proofs.FlatMsg
import OdxVerif.Proofs.ComposeMsg
import OdxVerif.Proofs.MuxTier
import OdxVerif.Proofs.MuxDefault
/-! # C01 — encoding a message and decoding it returns the values that were encoded
    Proved tier: **atomic objects** inside an arbitrary surrounding message (the base case of the
    round-trip argument, for every bit length ≥ 1, bit position, byte order and `A_INT32` encoding),
    plus the *frame* property that lets a later object's encoding not disturb an earlier one's decoding
    as long as their bits are disjoint. The composite walk (`Model/Codec.lean`, `Model/Decode.lean`) is
    executable and tied by correspondence; its round-trip theorem is not yet proved: the full statement is
    kept below as a comment and the proved part is named `_partial`. -/
namespace OdxVerif.Codec
open OdxVerif.Bits OdxVerif.OdxM

/- Full statement (not yet a theorem):
   ∀ ps v trig pdu, wf ps → canon ps v → encodeMessage ps v trig true = .ok (pdu, 0) →
     decodeMessage ps pdu true = .ok (complete ps v trig, pdu.length)                                   -/

/-- **C01, atomic tier.** -/
theorem C01_roundtrip_partial (enc : Option Enc) (hk : int32Known enc = true) (bl : Nat) (hbl : 1 ≤ bl) (hbl64 : bl ≤ 64) (v : Int)
    (hr : Spec.representable enc bl v) (hl : Bool) (s : EncState) (hmsg : AllBytes s.msg) :
    ∃ s', emplaceAtomic (.int v) bl .int32 enc hl none s true = .ok ((), s') ∧
      AllBytes s'.msg ∧
      extractAtomic bl .int32 enc hl { msg := s'.msg, cursorByte := s.cursorByte, cursorBit := s.cursorBit } true =
        .ok (.int v, { msg := s'.msg, cursorByte := s'.cursorByte, cursorBit := 0 }) :=
  atomic_int32_roundtrip enc hk bl hbl hbl64 v hr hl s hmsg

/-- **Frame.** What the decoder reads for an object at `(pos, k, bp, bl)` depends only on that object's
    own `bl` bits: two messages that agree on them give the same raw value. Hence a later write that
    touches none of these bits (no overlap warning) cannot change an earlier object's decoded value. -/
theorem C01_frame (m1 m2 : Bytes) (h1 : AllBytes m1) (h2 : AllBytes m2) (pos bl bp : Nat) (hl : Bool)
    (hl1 : pos + (bl + bp + 7) / 8 ≤ m1.length) (hl2 : pos + (bl + bp + 7) / 8 ≤ m2.length)
    (hagree : ∀ j, j < bl → getBit m1 (absBit pos ((bl + bp + 7) / 8) hl (j + bp))
                           = getBit m2 (absBit pos ((bl + bp + 7) / 8) hl (j + bp))) :
    readNum m1 pos ((bl + bp + 7) / 8) hl / 2 ^ bp % 2 ^ bl = readNum m2 pos ((bl + bp + 7) / 8) hl / 2 ^ bp % 2 ^ bl := by
  apply Nat.eq_of_testBit_eq
  intro j
  rw [Nat.testBit_mod_two_pow, Nat.testBit_mod_two_pow, Nat.testBit_div_two_pow, Nat.testBit_div_two_pow,
    testBit_readNum _ h1 _ _ _ _ hl1, testBit_readNum _ h2 _ _ _ _ hl2]
  by_cases hj : j < bl
  · have : j + bp < 8 * ((bl + bp + 7) / 8) := by omega
    simp [hj, this, hagree j hj]
  · simp [hj]

/-- **C01, flat composite tier** — `Request.encode` then `Request.decode` at the API level of the model.
    For every request/response/structure whose parameters are (at most 4000) VALUE parameters over `A_INT32`
    `A_UINT32`, `A_FLOAT64`, `A_FLOAT32` (numbers that are exactly binary32 normal numbers, zeros, infinities), `A_BYTEFIELD`,
    `A_ASCIISTRING` (ISO-8859-1), `A_UTF8STRING` (UTF-8) or `A_UNICODE2STRING` (UTF-16, high-low byte order) — and `A_UINT32` in BCD-P / BCD-UP — standard-length DOPs with the identical compu method — *any* encodings
    (2C/1C/SM for signed), bit lengths 1–64 (integers), 64 / 32 (floats), whole bytes (byte fields, strings), bit
    positions, byte orders, explicit BYTE-POSITIONs in any order or none — and every assignment of
    representable values (`values` may list them in any order; no unknown names): if the encoder returns a PDU
    without an overlap warning, decoding that PDU yields exactly the assigned values, parameter by parameter.
    Missing relative to the full statement: the other parameter kinds, base types, diag-coded types, compu
    methods, nested structures and fields (executable model + correspondence only). -/
theorem C01_roundtrip_flat (ovs : List (Obj × IVal)) (hlen : ovs.length ≤ 4000) (values : List (String × PVal))
    (trig : Option Bytes)
    (hok : ∀ ov ∈ ovs, ov.1.ok ∧ ov.1.inRange ov.2)
    (hlook : ∀ ov ∈ ovs, lookup ov.1.name values = some (.atom ov.2))
    (hknown : values.any (fun kv => !((ovs.map fun ov => ov.1.toParam).any fun p => p.name == kv.1)) = false)
    (pdu : Bytes)
    (henc : encodeMessage none (ovs.map fun ov => ov.1.toParam) (.dict values) trig true = .ok (pdu, 0)) :
    ∃ cursor, decodeMessage none (ovs.map fun ov => ov.1.toParam) pdu true =
      .ok (.dict (ovs.map fun ov => (ov.1.name, PVal.atom ov.2)), cursor) :=
  flat_roundtrip ovs hlen values trig hok hlook hknown pdu henc

/-! non-vacuity of `C01_roundtrip_flat`: thirteen parameters, the second explicitly positioned *behind* the third,
    sub-byte objects sharing a byte, low-high byte order, an unsigned object, values given in a different order -/
def exObjs : List (Obj × IVal) :=
  [(⟨"a", none, some 4, none, true, 4, .int32⟩, .int (-3)), (⟨"b", some 3, none, some .sm, false, 16, .int32⟩, .int (-300)),
   (⟨"c", some 0, some 0, some .onec, true, 4, .int32⟩, .int 5), (⟨"d", some 1, none, none, false, 12, .int32⟩, .int 1000),
   (⟨"u", some 5, some 1, none, false, 10, .uint32⟩, .int 1023),
   (⟨"f", none, none, none, false, 64, .float64⟩, .flt 0x3ff8000000000000),          -- 1.5, low-high byte order
   (⟨"raw", none, none, none, true, 24, .bytes⟩, .bytes [0xde, 0xad, 0x00]),
   (⟨"vin", none, none, some .iso1, true, 16, .ascii⟩, .str [0x57, 0xe9]),                    -- "Wé"
   (⟨"g", none, none, none, false, 32, .float32⟩, .flt 0xc004000000000000),        -- -2.5 (binary32 c0200000), low-high byte order
   (⟨"t", none, none, some .utf8, true, 72, .utf8⟩, .str [0xe9, 0x20ac, 0x1f600]),           -- "é€😀": 2 + 3 + 4 bytes of UTF-8
   (⟨"w", none, none, none, true, 48, .unicode2⟩, .str [0x20ac, 0x1f600]),                   -- "€😀": one unit + a surrogate pair
   (⟨"n", none, none, some .bcdp, true, 16, .bcd⟩, .int 1234),                                -- packed BCD: 12 34
   (⟨"m", none, none, some .bcdup, false, 16, .bcd⟩, .int 57)]                                -- unpacked BCD 05 07, low-high byte order
def exValues : List (String × PVal) :=
  [("d", .atom (.int 1000)), ("u", .atom (.int 1023)), ("a", .atom (.int (-3))), ("c", .atom (.int 5)), ("b", .atom (.int (-300))),
   ("t", .atom (.str [0xe9, 0x20ac, 0x1f600])), ("w", .atom (.str [0x20ac, 0x1f600])), ("m", .atom (.int 57)), ("n", .atom (.int 1234)),
   ("raw", .atom (.bytes [0xde, 0xad, 0x00])), ("f", .atom (.flt 0x3ff8000000000000)), ("vin", .atom (.str [0x57, 0xe9])),
   ("g", .atom (.flt 0xc004000000000000))]
example : (encodeMessage none (exObjs.map fun ov => ov.1.toParam) (.dict exValues) none true).toOption
    = some ([0xd5, 0xe8, 0x03, 0x2c, 0x81, 0xfe, 0x07, 0, 0, 0, 0, 0, 0, 0xf8, 0x3f, 0xde, 0xad, 0x00, 0x57, 0xe9,
             0x00, 0x00, 0x20, 0xc0, 0xc3, 0xa9, 0xe2, 0x82, 0xac, 0xf0, 0x9f, 0x98, 0x80,
             0x20, 0xac, 0xd8, 0x3d, 0xde, 0x00, 0x12, 0x34, 0x07, 0x05], 0) := by decide +kernel
example : ∀ ov ∈ exObjs, ov.1.ok ∧ ov.1.inRange ov.2 := by
  intro ov h
  simp only [exObjs, List.mem_cons, List.mem_nil_iff, or_false] at h
  rcases h with rfl | rfl | rfl | rfl | rfl | rfl | rfl | rfl | rfl | rfl | rfl | rfl | rfl <;>
    simp [Obj.ok, Obj.encOk, Obj.sizeOk, Obj.inRange, Obj.bcdShift, int32Known, int32InRange, AllBytes]
  · decide
  · exact ⟨[0xc3, 0xa9, 0xe2, 0x82, 0xac, 0xf0, 0x9f, 0x98, 0x80], by decide, by decide⟩
  · exact ⟨[0x20, 0xac, 0xd8, 0x3d, 0xde, 0x00], by decide, by decide⟩
  · decide
  · decide
example : ∀ ov ∈ exObjs, lookup ov.1.name exValues = some (.atom ov.2) := by
  intro ov h
  simp only [exObjs, List.mem_cons, List.mem_nil_iff, or_false] at h
  rcases h with rfl | rfl | rfl | rfl | rfl | rfl | rfl | rfl | rfl | rfl | rfl | rfl | rfl <;> simp [lookup, exValues]

/-- **C01, nested-structure tier.** Requests/responses/structures built from `A_INT32` / `A_UINT32` / `A_FLOAT64` / `A_FLOAT32` / `A_BYTEFIELD` / `A_ASCIISTRING` / `A_UTF8STRING` / `A_UNICODE2STRING` / BCD `A_UINT32` VALUE parameters,
    CODED-CONST parameters over the same diag-coded types (service and data identifiers) and
    arbitrarily deeply nested STRUCTURE-valued parameters, each positioned explicitly (BYTE-POSITION relative to
    the enclosing structure's first byte) or implicitly (behind its predecessor); sibling short names distinct.
    `(Trees.pair ts).val` is the value tree (nested dictionaries). If the strict encoder returns a PDU with no
    overlap warning, the strict decoder returns exactly that value tree. (The size bound is the model's fuel;
    it admits e.g. 1000 parameters nested 100 deep.) Proof: compositional — `Good` encoder/decoder pairs
    (`Proofs/Compose.lean`) closed under sequencing, re-positioning and change of origin. -/
theorem C01_roundtrip_struct (ts : List Tree) (hneed : Trees.need ts + 2 ≤ modelFuel) (hok : Trees.okAll ts)
    (hn : Trees.namesOk ts) (trig : Option Bytes) (pdu : Bytes)
    (henc : encodeMessage none (Trees.toParams ts) (.dict (Trees.pair ts).val) trig true = .ok (pdu, 0)) :
    ∃ cursor, decodeMessage none (Trees.toParams ts) pdu true = .ok (.dict (Trees.pair ts).val, cursor) :=
  tree_roundtrip_msg ts hneed hok hn trig pdu henc

/-! non-vacuity: a UDS-like request — CODED-CONST service id and data identifier, then a structure at offset 4, containing a sub-byte object and a nested structure
    positioned explicitly inside it; the last top-level parameter sits *before* the structure -/
def exTrees : List Tree :=
  [.const ⟨"sid", none, none, none, true, 8, .uint32⟩ (.int 0x22),
   .const ⟨"did", none, none, none, true, 16, .uint32⟩ (.int 0xf190),
   .struct "s" (some 4) [.int ⟨"a", none, some 2, some .sm, true, 5, .int32⟩ (.int (-9)),
                          .struct "inner" (some 3) [.int ⟨"x", none, none, none, false, 16, .int32⟩ (.int (-2))],
                          .int ⟨"b", some 1, none, some .onec, true, 16, .int32⟩ (.int (-256))],
   .int ⟨"y", some 3, none, none, true, 8, .int32⟩ (.int 127)]
example : (encodeMessage none (Trees.toParams exTrees) (.dict (Trees.pair exTrees).val) none true).toOption
    = some ([0x22, 0xf1, 0x90, 0x7f, 0x64, 0xfe, 0xff, 0xfe, 0xff], 0) := by decide +kernel
example : Trees.need exTrees + 2 ≤ modelFuel := by decide
/-- the flattening of the example (used by `C02_bit_exact_struct`): absolute byte positions of the leaves -/
example : (Trees.flat exTrees 0 0).1.map (fun ov => (ov.1.name, ov.1.bytePos)) =
    [("sid", some 0), ("did", some 1), ("a", some 4), ("x", some 7), ("b", some 5), ("y", some 3)] := by decide

example : int32Known (some .sm) = true ∧ Spec.representable (some .sm) 9 (-255) := by
  simp [int32Known, Spec.representable]

/-- **C01, multiplexer tier.** Requests/responses whose top-level parameters are tier-2 parameters (VALUE / CODED-CONST
    leaves over the five leaf kinds, arbitrarily nested structures) or MULTIPLEXERs: a switch key (an `A_INT32` /
    `A_UINT32` object at the key's byte/bit position), any list of CASEs (`MuxCaseD` of the model; the ones not selected
    are arbitrary), an optional DEFAULT-CASE, and a selected case — a regular CASE or the DEFAULT-CASE — whose structure
    is a tier-2 structure. `MuxLeaf.ok` asks that encoder and decoder select the same case (`encSel`, `decSel`):
    `MuxLeaf.sel_of_case` gives that for a CASE that is the first of its name and the first claiming its lower limit
    (with overlapping cases the decoder would pick another one), `MuxLeaf.sel_of_default` gives it for the DEFAULT-CASE
    with **no** condition on the cases (`C01_mux_default_key`). The value is `(case name, content)`. If strict
    `Request.encode` returns a PDU without an overlap warning, strict `Request.decode` returns exactly the value tree. -/
theorem C01_roundtrip_mux (is : List Item) (hneed : Items.need is + 2 ≤ modelFuel) (hok : Items.okAll is)
    (hn : Items.namesOk is) (trig : Option Bytes) (pdu : Bytes)
    (henc : encodeMessage none (Items.toParams is) (.dict (Items.pair is).val) trig true = .ok (pdu, 0)) :
    ∃ cursor, decodeMessage none (Items.toParams is) pdu true = .ok (.dict (Items.pair is).val, cursor) :=
  items_roundtrip_msg is hneed hok hn trig pdu henc

/-! non-vacuity: [sid, MUX m at byte 1 {key: 4 bits at bit 4 of the mux's first byte; cases hi 8..15 (declared first,
    no structure), lo 2..3 (selected by name: structure {a: 8 bit, b: 16 bit low-high}), z 0..1}, MUX d selecting the
    DEFAULT-CASE of unsorted cases {16..31, 0..15} → key 32, y] -/
def exKids : List Tree :=
  [.int ⟨"a", none, none, none, true, 8, .uint32⟩ (.int 7), .int ⟨"b", none, none, some .sm, false, 16, .int32⟩ (.int (-2))]
def exMux : MuxLeaf :=
  { name := "m", bytePos := none, muxBp := 1, swBp := 0, key := ⟨"", none, some 4, none, true, 4, .uint32⟩,
    cases := [.mk "hi" 8 15 none, .mk "lo" 2 3 (some (.struct none (Trees.toParams exKids))), .mk "z" 0 1 none],
    dflt := some ("other", none), caseName := "lo", lo := 2, kids := exKids }
def exMuxD : MuxLeaf :=
  { name := "d", bytePos := none, muxBp := 1, swBp := 0, key := ⟨"", none, none, none, true, 8, .uint32⟩,
    cases := [.mk "high" 16 31 none, .mk "low" 0 15 none],
    dflt := some ("rest", some (.struct none (Trees.toParams [.int ⟨"q", none, none, none, true, 8, .uint32⟩ (.int 9)]))),
    caseName := "rest", lo := 32, kids := [.int ⟨"q", none, none, none, true, 8, .uint32⟩ (.int 9)] }
def exItems : List Item :=
  [.tree (.const ⟨"sid", none, none, none, true, 8, .uint32⟩ (.int 0x22)), .mux exMux, .mux exMuxD,
   .tree (.int ⟨"y", none, none, none, true, 8, .uint32⟩ (.int 0xA5))]
example : (encodeMessage none (Items.toParams exItems) (.dict (Items.pair exItems).val) none true).toOption
    = some ([0x22, 0x20, 0x07, 0x02, 0x80, 0x20, 0x09, 0xA5], 0) := by decide +kernel
example : (Items.pair exItems).val =
    [("sid", .atom (.int 0x22)), ("m", .pair "lo" (.dict [("a", .atom (.int 7)), ("b", .atom (.int (-2)))])),
     ("d", .pair "rest" (.dict [("q", .atom (.int 9))])), ("y", .atom (.int 0xA5))] := rfl
example : Items.need exItems + 2 ≤ modelFuel := by decide
example : exMux.encSel ∧ exMux.decSel :=
  MuxLeaf.sel_of_case exMux [.mk "hi" 8 15 none] [.mk "z" 0 1 none] 3 rfl (by decide) (by decide) (by decide)
example : exMuxD.encSel ∧ exMuxD.decSel := MuxLeaf.sel_of_default exMuxD rfl (by decide) (by decide)

/-- **The switch key written for a DEFAULT-CASE selects the DEFAULT-CASE again** — for every list of CASEs, in any
    declaration order, overlapping or not: `defaultCaseKey` (the model of `Multiplexer._get_default_case_key`: sort the
    limits, scan) is non-negative and lies in no case's key range, so the decoder's look-up falls through to the
    default case. (Three independent seeded changes removed the `sorted()` there.) -/
theorem C01_mux_default_key (cases : List MuxCaseD) :
    0 ≤ defaultCaseKey cases ∧ caseOfKey (defaultCaseKey cases) cases = none ∧
    ∀ c ∈ cases, ¬ (c.lower ≤ defaultCaseKey cases ∧ defaultCaseKey cases ≤ c.upper) :=
  ⟨defaultCaseKey_nonneg cases, caseOfKey_default cases, defaultCaseKey_unclaimed cases⟩

example : defaultCaseKey [.mk "high" 16 31 none, .mk "b" 1 2 none, .mk "low" 0 15 none, .mk "x" 32 32 none] = 33 := by decide

end OdxVerif.Codec
