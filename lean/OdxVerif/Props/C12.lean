import OdxVerif.Proofs.IsoTp
/-! # C12 — ISO-TP reassembly returns exactly the transmitted telegrams
    Property theorems only; lemmas live in `Proofs/IsoTp.lean`. -/
namespace OdxVerif.IsoTp

/-- every single transfer (1…4095 bytes, any frame size ≥ 8, any padding), from any slot state -/
theorem C12_single (x : Xfer) (hx : x.ok) (s : Slot) :
    telegrams (run s x.frames).2 = [x.p] :=
  (run_segment x.dl hx.1 x.pad x.p s hx.2.1 hx.2.2).1

/-- any sequence of transfers on one ID: exactly the payloads, in order, each once -/
theorem C12_sequence (xs : List Xfer) (hx : ∀ x ∈ xs, x.ok) (s : Slot) :
    telegrams (run s (xs.flatMap Xfer.frames)).2 = xs.map (·.p) := by
  induction xs generalizing s with
  | nil => simp [run, telegrams]
  | cons x xs ih =>
    simp only [List.flatMap_cons, run_append, telegrams_append, List.map_cons]
    rw [C12_single x (hx x (List.mem_cons_self ..)) s, ih (fun y hy => hx y (List.mem_cons_of_mem _ hy))]
    rfl

/-- flow-control frames on the same ID, anywhere in the stream, change nothing -/
theorem C12_fc_noop (s : Slot) (fs : List Bytes) :
    telegrams (run s fs).2 = telegrams (run s (fs.filter fun f => !isFlowControl f)).2 :=
  (run_filter_flowControl s fs).2.symm

/-- frames of IDs the state machine does not listen to yield nothing -/
theorem C12_unknown_id_noop (ids : List Nat) (i : Nat) (fs : List (Nat × Bytes))
    (h : slotIndex ids i = none) : telegramsOf i (feedAll (St.init ids) fs).2 = [] := by
  simp [telegramsOf, feedAll_unknown i fs (St.init ids) h, telegrams]

/-- **Main statement.** Any interleaving `fs` of the frames of any number of CAN IDs, with
    flow-control frames and frames of unrelated IDs mixed in: if the non-flow-control frames carrying
    ID `i` are, in order, the segmentations of the transfers `xs`, then the telegrams reported for
    `i` are exactly the payloads of `xs`, in order, each once. No bound on IDs, lengths or frames. -/
theorem C12_interleaved (ids : List Nat) (i : Nat) (hi : i ∈ ids) (fs : List (Nat × Bytes))
    (xs : List Xfer) (hx : ∀ x ∈ xs, x.ok)
    (hfs : (((fs.filter fun f => f.1 = i).map (·.2)).filter fun f => !isFlowControl f)
              = xs.flatMap Xfer.frames) :
    telegramsOf i (feedAll (St.init ids) fs).2 = xs.map (·.p) := by
  have hk : ∃ k, slotIndex ids i = some k := by
    induction ids with
    | nil => cases hi
    | cons a as ih =>
      simp only [slotIndex]
      split
      · exact ⟨0, rfl⟩
      · rename_i hne
        have : i ∈ as := by
          cases hi with
          | head => exact absurd rfl hne
          | tail _ h => exact h
        obtain ⟨k, hk⟩ := ih this
        exact ⟨k + 1, by simp [hk]⟩
  obtain ⟨k, hk⟩ := hk
  have hlt : k < (St.init ids).slots.length := by
    simp [St.init]; exact slotIndex_lt ids i k hk
  have hp := (feedAll_project i k fs (St.init ids) hk hlt).1
  unfold telegramsOf
  rw [hp, C12_fc_noop, hfs]
  exact C12_sequence xs hx _

/-- the active decoder answers a first frame with exactly one clear-to-send flow-control frame
    (`30 FF 00` + padding), whatever its bookkeeping state -/
theorem C12_active_cts (s : Slot) (a : ActSlot) (hi b1 : Nat) (pl : Bytes) (padSize padVal : Nat)
    (hhi : hi < 16) :
    (actOnAll padSize padVal a (step s ((16 + hi) :: b1 :: pl)).2).2 = [fcFrame 0xFF padSize padVal] := by
  have a1 : (16 + hi) / 16 = 1 := by omega
  simp [step, a1, actOnAll, actOn]

/-! non-vacuity: a 20-byte telegram over classic CAN wraps nothing but uses FF + 2 CF, and the
    hypotheses of `C12_interleaved` are met by a concrete two-ID interleaving with a flow-control
    frame and an unrelated ID in between -/
example : (Xfer.mk 8 [0xAA] (List.range 20)).ok := by simp [Xfer.ok]
example :
    let x : Xfer := ⟨8, [0xAA], List.range 20⟩
    let y : Xfer := ⟨8, [], [1, 2, 3]⟩
    let fs : List (Nat × Bytes) :=
      [(1, x.frames[0]!), (2, y.frames[0]!), (1, [0x30, 0, 0]), (9, [1, 2]), (1, x.frames[1]!), (1, x.frames[2]!)]
    telegramsOf 1 (feedAll (St.init [1, 2]) fs).2 = [x.p] ∧
    telegramsOf 2 (feedAll (St.init [1, 2]) fs).2 = [y.p] := by decide

end OdxVerif.IsoTp
