import OdxVerif.Proofs.Variant
/-! # C14 — variant identification selects the first candidate whose pattern matches
    Property theorems only; lemmas live in `Proofs/Variant.lean`, the model in `Model/Variant.lean`, the
    specification (`identify`, `variantMatches`, `paramMatches`, `IsIdentRequest`) in `Spec/Variant.lean`.

    All statements are for **every** candidate list (any number of variants, patterns, parameters, any sharing
    of identification services, any SNREF/SNPATHREF target, any value trees), **every** deterministic ECU
    `ecu : Req → Bytes` (a request is the pair the loop yields: addressing mode and bytes; the empty byte
    string is "no answer"), strict mode on or off, cache on or off.  Exceptions are outcomes of the model
    (`Run.result = .error _`): a theorem about the reported variant has the hypothesis that the loop
    completed, and `C14_total` says when it always does.  Not modelled: float leaves (tolerance comparison),
    non-ASCII case mapping in `str.upper()`. -/
namespace OdxVerif.Variant
open Spec

/-- **First match.** When the request loop completes, the matcher reports exactly the first candidate — in
    list order — that has a pattern all of whose parameters match what the ECU answers, `has_match()` says
    whether there is one, and `matching_variant` is `None` if there is none. -/
theorem C14_first_match (c : Config) (cands : List Variant) (ecu : Req → Bytes) (hv : AllVariants cands)
    (hok : (runMatcher c cands ecu).result = .ok ()) :
    (runMatcher c cands ecu).final.matching = identify ecu cands ∧
    hasMatch (runMatcher c cands ecu).final = .ok (identify ecu cands).isSome := by
  have ho := runMatcher_outcome c cands ecu
  cases he : evalVariants c.strict ecu 0 cands with
  | error e => rw [he] at ho; rw [ho.1] at hok; cases hok
  | ok m =>
    have hs := evalVariants_spec c ecu cands 0 m he
    rw [takeWhile_all _ _ hv] at hs
    simp only [Nat.add_zero, Option.map_id'] at hs
    rw [he] at ho
    cases m with
    | none => rw [← hs]; simp [ho.2.2, hasMatch, ho.2.1]
    | some i => rw [← hs]; simp [ho.2.2, hasMatch, ho.2.1]

/-- the same without the hypothesis on the candidates' types: something that is neither an `EcuVariant` nor a
    `BaseVariant` ends the loop (non-strict mode; strict mode raises), so the candidates before it count -/
theorem C14_first_match_general (c : Config) (cands : List Variant) (ecu : Req → Bytes)
    (hok : (runMatcher c cands ecu).result = .ok ()) :
    (runMatcher c cands ecu).final.matching
      = identify ecu (cands.takeWhile fun v => v.patterns?.isSome) := by
  have ho := runMatcher_outcome c cands ecu
  cases he : evalVariants c.strict ecu 0 cands with
  | error e => rw [he] at ho; rw [ho.1] at hok; cases hok
  | ok m =>
    have hs := evalVariants_spec c ecu cands 0 m he
    simp only [Nat.add_zero, Option.map_id'] at hs
    rw [he] at ho
    cases m with
    | none => rw [← hs]; exact ho.2.2
    | some i => rw [← hs]; exact ho.2.2

/-- what "first" means: `identify` returns position `i` iff candidate `i` matches and no earlier one does;
    it returns nothing iff no candidate matches -/
theorem C14_identify_is_first (ecu : Req → Bytes) (cands : List Variant) (i : Nat) :
    identify ecu cands = some i ↔
      ∃ h : i < cands.length, variantMatches ecu cands[i] = true ∧
        ∀ j (hj : j < i), ¬ variantMatches ecu cands[j] = true := by
  unfold identify
  exact List.findIdx?_eq_some_iff_getElem

theorem C14_identify_none (ecu : Req → Bytes) (cands : List Variant) :
    identify ecu cands = none ↔ ∀ v ∈ cands, variantMatches ecu v = false := by
  unfold identify
  exact List.findIdx?_eq_none_iff

/-- **No match.** If no candidate matches, a completed loop reports "no match". -/
theorem C14_no_match (c : Config) (cands : List Variant) (ecu : Req → Bytes) (hv : AllVariants cands)
    (hok : (runMatcher c cands ecu).result = .ok ()) (hn : ∀ v ∈ cands, variantMatches ecu v = false) :
    (runMatcher c cands ecu).final.matching = none ∧ (runMatcher c cands ecu).final.state = .noMatch ∧
    hasMatch (runMatcher c cands ecu).final = .ok false := by
  have h := C14_first_match c cands ecu hv hok
  rw [(C14_identify_none ecu cands).mpr hn] at h
  refine ⟨h.1, ?_, h.2⟩
  have h2 := h.2
  unfold hasMatch at h2
  cases hst : (runMatcher c cands ecu).final.state <;> simp [hst] at h2
  rfl

/-- **The loop completes.** In non-strict mode, for candidates whose identification services exist and can be
    encoded and whose responses either decode or raise `DecodeError`, the loop never raises — whatever the
    ECU answers (including nothing, `[]`), whatever the paths point to. -/
theorem C14_total (c : Config) (hc : c.strict = false) (cands : List Variant) (ht : Tame cands)
    (ecu : Req → Bytes) : (runMatcher c cands ecu).result = .ok () := by
  have ho := runMatcher_outcome c cands ecu
  obtain ⟨m, hm⟩ := evalVariants_total c hc ecu cands ht 0
  rw [hm] at ho
  cases m with
  | none => exact ho.1
  | some i => exact ho.1

/-- **Cache irrelevance.** With the same strict-mode setting, the matcher with the response cache and the one
    without end the same way (completion or the same exception class), in the same state, with the same
    matching variant. -/
theorem C14_cache_irrelevant (strict : Bool) (cands : List Variant) (ecu : Req → Bytes) :
    (runMatcher ⟨strict, true⟩ cands ecu).result = (runMatcher ⟨strict, false⟩ cands ecu).result ∧
    (runMatcher ⟨strict, true⟩ cands ecu).final.state = (runMatcher ⟨strict, false⟩ cands ecu).final.state ∧
    (runMatcher ⟨strict, true⟩ cands ecu).final.matching = (runMatcher ⟨strict, false⟩ cands ecu).final.matching :=
  (runMatcher_outcome ⟨strict, true⟩ cands ecu).unique (runMatcher_outcome ⟨strict, false⟩ cands ecu)

/-- **Only identification requests.** Every request the loop yields is the encoded request of the
    identification service of a matching parameter of a pattern of one of the candidates, with that
    parameter's addressing mode. -/
theorem C14_only_ident_requests (c : Config) (cands : List Variant) (ecu : Req → Bytes) :
    ∀ r ∈ (runMatcher c cands ecu).trace, IsIdentRequest cands r :=
  (requestLoop_asks c cands {}).run_trace ecu

/-- the same for an arbitrary caller (any answers, forgotten `evaluate` calls, abandoned loops) and any
    matcher state the loop is started in -/
theorem C14_only_ident_requests_any_caller (c : Config) (cands : List Variant) (s : MState)
    (script : List (Option Bytes)) :
    ∀ r ∈ ((requestLoop c cands s).runScript script).trace, IsIdentRequest cands r :=
  (requestLoop_asks c cands s).runScript_trace script

/-- **No repeats.** With the cache, no request (addressing mode, bytes) is yielded twice. -/
theorem C14_no_repeat (strict : Bool) (cands : List Variant) (ecu : Req → Bytes) :
    (runMatcher ⟨strict, true⟩ cands ecu).trace.Nodup :=
  (runMatcher_sim ⟨strict, true⟩ cands ecu).nodup rfl

/-- with the cache, the answers to the yielded requests are cached afterwards, and they are the ECU's -/
theorem C14_cache_content (strict : Bool) (cands : List Variant) (ecu : Req → Bytes) :
    ∀ r ∈ (runMatcher ⟨strict, true⟩ cands ecu).trace,
      cacheGet (runMatcher ⟨strict, true⟩ cands ecu).final.cache r = some (ecu r) := by
  intro r hr
  have hs := runMatcher_sim ⟨strict, true⟩ cands ecu
  have h1 := (hs.fresh rfl r hr).2
  cases hg : cacheGet (runMatcher ⟨strict, true⟩ cands ecu).final.cache r with
  | none => rw [hg] at h1; cases h1
  | some v => rw [hs.ok r v hg]

/-- **An exception leaves the matcher pending**: `has_match()` raises `RuntimeError`, `matching_variant` is `None`. -/
theorem C14_error_leaves_pending (c : Config) (cands : List Variant) (ecu : Req → Bytes) (e : Err)
    (h : (runMatcher c cands ecu).result = .error e) :
    (runMatcher c cands ecu).final.state = .pending ∧ (runMatcher c cands ecu).final.matching = none ∧
    hasMatch (runMatcher c cands ecu).final = .error .runtime := by
  have ho := runMatcher_outcome c cands ecu
  cases he : evalVariants c.strict ecu 0 cands with
  | error e' => rw [he] at ho; exact ⟨ho.2.1, ho.2.2, by simp [hasMatch, ho.2.1]⟩
  | ok m => rw [he] at ho; cases m <;> (rw [ho.1] at h; cases h)

/-- **Idempotence.** Running the request loop on a matcher that is not pending yields nothing and changes nothing. -/
theorem C14_rerun_idempotent (c : Config) (cands : List Variant) (s : MState) (h : s.state ≠ .pending) :
    requestLoop c cands s = .ret () s := by
  simp [requestLoop, h]

/-- strict mode only adds exceptions: if both the strict and the non-strict loop complete they report the same variant -/
theorem C14_strict_mode_irrelevant (useCache : Bool) (cands : List Variant) (ecu : Req → Bytes)
    (h1 : (runMatcher ⟨true, useCache⟩ cands ecu).result = .ok ())
    (h2 : (runMatcher ⟨false, useCache⟩ cands ecu).result = .ok ()) :
    (runMatcher ⟨true, useCache⟩ cands ecu).final.matching = (runMatcher ⟨false, useCache⟩ cands ecu).final.matching := by
  rw [C14_first_match_general _ cands ecu h1, C14_first_match_general _ cands ecu h2]

/-! ## non-vacuity: concrete instances (also the witnesses of the two defects of the pinned commit) -/
namespace Ex

/-- a service whose single positive response decodes `table`'s entries to `{"id": <text>}` and nothing else -/
def svc (name : Str) (req : Bytes) (table : List (Bytes × Str)) : Service :=
  ⟨name, .ok req, fun r => match table.lookup r with
    | some t => [.val (.dict [([105, 100], .str t)])]
    | none => [.decodeError]⟩

def mp (svcName : Str) (expected : Str) (raw : Option (Option Bool)) : MParam :=
  ⟨expected, svcName, some [105, 100], none, raw⟩

def s1 : Service := svc [1] [0x22, 1] [([0x62, 1], [97]), ([0x62, 2], [98])]
def s2 : Service := svc [2] [0x22, 2] [([0x62, 1], [97]), ([0x62, 2], [98])]

/-- two ECU variants; the first asks service 1 for "a", the second has two patterns -/
def cands1 : List Variant :=
  [⟨.ecu [[mp [1] [97] none]], [s1, s2]⟩,
   ⟨.ecu [[mp [1] [98] none, mp [2] [97] none], [mp [2] [98] none]], [s1, s2]⟩]

/-- an ECU that does not answer service 1 at all and answers "b" to service 2 -/
def ecu1 : Req → Bytes := fun r => if r.2 = [0x22, 2] then [0x62, 2] else []

/-- hypotheses of `C14_first_match` hold, the second variant is reported (through its second pattern),
    although the first identification request got no answer (defect 1 of the pinned commit: `RuntimeError`) -/
example : AllVariants cands1 ∧ (runMatcher ⟨true, true⟩ cands1 ecu1).result = .ok () ∧
    (runMatcher ⟨true, true⟩ cands1 ecu1).final.matching = some 1 ∧ identify ecu1 cands1 = some 1 ∧
    (runMatcher ⟨true, true⟩ cands1 ecu1).trace = [(true, [0x22, 1]), (true, [0x22, 2])] ∧
    (runMatcher ⟨true, false⟩ cands1 ecu1).trace = [(true, [0x22, 1]), (true, [0x22, 1]), (true, [0x22, 2])] := by
  refine ⟨by unfold AllVariants; decide, by decide⟩

/-- no candidate matches an ECU that never answers: hypotheses of `C14_no_match` -/
example : (∀ v ∈ cands1, variantMatches (fun _ => []) v = false) ∧
    (runMatcher ⟨true, true⟩ cands1 (fun _ => [])).result = .ok () ∧
    hasMatch (runMatcher ⟨true, true⟩ cands1 (fun _ => [])).final = .ok false := by
  decide

/-- a base variant whose pattern asks the *same* service physically for "a" and functionally for "b" -/
def cands2 : List Variant :=
  [⟨.base none, [s1]⟩, ⟨.base (some [mp [1] [97] (some (some true)), mp [1] [98] (some (some false))]), [s1]⟩]

/-- an ECU that answers differently to physical and functional requests -/
def ecu2 : Req → Bytes := fun r => if r.1 then [0x62, 1] else [0x62, 2]

/-- both requests are sent with and without the cache and the base variant is identified
    (defect 2 of the pinned commit: with the cache the functional request was never sent → no match) -/
example : (runMatcher ⟨true, true⟩ cands2 ecu2).trace = [(true, [0x22, 1]), (false, [0x22, 1])] ∧
    (runMatcher ⟨true, true⟩ cands2 ecu2).final.matching = some 1 ∧
    (runMatcher ⟨true, false⟩ cands2 ecu2).final.matching = some 1 ∧
    (runMatcher ⟨true, true⟩ cands2 ecu2).final.cache = [((true, [0x22, 1]), [0x62, 1]), ((false, [0x22, 1]), [0x62, 2])] := by
  decide

/-- `Tame` is satisfiable (hypothesis of `C14_total`) -/
example : Tame cands1 := by
  intro v hv pat hpat p hp
  simp only [cands1, List.mem_cons, List.not_mem_nil, or_false] at hv
  have key : ∀ s ∈ [s1, s2], ∀ resp, ∀ o ∈ s.decode resp, ∀ e, o ≠ .raises e := by
    intro s hs resp o ho e
    simp only [List.mem_cons, List.not_mem_nil, or_false] at hs
    rcases hs with rfl | rfl <;>
    · simp only [s1, s2, svc] at ho
      split at ho <;> simp at ho <;> subst ho <;> simp
  rcases hv with rfl | rfl
  · simp [Variant.patterns?] at hpat; subst hpat; simp at hp; subst hp
    exact ⟨s1, [0x22, 1], rfl, rfl, key s1 (by simp)⟩
  · simp [Variant.patterns?] at hpat
    rcases hpat with rfl | rfl
    · simp at hp
      rcases hp with rfl | rfl
      · exact ⟨s1, [0x22, 1], rfl, rfl, key s1 (by simp)⟩
      · exact ⟨s2, [0x22, 2], rfl, rfl, key s2 (by simp)⟩
    · simp at hp; subst hp
      exact ⟨s2, [0x22, 2], rfl, rfl, key s2 (by simp)⟩

/-- strict mode: a path through something that is not a structure raises `OdxError` and leaves the matcher
    pending (hypothesis of `C14_error_leaves_pending`); non-strict mode goes on and finds the second variant -/
def cands3 : List Variant :=
  [⟨.ecu [[⟨[97], [1], none, some [105, 100, 46, 120], none⟩]], [s1, s2]⟩,     -- SNPATHREF "id.x"
   ⟨.ecu [[mp [2] [98] none]], [s1, s2]⟩]

example : (runMatcher ⟨true, true⟩ cands3 (fun _ => [0x62, 2])).result = .error .odx ∧
    hasMatch (runMatcher ⟨true, true⟩ cands3 (fun _ => [0x62, 2])).final = .error .runtime ∧
    (runMatcher ⟨false, true⟩ cands3 (fun _ => [0x62, 2])).final.matching = some 1 := by
  decide

/-- misuse of the loop: no `evaluate()` after the first yield → `RuntimeError`; an abandoned loop leaves the
    matcher pending; a forgotten `evaluate()` later on silently re-uses the previous response -/
example : ((requestLoop ⟨true, true⟩ cands1 {}).runScript [none]).result = some (.error .runtime) ∧
    ((requestLoop ⟨true, true⟩ cands1 {}).runScript []).result = none ∧
    hasMatch ((requestLoop ⟨true, true⟩ cands1 {}).runScript []).final = .error .runtime ∧
    ((requestLoop ⟨true, true⟩ cands1 {}).runScript [some [0x62, 2], none]).final.matching = some 1 := by
  decide

/-- a non-pending matcher: hypothesis of `C14_rerun_idempotent` -/
example : (runMatcher ⟨true, true⟩ cands1 ecu1).final.state ≠ .pending := by decide

/-- the value universe: any item of a field, table-struct pair, bytes and DTC as upper-case hex, `str()` of
    numbers; SNPATHREF "a.b" -/
example :
    valueMatches ⟨[55], [1], none, some [97, 46, 98], none⟩
      (.dict [([97], .list [] [.dict [([98], .int 3)], .dict [([98], .int 7)]])]) = true ∧
    valueMatches ⟨[48, 120, 49, 97], [1], some [97], none, none⟩ (.dict [([97], .dtc 26)]) = true ∧
    valueMatches ⟨[97, 98], [1], some [97], none, none⟩ (.dict [([97], .tuple [] [.str [114], .bytes [0xAB]])]) = true ∧
    paramMatches true ⟨[55], [1], none, some [97, 46, 98], none⟩
      (.dict [([97], .list [] [.dict [([98], .int 3)], .dict [([98], .int 7)]])]) = .ok true := by
  decide

end Ex
end OdxVerif.Variant
