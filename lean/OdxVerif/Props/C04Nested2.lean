import OdxVerif.Props.C04Nested
import OdxVerif.Proofs.CompReject2Described
/-! # C04 on the compositional nested tier, second part (task W18): VALUE leaves of **all nine kinds**
    `C04_nested_partial` (`Props/C04Nested.lean`) restricted VALUE leaves to the integer kinds.  Here they may be of any kind of
    `Obj` — `A_INT32` (four encodings), `A_UINT32`, `A_FLOAT64`, `A_FLOAT32`, `A_BYTEFIELD`, `A_ASCIISTRING` (ISO-8859-1),
    `A_UTF8STRING`, `A_UNICODE2STRING` (UCS-2), BCD (packed / unpacked) — with or without PHYSICAL-DEFAULT-VALUE, at every
    nesting depth of structures (with or without BYTE-SIZE) ∘ static / dynamic-length / END-OF-PDU fields (items with or without
    BYTE-SIZE) ∘ multiplexers, plus LEADING-LENGTH-INFO-TYPE leaves (over `A_BYTEFIELD` and the three string base types) and (in last position, ended by the end of the PDU)
    MIN-MAX-LENGTH-TYPE leaves over `A_BYTEFIELD` and the string base types (class `DescribedP2`,
    `Proofs/CompReject2Described.lean`).  One rejection lemma covers all kinds: `Obj.rejectsW` (`Proofs/CompReject2Leaf.lean`).

    **Hypothesis `wfAtoms`** (explicit, decidable, a condition on the INPUT that every Python value meets): the bytes of every
    supplied `bytes` atom are < 256 and every supplied `float` atom is a binary64 pattern (< 2^64).  The model's `IVal` is
    wider than Python's values there, and on such atoms the model's encoder is meaningless (`kIll` below: it emplaces
    `.bytes [0, 256]` into a 16-bit byte field as `01 00`; `.flt (2^64)` ends in bitstruct's `foreign` error).
    **Hypothesis `typedForP`** (explicit, decidable), on top of the spots of W14: for a float DOP a supplied `int` is
    `unmodelled` in the model (`float(int)`: the real code converts, the model has no rounding), and for `A_FLOAT32` a
    binary64 pattern that is not exactly a normal binary32 number / zero / infinity (rounding is outside the model) —
    `Obj.typedLeaf`.  `C04_nested_never_foreign2` shows these are the only `unmodelled` spots and that no well-formed value
    produces a foreign exception.
    The other hypotheses (`needFor`, the END-OF-PDU side condition of the round trip, `w = 0`) are those of W14.
    The name carries no `_partial`: every leaf kind of the model is covered; what is NOT in this tier is listed in
    `design_notes/C04.md` (the round-6 constructors, LENGTH-KEY, RESERVED / NRC-CONST / MATCHING-REQUEST-PARAM). -/
namespace OdxVerif.Codec
open OdxVerif.Bits OdxVerif.OdxM

/-- **C04, nested tier, all nine leaf kinds.** Strict `encode` of the model on described parameters and an arbitrary supplied
    value (whose atoms Python can supply, none of a Python type the model does not follow) either raises `EncodeError` / plain
    `OdxError`, or returns a PDU — and then the value was a dictionary the description accepts, and unless an overlap was
    reported strict `decode` of the PDU returns exactly the completion of the supplied value. -/
theorem C04_nested (ps : List PDesc) (hd : ∀ p ∈ ps, DescribedP2 p) (hn : PDescs.namesOk ps) (hl : PDescs.eopLast ps)
    (pv : PVal) (hwf : pv.wfAtoms = true) (trig : Option Bytes) (hneed : pv.needFor ps ≤ modelFuel)
    (hty : pv.typedForP ps = true) :
    (∃ e, encodeMessage none (PDescs.toParams ps) pv trig true = .error e ∧ (e = .encode ∨ e = .odx)) ∨
    ∃ (kvs : List (String × PVal)) (pdu : Bytes) (w : Nat), pv = .dict kvs ∧ pv.acceptedByP ps = true ∧
      encodeMessage none (PDescs.toParams ps) pv trig true = .ok (pdu, w) ∧
      (w = 0 → (PDescs.anyEop ps = true → pv.endCursor ps = pdu.length) →
        ∃ cursor, decodeMessage none (PDescs.toParams ps) pdu true = .ok (.dict (PDescs.complete ps kvs), cursor)) := by
  rcases encodeMessage_nested2_cases ps (fun p hp => (hd p hp).okW) hn hl pv hwf trig hneed with
    ⟨_, e, hrun, he⟩ | ⟨c, hf, hc, pdu, w, hrun, hrt⟩
  · rcases he with he | ⟨_, hff⟩
    · exact Or.inl ⟨e, hrun, he⟩
    · rw [PVal.typedForP] at hty; rw [hty] at hff; cases hff
  · obtain ⟨kvs, rfl⟩ := DDesc.struct_fill_dict ps pv c hf
    refine Or.inr ⟨kvs, pdu, w, rfl, by simp [PVal.acceptedByP, hf], hrun, ?_⟩
    intro hw hend
    exact hrt hw (fun he => by
      have := hend (hc.eop he)
      simpa [PVal.endCursor, hf] using this)

/-- **No foreign exception, no other `unmodelled` spot** — without the `typedForP` hypothesis: every failure of the strict
    encoder on a value whose atoms Python can supply is `EncodeError`, `OdxError`, or the model's `unmodelled` at an untyped
    atom (W14's spots, `float(int)`, rounding to binary32). -/
theorem C04_nested_never_foreign2 (ps : List PDesc) (hd : ∀ p ∈ ps, DescribedP2 p) (hn : PDescs.namesOk ps)
    (hl : PDescs.eopLast ps) (pv : PVal) (hwf : pv.wfAtoms = true) (trig : Option Bytes) (hneed : pv.needFor ps ≤ modelFuel)
    (e : Err) (h : encodeMessage none (PDescs.toParams ps) pv trig true = .error e) :
    e = .encode ∨ e = .odx ∨ (e = .unmodelled ∧ pv.typedForP ps = false) := by
  rcases encodeMessage_nested2_cases ps (fun p hp => (hd p hp).okW) hn hl pv hwf trig hneed with
    ⟨_, e', hrun, he⟩ | ⟨c, _, _, pdu, w, hrun, _⟩
  · rw [hrun] at h
    cases h
    rcases he with (he | he) | he
    · exact Or.inl he
    · exact Or.inr (Or.inl he)
    · exact Or.inr (Or.inr he)
  · rw [hrun] at h; cases h

/-- **accepted ⇔ acceptable**: on values whose atoms Python can supply the strict encoder returns a PDU exactly for the values
    `acceptedByP` describes (every VALUE leaf: an atom the kind can represent — `Obj.accepts`). -/
theorem C04_nested_accepts_iff2 (ps : List PDesc) (hd : ∀ p ∈ ps, DescribedP2 p) (hn : PDescs.namesOk ps)
    (hl : PDescs.eopLast ps) (pv : PVal) (hwf : pv.wfAtoms = true) (trig : Option Bytes) (hneed : pv.needFor ps ≤ modelFuel) :
    (∃ r, encodeMessage none (PDescs.toParams ps) pv trig true = .ok r) ↔ pv.acceptedByP ps = true := by
  rcases encodeMessage_nested2_cases ps (fun p hp => (hd p hp).okW) hn hl pv hwf trig hneed with
    ⟨hf, e, hrun, _⟩ | ⟨c, hf, _, pdu, w, hrun, _⟩
  · rw [hrun, PVal.acceptedByP, hf]
    constructor
    · rintro ⟨r, h⟩; cases h
    · intro h; cases h
  · rw [hrun, PVal.acceptedByP, hf]
    exact ⟨fun _ => rfl, fun _ => ⟨_, rfl⟩⟩

/-- every description of W14's class is in the class (up to the `typed` flag of the VALUE leaves, which is constantly `true`
    for the integer kinds in both): the integer kinds are `Obj`s like the others -/
theorem Obj.typedLeaf_eq_of_int (o : Obj) (hint : o.isInt) : o.typedLeaf = fun _ => true :=
  funext (o.typedLeaf_int hint)

theorem DescribedP2.of_value_int (o : Obj) (ho : o.ok) (hint : o.isInt) : DescribedP2 (PDesc.ofObjValue o (fun _ => true)) := by
  rw [← o.typedLeaf_eq_of_int hint]; exact DescribedP2.value o ho

/-! ## non-vacuity
    request = [ sid (CODED-CONST 0x2E); f64 : A_FLOAT64;
                st : STRUCTURE { f32 : A_FLOAT32; bf : A_BYTEFIELD (2 bytes);
                     sf : STATIC-FIELD, 2 items of { a : A_ASCIISTRING (2 bytes);
                          m : MULTIPLEXER (case u: { u : A_UTF8STRING, 3 bytes } / case w: { w : A_UNICODE2STRING, 2 bytes }) },
                          ITEM-BYTE-SIZE 6 };
                bcd : packed BCD, 16 bits, default 1234;
                rec : END-OF-PDU-FIELD of { b : A_BYTEFIELD (1 byte) } ] -/
def lv (o : Obj) : PDesc := PDesc.ofObjValue o o.typedLeaf
def oF64 : Obj := ⟨"f64", none, none, none, true, 64, .float64⟩
def oF32 : Obj := ⟨"f32", none, none, none, true, 32, .float32⟩
def oBf : Obj := ⟨"bf", none, none, none, true, 16, .bytes⟩
def oAsc : Obj := ⟨"a", none, none, none, true, 16, .ascii⟩
def oU8 : Obj := ⟨"u", none, none, none, true, 24, .utf8⟩
def oW : Obj := ⟨"w", none, none, none, true, 16, .unicode2⟩
def oBcd : Obj := ⟨"bcd", none, none, some .bcdp, true, 16, .bcd⟩
def oB1 : Obj := ⟨"b", none, none, none, true, 8, .bytes⟩

def kMux : MuxShape :=
  { muxBp := 1, swBp := 0, key := ⟨"", none, none, none, true, 8, .uint32⟩,
    cases := [⟨"u", 1, 1, [lv oU8]⟩, ⟨"w", 2, 2, [lv oW]⟩], dflt := none }
def kSfItem : List PDesc := [lv oAsc, PDesc.ofValue "m" none (DDesc.mux kMux.toDesc)]
def kSf : PDesc := PDesc.ofValue "sf" none (DDesc.staticField 2 6 (DDesc.struct kSfItem))
def kSt : PDesc := PDesc.ofValue "st" none (DDesc.struct [lv oF32, lv oBf, kSf])
def kRec : PDesc := PDesc.ofValue "rec" none (DDesc.eopField none none (DDesc.struct [lv oB1]))
def kDesc : List PDesc :=
  [PDesc.ofObjConst ⟨"sid", none, none, none, true, 8, .uint32⟩ (.int 0x2E), lv oF64, kSt,
   PDesc.ofObjDefault oBcd (.int 1234) oBcd.typedLeaf, kRec]


theorem described_lv (o : Obj) (ho : o.ok) : DescribedP2 (lv o) := DescribedP2.value o ho

theorem kObjs_ok : oF64.ok ∧ oF32.ok ∧ oBf.ok ∧ oAsc.ok ∧ oU8.ok ∧ oW.ok ∧ oBcd.ok ∧ oB1.ok := by
  simp [Obj.ok, Obj.encOk, Obj.sizeOk, oF64, oF32, oBf, oAsc, oU8, oW, oBcd, oB1]

theorem kMux_casesOk : kMux.toDesc.casesOk := by
  intro n c h
  simp only [MuxShape.toDesc, kMux, List.map, findCaseName, MuxShapeCase.toDesc] at h
  split at h
  · cases h
    exact ⟨_, by simp [MuxShape.toDesc, kMux, findCaseKey, MuxShapeCase.toDesc], rfl, rfl⟩
  · split at h
    · cases h
      exact ⟨_, by simp [MuxShape.toDesc, kMux, findCaseKey, MuxShapeCase.toDesc], rfl, rfl⟩
    · cases h

theorem kMux_described : DescribedP2 (PDesc.ofValue "m" none (DDesc.mux kMux.toDesc)) := by
  refine DescribedP2.mux "m" none kMux ?_ ?_ ?_ ?_ ?_ (Or.inr rfl) kMux_casesOk
  · exact pforall2 _ _ (pforall1 _ (described_lv _ kObjs_ok.2.2.2.2.1)) (pforall1 _ (described_lv _ kObjs_ok.2.2.2.2.2.1))
  · exact pforall2 _ _ ⟨pnamesOk1 _, trivial⟩ ⟨pnamesOk1 _, trivial⟩
  · intro dn kids h; cases h
  · intro dn kids h; cases h
  · simp [MuxShape.toDesc, kMux, MuxDesc.keyObj, MuxDesc.layout, MuxLayout.keyObj, Obj.ok, Obj.encOk, Obj.sizeOk]

theorem kSf_described : DescribedP2 kSf :=
  DescribedP2.staticField "sf" none 2 6 none kSfItem (pforall2 _ _ (described_lv _ kObjs_ok.2.2.2.1) kMux_described)
    (pnamesOk2 _ _ (by decide)) rfl

theorem kSt_described : DescribedP2 kSt := by
  refine DescribedP2.struct "st" none _ ?_ ?_ ⟨rfl, rfl, trivial⟩
  · intro g hg
    simp only [List.mem_cons, List.mem_nil_iff, or_false] at hg
    rcases hg with rfl | rfl | rfl
    · exact described_lv _ kObjs_ok.2.1
    · exact described_lv _ kObjs_ok.2.2.1
    · exact kSf_described
  · refine ⟨?_, ?_, pnamesOk1 _⟩
    · intro u hu
      simp only [List.mem_cons, List.mem_nil_iff, or_false] at hu
      rcases hu with rfl | rfl <;> decide
    · intro u hu
      simp only [List.mem_cons, List.mem_nil_iff, or_false] at hu
      subst hu
      decide

theorem kRec_described : DescribedP2 kRec :=
  DescribedP2.eopField "rec" none none none none [lv oB1] (pforall1 _ (described_lv _ kObjs_ok.2.2.2.2.2.2.2)) (pnamesOk1 _) rfl
    (Nat.le_refl 1)

theorem kDesc_described : ∀ p ∈ kDesc, DescribedP2 p := by
  intro g hg
  simp only [kDesc, List.mem_cons, List.mem_nil_iff, or_false] at hg
  rcases hg with rfl | rfl | rfl | rfl | rfl
  · exact DescribedP2.const _ _ (by simp [Obj.ok, Obj.encOk, Obj.sizeOk]) (by simp [Obj.inRange])
  · exact described_lv _ kObjs_ok.1
  · exact kSt_described
  · exact DescribedP2.valueDefault _ _ kObjs_ok.2.2.2.2.2.2.1
      ((oBcd.accepts_iff kObjs_ok.2.2.2.2.2.2.1 _).mp (by decide +kernel))
  · exact kRec_described

theorem kDesc_names : PDescs.namesOk kDesc ∧ PDescs.eopLast kDesc := by
  refine ⟨?_, ⟨rfl, rfl, rfl, rfl, trivial⟩⟩
  simp [PDescs.namesOk, kDesc, PDesc.name, Param.name, PDesc.ofObjConst, Obj.toConstParam, kSt, kRec, PDesc.ofValue,
    PDesc.ofObjDefault, lv, PDesc.ofObjValue, Obj.toParam, oF64, oBcd]

/-- an accepted value: 1.5; −2.0 (exactly a binary32 number); `DE AD`; "Oé"; the multiplexers selected by name ("€" in UTF-8)
    and by switch key ("Ω" in UCS-2); `bcd` omitted (default 1234); two records -/
def kGoodKvs : List (String × PVal) :=
  [("f64", .atom (.flt 0x3FF8000000000000)),
   ("st", .dict [("f32", .atom (.flt 0xC000000000000000)), ("bf", .atom (.bytes [0xDE, 0xAD])),
      ("sf", .list [.dict [("a", .atom (.str [0x4F, 0xE9])), ("m", .pair "u" (.dict [("u", .atom (.str [0x20AC]))]))],
                    .dict [("a", .atom (.str [0x6F, 0x6B])), ("m", .keyed 2 (.dict [("w", .atom (.str [0x3A9]))]))]])]),
   ("rec", .list [.dict [("b", .atom (.bytes [1]))], .dict [("b", .atom (.bytes [0xFF]))]])]
def kGood : PVal := .dict kGoodKvs
def kPdu : Bytes := [0x2E, 0x3F, 0xF8, 0, 0, 0, 0, 0, 0, 0xC0, 0, 0, 0, 0xDE, 0xAD, 0x4F, 0xE9, 1, 0xE2, 0x82, 0xAC,
  0x6F, 0x6B, 2, 0x03, 0xA9, 0, 0x12, 0x34, 1, 0xFF]

example : kGood.wfAtoms = true ∧ kGood.typedForP kDesc = true ∧ kGood.acceptedByP kDesc = true ∧ kGood.needFor kDesc ≤ modelFuel := by
  decide +kernel
example : (encodeMessage none (PDescs.toParams kDesc) kGood none true).toOption = some (kPdu, 0) := by decide +kernel
example : kGood.endCursor kDesc = 31 := by decide +kernel
def kExpect : PVal :=
  .dict [("sid", .atom (.int 0x2E)), ("f64", .atom (.flt 0x3FF8000000000000)),
   ("st", .dict [("f32", .atom (.flt 0xC000000000000000)), ("bf", .atom (.bytes [0xDE, 0xAD])),
      ("sf", .list [.dict [("a", .atom (.str [0x4F, 0xE9])), ("m", .pair "u" (.dict [("u", .atom (.str [0x20AC]))]))],
                    .dict [("a", .atom (.str [0x6F, 0x6B])), ("m", .pair "w" (.dict [("w", .atom (.str [0x3A9]))]))]])]),
   ("bcd", .atom (.int 1234)),
   ("rec", .list [.dict [("b", .atom (.bytes [1]))], .dict [("b", .atom (.bytes [0xFF]))]])]
example : pvalEq (.dict (PDescs.complete kDesc kGoodKvs)) kExpect = true := by decide +kernel
example : (match decodeMessage none (PDescs.toParams kDesc) kPdu true with
    | .ok (v, cursor) => pvalEq v kExpect && cursor == 31
    | .error _ => false) = true := by decide +kernel

/-- malformed values of every leaf kind, at depths 1–4, with their error classes (each one satisfies `wfAtoms` and `typedForP`) -/
def kBad : List (PVal × Err) :=
  let f (b : Nat) : PVal := .atom (.flt b)
  let s (cps : List Nat) : PVal := .atom (.str cps)
  let by_ (b : List Nat) : PVal := .atom (.bytes b)
  let i (n : Int) : PVal := .atom (.int n)
  let item (a m : PVal) : PVal := .dict [("a", a), ("m", m)]
  let u (x : PVal) : PVal := .pair "u" (.dict [("u", x)])
  let w (x : PVal) : PVal := .pair "w" (.dict [("w", x)])
  let sf2 (a1 m1 m2 : PVal) : PVal := .list [item a1 m1, item (s [0x6F, 0x6B]) m2]
  let okSf : PVal := sf2 (s [0x4F, 0xE9]) (u (s [0x20AC])) (w (s [0x3A9]))
  let st (f32 bf sf : PVal) : PVal := .dict [("f32", f32), ("bf", bf), ("sf", sf)]
  let okSt : PVal := st (f 0) (by_ [1, 2]) okSf
  let top (f64 stv bcd rec : PVal) : PVal := .dict [("f64", f64), ("st", stv), ("bcd", bcd), ("rec", rec)]
  let okF : PVal := f 0x3FF8000000000000
  let okRec : PVal := .list []
  [ (top (s [0x31]) okSt (i 1) okRec, .encode),                                             -- a string for A_FLOAT64
    (top (by_ [0, 0, 0, 0, 0, 0, 0, 0]) okSt (i 1) okRec, .encode),                           -- eight bytes for A_FLOAT64
    (top okF (st (s []) (by_ [1, 2]) okSf) (i 1) okRec, .encode),                             -- a string for A_FLOAT32
    (top okF (st (f 0) (by_ [1]) okSf) (i 1) okRec, .encode),                                 -- byte field too short
    (top okF (st (f 0) (by_ [1, 2, 3]) okSf) (i 1) okRec, .encode),                           -- byte field too long
    (top okF (st (f 0) (s [0x31, 0x32]) okSf) (i 1) okRec, .encode),                          -- a string for a byte field
    (top okF (st (f 0) (i 0x102) okSf) (i 1) okRec, .encode),                                 -- an int for a byte field
    (top okF (st (f 0) (by_ [1, 2]) (sf2 (s [0x4F, 0x100]) (u (s [0x20AC])) (w (s [0x3A9])))) (i 1) okRec, .encode), -- "Ā" is not ISO-8859-1
    (top okF (st (f 0) (by_ [1, 2]) (sf2 (s [0x4F]) (u (s [0x20AC])) (w (s [0x3A9])))) (i 1) okRec, .encode),       -- string too short
    (top okF (st (f 0) (by_ [1, 2]) (sf2 (by_ [0x4F, 0x4F]) (u (s [0x20AC])) (w (s [0x3A9])))) (i 1) okRec, .encode), -- bytes for a string
    (top okF (st (f 0) (by_ [1, 2]) (sf2 (s [0x4F, 0xE9]) (u (s [0xD800])) (w (s [0x3A9])))) (i 1) okRec, .encode),  -- a lone surrogate in UTF-8
    (top okF (st (f 0) (by_ [1, 2]) (sf2 (s [0x4F, 0xE9]) (u (s [0x41])) (w (s [0x3A9])))) (i 1) okRec, .encode),    -- "A": 1 byte of UTF-8, 3 wanted
    (top okF (st (f 0) (by_ [1, 2]) (sf2 (s [0x4F, 0xE9]) (u (s [0x20AC])) (w (s [0x1F600])))) (i 1) okRec, .encode), -- a surrogate pair: 4 bytes, 2 wanted
    (top okF (st (f 0) (by_ [1, 2]) (sf2 (s [0x4F, 0xE9]) (u (s [0x20AC])) (w (s [0x110000])))) (i 1) okRec, .encode), -- not a code point
    (top okF (st (f 0) (by_ [1, 2]) (sf2 (s [0x4F, 0xE9]) (u (s [0x20AC])) (w (i 5)))) (i 1) okRec, .encode),        -- an int for a string
    (top okF okSt (i (-1)) okRec, .odx),                                                      -- negative BCD
    (top okF okSt (i 12345) okRec, .encode),                                                  -- five digits in 16 bits of packed BCD
    (top okF okSt (s [0x31]) okRec, .encode),                                                 -- a string for BCD
    (top okF okSt (f 0) okRec, .encode),                                                      -- a float for BCD
    (top okF okSt (i 1) (.list [.dict [("b", by_ [])]]), .encode),                            -- empty bytes inside a record
    (top okF okSt (i 1) (.list [.dict [("b", by_ [1])], .dict [("b", s [1])]]), .encode) ]    -- a string inside the 2nd record

example : kBad.all (fun p => p.1.wfAtoms && p.1.typedForP kDesc && decide (p.1.needFor kDesc ≤ modelFuel) &&
    p.1.acceptedByP kDesc == false && errClass (encodeMessage none (PDescs.toParams kDesc) p.1 none true) == some p.2) = true := by
  decide +kernel

/-- the `typedForP` hypothesis is what it excludes: an `int` for `A_FLOAT64` / `A_FLOAT32` (`float(int)`), a binary64 pattern
    that is no binary32 number (1 + 2⁻⁵²) for `A_FLOAT32` — `unmodelled` in the model -/
example : let f (b : Nat) : PVal := .atom (.flt b)
    let mk (f64 f32 : PVal) : PVal := .dict [("f64", f64), ("st", .dict [("f32", f32), ("bf", .atom (.bytes [1, 2]))])]
    [mk (.atom (.int 1)) (f 0), mk (f 0) (.atom (.int 1)), mk (f 0) (f 0x3FF0000000000001)].all (fun p =>
      p.wfAtoms && p.typedForP kDesc == false &&
      errClass (encodeMessage none (PDescs.toParams kDesc) p none true) == some .unmodelled) = true := by decide +kernel

/-- the `wfAtoms` hypothesis is needed (atoms no Python value corresponds to): the model emplaces the "bytes" `[0, 256]` into a
    16-bit byte field as `01 00` (and the decoder returns `[1, 0]`); the "float" 2^64 ends in bitstruct's `foreign` error -/
def kIll : List PDesc := [lv oBf, lv oF64]
example : let p1 : PVal := .dict [("bf", .atom (.bytes [0, 256])), ("f64", .atom (.flt 0))]
    let p2 : PVal := .dict [("bf", .atom (.bytes [0, 1])), ("f64", .atom (.flt (2 ^ 64)))]
    p1.wfAtoms = false ∧ p1.typedForP kIll = true ∧ p1.acceptedByP kIll = false ∧
    (encodeMessage none (PDescs.toParams kIll) p1 none true).toOption = some ([1, 0, 0, 0, 0, 0, 0, 0, 0, 0], 0) ∧
    p2.wfAtoms = false ∧ p2.typedForP kIll = true ∧
    errClass (encodeMessage none (PDescs.toParams kIll) p2 none true) = some .foreign := by decide +kernel

/-- the theorem applies to the example -/
example : ∃ cursor, decodeMessage none (PDescs.toParams kDesc) kPdu true = .ok (.dict (PDescs.complete kDesc kGoodKvs), cursor) := by
  rcases C04_nested kDesc kDesc_described kDesc_names.1 kDesc_names.2 kGood (by decide +kernel) none (by decide +kernel)
    (by decide +kernel) with ⟨e, he, _⟩ | ⟨kvs, pdu, w, hkvs, _, henc, hrt⟩
  · have : (encodeMessage none (PDescs.toParams kDesc) kGood none true).toOption = none := by rw [he]; rfl
    exact absurd this (by decide +kernel)
  · have h2 : (encodeMessage none (PDescs.toParams kDesc) kGood none true).toOption = some (pdu, w) := by rw [henc]; rfl
    have h4 : (encodeMessage none (PDescs.toParams kDesc) kGood none true).toOption = some (kPdu, 0) := by decide +kernel
    rw [h2] at h4
    simp only [Option.some.injEq, Prod.mk.injEq] at h4
    obtain ⟨hp, hw⟩ := h4
    subst hp
    cases hkvs
    obtain ⟨cursor, hdec⟩ := hrt hw (fun _ => by decide +kernel)
    exact ⟨cursor, hdec⟩

/-! ## non-vacuity, STRUCTURE with BYTE-SIZE (content too long: `EncodeError` since fix f0ce27d)
    request = [ sid; bsx : STRUCTURE BYTE-SIZE 6 { n; df : DYNAMIC-LENGTH-FIELD (count u8, offset 1) of items
                { b : A_BYTEFIELD (1 byte) } with BYTE-SIZE 2 }; tail ] — 0, 1, 2 items fit (2 + 2·items ≤ 6), 3 do not -/
def bInner : PDesc :=
  PDesc.ofValue "df" none (DDesc.dynLenField { offset := 1, cntBp := 0, cnt := ⟨"", none, none, none, true, 8, .uint32⟩ }
    (DDesc.structO (some 2) [lv oB1]))
def bBs : PDesc := PDesc.ofValue "bsx" none (DDesc.structBS 6 [pu8 "n", bInner])
def bDesc : List PDesc := [PDesc.ofObjConst ⟨"sid", none, none, none, true, 8, .uint32⟩ (.int 0x2E), bBs, pu8 "tail"]
def bMk (items : List PVal) : PVal := .dict [("bsx", .dict [("n", .atom (.int 7)), ("df", .list items)]), ("tail", .atom (.int 0x99))]
def bIt (b : Nat) : PVal := .dict [("b", .atom (.bytes [b]))]

theorem described_pu8' (n : String) : DescribedP2 (pu8 n) :=
  DescribedP2.of_value_int _ (by simp [Obj.ok, Obj.encOk, Obj.sizeOk]) (Or.inr rfl)

theorem bDesc_described : ∀ p ∈ bDesc, DescribedP2 p := by
  intro g hg
  simp only [bDesc, List.mem_cons, List.mem_nil_iff, or_false] at hg
  rcases hg with rfl | rfl | rfl
  · exact DescribedP2.const _ _ (by simp [Obj.ok, Obj.encOk, Obj.sizeOk]) (by simp [Obj.inRange])
  · refine DescribedP2.structBS "bsx" none 6 _ (pforall2 _ _ (described_pu8' _) ?_) (pnamesOk2 _ _ (by decide)) rfl
    exact DescribedP2.dynLenField "df" none _ (some 2) [lv oB1] (pforall1 _ (described_lv _ kObjs_ok.2.2.2.2.2.2.2)) (pnamesOk1 _) rfl
      (by decide) (by simp [DynLayout.cntObj, Obj.ok, Obj.encOk, Obj.sizeOk]) (Or.inr rfl) (by decide)
  · exact described_pu8' _

theorem bDesc_names : PDescs.namesOk bDesc ∧ PDescs.eopLast bDesc := by
  refine ⟨?_, ⟨rfl, rfl, trivial⟩⟩
  simp [PDescs.namesOk, bDesc, PDesc.name, Param.name, PDesc.ofObjConst, Obj.toConstParam, bBs, PDesc.ofValue, pu8,
    PDesc.ofObjValue, Obj.toParam]

/-- accepted: the content is padded to BYTE-SIZE (items to 2 bytes, the structure to 6) -/
example : [bMk [], bMk [bIt 0xA1], bMk [bIt 0xA1, bIt 0xA2]].map (fun p =>
      (p.wfAtoms && p.typedForP bDesc && p.acceptedByP bDesc, (encodeMessage none (PDescs.toParams bDesc) p none true).toOption)) =
    [(true, some ([0x2E, 7, 0, 0, 0, 0, 0, 0x99], 0)), (true, some ([0x2E, 7, 1, 0xA1, 0, 0, 0, 0x99], 0)),
     (true, some ([0x2E, 7, 2, 0xA1, 0, 0xA2, 0, 0x99], 0))] := by decide +kernel
/-- rejected: three items end 8 bytes behind the first byte of a structure of BYTE-SIZE 6 -/
example : let p := bMk [bIt 0xA1, bIt 0xA2, bIt 0xA3]
    p.wfAtoms = true ∧ p.typedForP bDesc = true ∧ p.acceptedByP bDesc = false ∧ p.needFor bDesc ≤ modelFuel ∧
    errClass (encodeMessage none (PDescs.toParams bDesc) p none true) = some .encode := by decide +kernel
/-- the theorem applies: the PDU of the one-item value decodes to its completion -/
example : ∃ cursor, decodeMessage none (PDescs.toParams bDesc) [0x2E, 7, 1, 0xA1, 0, 0, 0, 0x99] true =
    .ok (.dict (PDescs.complete bDesc [("bsx", .dict [("n", .atom (.int 7)), ("df", .list [bIt 0xA1])]), ("tail", .atom (.int 0x99))]),
      cursor) := by
  rcases C04_nested bDesc bDesc_described bDesc_names.1 bDesc_names.2 (bMk [bIt 0xA1]) (by decide +kernel) none (by decide +kernel)
    (by decide +kernel) with ⟨e, he, _⟩ | ⟨kvs, pdu, w, hkvs, _, henc, hrt⟩
  · have : (encodeMessage none (PDescs.toParams bDesc) (bMk [bIt 0xA1]) none true).toOption = none := by rw [he]; rfl
    exact absurd this (by decide +kernel)
  · have h2 : (encodeMessage none (PDescs.toParams bDesc) (bMk [bIt 0xA1]) none true).toOption = some (pdu, w) := by rw [henc]; rfl
    have h4 : (encodeMessage none (PDescs.toParams bDesc) (bMk [bIt 0xA1]) none true).toOption
        = some ([0x2E, 7, 1, 0xA1, 0, 0, 0, 0x99], 0) := by decide +kernel
    rw [h2] at h4
    simp only [Option.some.injEq, Prod.mk.injEq] at h4
    obtain ⟨hp, hw⟩ := h4
    subst hp
    cases hkvs
    obtain ⟨cursor, hdec⟩ := hrt hw (fun h => by cases h)
    exact ⟨cursor, hdec⟩

/-! ## non-vacuity, LEADING-LENGTH-INFO-TYPE over A_BYTEFIELD
    request = [ sid; ll : LEADING-LENGTH-INFO-TYPE, 2-bit length prefix (at most 3 bytes); tail ] -/
def lSh : LeadShape := { name := "ll", bytePos := none, bitPos := none, enc := none, hl := true, bitLen := 2 }
def lDesc : List PDesc := [PDesc.ofObjConst ⟨"sid", none, none, none, true, 8, .uint32⟩ (.int 0x2E), PDesc.ofLeadBytes lSh, pu8 "tail"]
def lMk (x : PVal) : PVal := .dict [("ll", x), ("tail", .atom (.int 0x99))]

theorem lDesc_described : ∀ p ∈ lDesc, DescribedP2 p := by
  intro g hg
  simp only [lDesc, List.mem_cons, List.mem_nil_iff, or_false] at hg
  rcases hg with rfl | rfl | rfl
  · exact DescribedP2.const _ _ (by simp [Obj.ok, Obj.encOk, Obj.sizeOk]) (by simp [Obj.inRange])
  · exact DescribedP2.leadBytes lSh (by simp [LeadShape.ok, lSh])
  · exact described_pu8' _

theorem lDesc_names : PDescs.namesOk lDesc ∧ PDescs.eopLast lDesc := by
  refine ⟨?_, ⟨rfl, rfl, trivial⟩⟩
  simp [PDescs.namesOk, lDesc, PDesc.name, Param.name, PDesc.ofObjConst, Obj.toConstParam, PDesc.ofLeadBytes, LeadShape.leaf,
    LeadLeaf.toParam, lSh, pu8, PDesc.ofObjValue, Obj.toParam]

/-- accepted: the empty value and three bytes; rejected with `EncodeError`: four bytes (the 2-bit prefix cannot hold 4), a string,
    an int, a list, omission -/
example : [lMk (.atom (.bytes [])), lMk (.atom (.bytes [0xA1, 0xA2, 0xA3]))].map (fun p =>
      (p.wfAtoms && p.typedForP lDesc && p.acceptedByP lDesc, (encodeMessage none (PDescs.toParams lDesc) p none true).toOption)) =
    [(true, some ([0x2E, 0, 0x99], 0)), (true, some ([0x2E, 3, 0xA1, 0xA2, 0xA3, 0x99], 0))] := by decide +kernel
example : [lMk (.atom (.bytes [1, 2, 3, 4])), lMk (.atom (.str [0x41])), lMk (.atom (.int 1)), lMk (.list []),
      .dict [("tail", .atom (.int 1))]].all (fun p =>
      p.wfAtoms && p.typedForP lDesc && p.acceptedByP lDesc == false && decide (p.needFor lDesc ≤ modelFuel) &&
      errClass (encodeMessage none (PDescs.toParams lDesc) p none true) == some .encode) = true := by decide +kernel
/-- the theorem applies: the PDU of the three-byte value decodes to its completion -/
example : ∃ cursor, decodeMessage none (PDescs.toParams lDesc) [0x2E, 3, 0xA1, 0xA2, 0xA3, 0x99] true =
    .ok (.dict (PDescs.complete lDesc [("ll", .atom (.bytes [0xA1, 0xA2, 0xA3])), ("tail", .atom (.int 0x99))]), cursor) := by
  rcases C04_nested lDesc lDesc_described lDesc_names.1 lDesc_names.2 (lMk (.atom (.bytes [0xA1, 0xA2, 0xA3]))) (by decide +kernel) none
    (by decide +kernel) (by decide +kernel) with ⟨e, he, _⟩ | ⟨kvs, pdu, w, hkvs, _, henc, hrt⟩
  · have : (encodeMessage none (PDescs.toParams lDesc) (lMk (.atom (.bytes [0xA1, 0xA2, 0xA3]))) none true).toOption = none := by
      rw [he]; rfl
    exact absurd this (by decide +kernel)
  · have h2 : (encodeMessage none (PDescs.toParams lDesc) (lMk (.atom (.bytes [0xA1, 0xA2, 0xA3]))) none true).toOption = some (pdu, w) := by
      rw [henc]; rfl
    have h4 : (encodeMessage none (PDescs.toParams lDesc) (lMk (.atom (.bytes [0xA1, 0xA2, 0xA3]))) none true).toOption
        = some ([0x2E, 3, 0xA1, 0xA2, 0xA3, 0x99], 0) := by decide +kernel
    rw [h2] at h4
    simp only [Option.some.injEq, Prod.mk.injEq] at h4
    obtain ⟨hp, hw⟩ := h4
    subst hp
    cases hkvs
    obtain ⟨cursor, hdec⟩ := hrt hw (fun h => by cases h)
    exact ⟨cursor, hdec⟩

/-! ## non-vacuity, LEADING-LENGTH-INFO-TYPE over the string base types
    request = [ sid; a : A_ASCIISTRING, 3-bit prefix; u : A_UTF8STRING, 8-bit prefix; w : A_UNICODE2STRING, 8-bit prefix ] -/
def sSh (n : String) (bt : BaseType) (bl : Nat) : LeadStrShape :=
  { name := n, bytePos := none, bitPos := none, bt := bt, enc := none, hl := true, bitLen := bl }
def sDesc2 : List PDesc :=
  [PDesc.ofObjConst ⟨"sid", none, none, none, true, 8, .uint32⟩ (.int 0x2E), PDesc.ofLeadStr (sSh "a" .ascii 3),
   PDesc.ofLeadStr (sSh "u" .utf8 8), PDesc.ofLeadStr (sSh "w" .unicode2 8)]
def sMk (a u w : List Nat) : PVal := .dict [("a", .atom (.str a)), ("u", .atom (.str u)), ("w", .atom (.str w))]

theorem sDesc2_described : ∀ p ∈ sDesc2, DescribedP2 p := by
  intro g hg
  simp only [sDesc2, List.mem_cons, List.mem_nil_iff, or_false] at hg
  rcases hg with rfl | rfl | rfl | rfl
  · exact DescribedP2.const _ _ (by simp [Obj.ok, Obj.encOk, Obj.sizeOk]) (by simp [Obj.inRange])
  · exact DescribedP2.leadStr _ ⟨by decide, by decide, Or.inl rfl⟩
  · exact DescribedP2.leadStr _ ⟨by decide, by decide, Or.inr (Or.inl rfl)⟩
  · exact DescribedP2.leadStr _ ⟨by decide, by decide, Or.inr (Or.inr rfl)⟩

theorem sDesc2_names : PDescs.namesOk sDesc2 ∧ PDescs.eopLast sDesc2 := by
  refine ⟨?_, ⟨rfl, rfl, rfl, trivial⟩⟩
  simp [PDescs.namesOk, sDesc2, PDesc.name, Param.name, PDesc.ofObjConst, Obj.toConstParam, PDesc.ofLeadStr, LeadStrShape.leaf,
    LeadLeaf.toParam, sSh]

/-- accepted: "OK" (2 bytes), "€" (3 bytes of UTF-8), "Ω😀" (2 + 4 bytes of UTF-16) -/
example : let p := sMk [0x4F, 0x4B] [0x20AC] [0x3A9, 0x1F600]
    p.wfAtoms = true ∧ p.typedForP sDesc2 = true ∧ p.acceptedByP sDesc2 = true ∧
    (encodeMessage none (PDescs.toParams sDesc2) p none true).toOption =
      some ([0x2E, 2, 0x4F, 0x4B, 3, 0xE2, 0x82, 0xAC, 6, 0x03, 0xA9, 0xD8, 0x3D, 0xDE, 0x00], 0) := by decide +kernel
/-- rejected with `EncodeError`: "Oé" for A_ASCIISTRING (3 bytes of UTF-8 measured, 2 bytes of ISO-8859-1 emplaced — the real code:
    `EncodeError("The value 'Oé' is too short to be encoded using 24 bits")`), eight characters for a 3-bit prefix, a lone surrogate
    for UTF-8 and for UTF-16, "Ā" for ISO-8859-1, bytes for a string -/
example : [sMk [0x4F, 0xE9] [] [], sMk [1, 2, 3, 4, 5, 6, 7, 8] [] [], sMk [] [0xD800] [], sMk [] [] [0xD800], sMk [0x100] [] [],
      .dict [("a", .atom (.bytes [0x41])), ("u", .atom (.str [])), ("w", .atom (.str []))]].all (fun p =>
      p.wfAtoms && p.typedForP sDesc2 && p.acceptedByP sDesc2 == false && decide (p.needFor sDesc2 ≤ modelFuel) &&
      errClass (encodeMessage none (PDescs.toParams sDesc2) p none true) == some .encode) = true := by decide +kernel
/-- the theorem applies -/
example : ∃ cursor, decodeMessage none (PDescs.toParams sDesc2)
      [0x2E, 2, 0x4F, 0x4B, 3, 0xE2, 0x82, 0xAC, 6, 0x03, 0xA9, 0xD8, 0x3D, 0xDE, 0x00] true =
    .ok (.dict (PDescs.complete sDesc2 [("a", .atom (.str [0x4F, 0x4B])), ("u", .atom (.str [0x20AC])), ("w", .atom (.str [0x3A9, 0x1F600]))]),
      cursor) := by
  rcases C04_nested sDesc2 sDesc2_described sDesc2_names.1 sDesc2_names.2 (sMk [0x4F, 0x4B] [0x20AC] [0x3A9, 0x1F600]) (by decide +kernel)
    none (by decide +kernel) (by decide +kernel) with ⟨e, he, _⟩ | ⟨kvs, pdu, w, hkvs, _, henc, hrt⟩
  · have : (encodeMessage none (PDescs.toParams sDesc2) (sMk [0x4F, 0x4B] [0x20AC] [0x3A9, 0x1F600]) none true).toOption = none := by
      rw [he]; rfl
    exact absurd this (by decide +kernel)
  · have h2 : (encodeMessage none (PDescs.toParams sDesc2) (sMk [0x4F, 0x4B] [0x20AC] [0x3A9, 0x1F600]) none true).toOption
        = some (pdu, w) := by rw [henc]; rfl
    have h4 : (encodeMessage none (PDescs.toParams sDesc2) (sMk [0x4F, 0x4B] [0x20AC] [0x3A9, 0x1F600]) none true).toOption
        = some ([0x2E, 2, 0x4F, 0x4B, 3, 0xE2, 0x82, 0xAC, 6, 0x03, 0xA9, 0xD8, 0x3D, 0xDE, 0x00], 0) := by decide +kernel
    rw [h2] at h4
    simp only [Option.some.injEq, Prod.mk.injEq] at h4
    obtain ⟨hp, hw⟩ := h4
    subst hp
    cases hkvs
    obtain ⟨cursor, hdec⟩ := hrt hw (fun h => by cases h)
    exact ⟨cursor, hdec⟩

/-! ## non-vacuity, MIN-MAX-LENGTH-TYPE over A_BYTEFIELD ended by the end of the PDU
    request = [ sid; a; mm : MIN-MAX-LENGTH-TYPE, MIN-LENGTH 1, MAX-LENGTH 3, TERMINATION ZERO — last parameter ] -/
def mSh : MMShape := { name := "mm", bytePos := none, enc := none, hl := true, minLen := 1, maxLen := some 3, term := .zero }
def mDesc : List PDesc := [PDesc.ofObjConst ⟨"sid", none, none, none, true, 8, .uint32⟩ (.int 0x2E), pu8 "a", PDesc.ofMinMaxLastBytes mSh]
def mMk (x : PVal) : PVal := .dict [("a", .atom (.int 7)), ("mm", x)]

theorem mDesc_described : ∀ p ∈ mDesc, DescribedP2 p := by
  intro g hg
  simp only [mDesc, List.mem_cons, List.mem_nil_iff, or_false] at hg
  rcases hg with rfl | rfl | rfl
  · exact DescribedP2.const _ _ (by simp [Obj.ok, Obj.encOk, Obj.sizeOk]) (by simp [Obj.inRange])
  · exact described_pu8' _
  · exact DescribedP2.minmaxLastBytes mSh (Or.inl rfl)

theorem mDesc_names : PDescs.namesOk mDesc ∧ PDescs.eopLast mDesc := by
  refine ⟨?_, ⟨rfl, rfl, trivial⟩⟩
  simp [PDescs.namesOk, mDesc, PDesc.name, Param.name, PDesc.ofObjConst, Obj.toConstParam, PDesc.ofMinMaxLastBytes, MMShape.leaf,
    MMLeaf.toParam, mSh, pu8, PDesc.ofObjValue, Obj.toParam]

/-- accepted (no terminator at the end of the PDU; a zero byte BEFORE MIN-LENGTH is no terminator); rejected with `EncodeError`:
    shorter than MIN-LENGTH, longer than MAX-LENGTH, a terminator inside the value, a string, omission -/
example : [mMk (.atom (.bytes [5])), mMk (.atom (.bytes [0, 1, 2]))].map (fun p =>
      (p.wfAtoms && p.typedForP mDesc && p.acceptedByP mDesc, p.endCursor mDesc,
       (encodeMessage none (PDescs.toParams mDesc) p none true).toOption)) =
    [(true, 3, some ([0x2E, 7, 5], 0)), (true, 5, some ([0x2E, 7, 0, 1, 2], 0))] := by decide +kernel
example : [mMk (.atom (.bytes [])), mMk (.atom (.bytes [1, 2, 3, 4])), mMk (.atom (.bytes [1, 0, 2])), mMk (.atom (.str [0x41])),
      .dict [("a", .atom (.int 7))]].all (fun p =>
      p.wfAtoms && p.typedForP mDesc && p.acceptedByP mDesc == false && decide (p.needFor mDesc ≤ modelFuel) &&
      errClass (encodeMessage none (PDescs.toParams mDesc) p none true) == some .encode) = true := by decide +kernel
/-- the theorem applies (the END-OF-PDU side condition holds: the encoder's cursor ends at the end of the PDU) -/
example : ∃ cursor, decodeMessage none (PDescs.toParams mDesc) [0x2E, 7, 0, 1, 2] true =
    .ok (.dict (PDescs.complete mDesc [("a", .atom (.int 7)), ("mm", .atom (.bytes [0, 1, 2]))]), cursor) := by
  rcases C04_nested mDesc mDesc_described mDesc_names.1 mDesc_names.2 (mMk (.atom (.bytes [0, 1, 2]))) (by decide +kernel) none
    (by decide +kernel) (by decide +kernel) with ⟨e, he, _⟩ | ⟨kvs, pdu, w, hkvs, _, henc, hrt⟩
  · have : (encodeMessage none (PDescs.toParams mDesc) (mMk (.atom (.bytes [0, 1, 2]))) none true).toOption = none := by rw [he]; rfl
    exact absurd this (by decide +kernel)
  · have h2 : (encodeMessage none (PDescs.toParams mDesc) (mMk (.atom (.bytes [0, 1, 2]))) none true).toOption = some (pdu, w) := by
      rw [henc]; rfl
    have h4 : (encodeMessage none (PDescs.toParams mDesc) (mMk (.atom (.bytes [0, 1, 2]))) none true).toOption
        = some ([0x2E, 7, 0, 1, 2], 0) := by decide +kernel
    rw [h2] at h4
    simp only [Option.some.injEq, Prod.mk.injEq] at h4
    obtain ⟨hp, hw⟩ := h4
    subst hp
    cases hkvs
    obtain ⟨cursor, hdec⟩ := hrt hw (fun _ => by decide +kernel)
    exact ⟨cursor, hdec⟩

/-! ## non-vacuity, MIN-MAX-LENGTH-TYPE over a string base type ended by the end of the PDU
    request = [ sid; a; ms : MIN-MAX-LENGTH-TYPE over A_UNICODE2STRING, MIN-LENGTH 2, MAX-LENGTH 6 (bytes), TERMINATION ZERO — last ] -/
def msSh : MMStrShape := { name := "ms", bytePos := none, bt := .unicode2, hl := true, minLen := 2, maxLen := some 6, term := .zero }
def msDesc : List PDesc := [PDesc.ofObjConst ⟨"sid", none, none, none, true, 8, .uint32⟩ (.int 0x2E), pu8 "a", PDesc.ofMinMaxLastStr msSh]
def msMk (x : PVal) : PVal := .dict [("a", .atom (.int 7)), ("ms", x)]

theorem msDesc_described : ∀ p ∈ msDesc, DescribedP2 p := by
  intro g hg
  simp only [msDesc, List.mem_cons, List.mem_nil_iff, or_false] at hg
  rcases hg with rfl | rfl | rfl
  · exact DescribedP2.const _ _ (by simp [Obj.ok, Obj.encOk, Obj.sizeOk]) (by simp [Obj.inRange])
  · exact described_pu8' _
  · exact DescribedP2.minmaxLastStr msSh (Or.inr (Or.inr rfl))

theorem msDesc_names : PDescs.namesOk msDesc ∧ PDescs.eopLast msDesc := by
  refine ⟨?_, ⟨rfl, rfl, trivial⟩⟩
  simp [PDescs.namesOk, msDesc, PDesc.name, Param.name, PDesc.ofObjConst, Obj.toConstParam, PDesc.ofMinMaxLastStr, MMStrShape.leaf,
    MMLeaf.toParam, msSh, pu8, PDesc.ofObjValue, Obj.toParam]

/-- accepted: "Ω"; "ΩĀA" = `03 A9 01 00 00 41` (the two zero bytes are not at an aligned position: no terminator); "ĀA" = `01 00 00 41`
    likewise.  Rejected with `EncodeError`: "Ω\0" (terminator at the aligned position 2 ≥ MIN-LENGTH), four characters (8 > 6 bytes),
    the empty string (0 < 2 bytes), a lone surrogate, bytes -/
example : [msMk (.atom (.str [0x3A9])), msMk (.atom (.str [0x3A9, 0x100, 0x41])), msMk (.atom (.str [0x100, 0x41]))].map (fun p =>
      (p.wfAtoms && p.typedForP msDesc && p.acceptedByP msDesc, (encodeMessage none (PDescs.toParams msDesc) p none true).toOption)) =
    [(true, some ([0x2E, 7, 0x03, 0xA9], 0)), (true, some ([0x2E, 7, 0x03, 0xA9, 1, 0, 0, 0x41], 0)),
     (true, some ([0x2E, 7, 1, 0, 0, 0x41], 0))] := by decide +kernel
example : [msMk (.atom (.str [0x3A9, 0])), msMk (.atom (.str [1, 2, 3, 4])), msMk (.atom (.str [])), msMk (.atom (.str [0xD800])),
      msMk (.atom (.bytes [1, 2]))].all (fun p =>
      p.wfAtoms && p.typedForP msDesc && p.acceptedByP msDesc == false && decide (p.needFor msDesc ≤ modelFuel) &&
      errClass (encodeMessage none (PDescs.toParams msDesc) p none true) == some .encode) = true := by decide +kernel
/-- the theorem applies -/
example : ∃ cursor, decodeMessage none (PDescs.toParams msDesc) [0x2E, 7, 0x03, 0xA9, 1, 0, 0, 0x41] true =
    .ok (.dict (PDescs.complete msDesc [("a", .atom (.int 7)), ("ms", .atom (.str [0x3A9, 0x100, 0x41]))]), cursor) := by
  rcases C04_nested msDesc msDesc_described msDesc_names.1 msDesc_names.2 (msMk (.atom (.str [0x3A9, 0x100, 0x41]))) (by decide +kernel) none
    (by decide +kernel) (by decide +kernel) with ⟨e, he, _⟩ | ⟨kvs, pdu, w, hkvs, _, henc, hrt⟩
  · have : (encodeMessage none (PDescs.toParams msDesc) (msMk (.atom (.str [0x3A9, 0x100, 0x41]))) none true).toOption = none := by
      rw [he]; rfl
    exact absurd this (by decide +kernel)
  · have h2 : (encodeMessage none (PDescs.toParams msDesc) (msMk (.atom (.str [0x3A9, 0x100, 0x41]))) none true).toOption = some (pdu, w) := by
      rw [henc]; rfl
    have h4 : (encodeMessage none (PDescs.toParams msDesc) (msMk (.atom (.str [0x3A9, 0x100, 0x41]))) none true).toOption
        = some ([0x2E, 7, 0x03, 0xA9, 1, 0, 0, 0x41], 0) := by decide +kernel
    rw [h2] at h4
    simp only [Option.some.injEq, Prod.mk.injEq] at h4
    obtain ⟨hp, hw⟩ := h4
    subst hp
    cases hkvs
    obtain ⟨cursor, hdec⟩ := hrt hw (fun _ => by decide +kernel)
    exact ⟨cursor, hdec⟩

/-! ## the round-6 kinds outside the value-free class
    DYNAMIC-ENDMARKER-FIELD, MATCHING-REQUEST-PARAM and MIN-MAX-LENGTH leaves that are not the last parameter (terminator written
    iff `is_end_of_pdu` is cleared) have
    components relative to the encoder STATE (`OkM` / `TopInv` of `Proofs/CompExt*.lean`), which an acceptance function
    `Option PVal → Option Comp` does not see; for them: the positive direction is `C01_roundtrip_nested2`
    (`Props/C01Nested2.lean`, with `EmLayout.miss` for every item of an end-marker field), the negative facts are below. -/

/-- **DYNAMIC-ENDMARKER-FIELD without `EmLayout.miss`: accepted, and decoded to something else** (open finding
    `end-marker-item-collision`).  `[sid; em : DYNAMIC-ENDMARKER-FIELD (termination value 0xFF, one byte) of { id : 8 bit }]`:
    the items `[1, 0xFF, 2]` are accepted without warning (`2E 01 FF 02`); the decoder stops at the second item, which starts with
    the termination value, and returns `[1]` (cursor 2 of 4) — the hypothesis `l.miss` of `Described2.endMarkerEop` /
    `C01_roundtrip_nested2` cannot be dropped, and the encoder's acceptance does not imply it. -/
def emParams : List Param :=
  [(pu8 "sid").param,
   .mk "em" none none (.value (.endMarkerField (.int 0xFF) (.simple (.std .uint32 none true 8 none false) .uint32 .identical)
     (.struct none [(pu8 "id").param])) none)]
def emVal (ids : List Int) : PVal :=
  .dict [("sid", .atom (.int 0x2E)), ("em", .list (ids.map fun i => .dict [("id", .atom (.int i))]))]
theorem C04_endmarker_collision_counterexample :
    (encodeMessage none emParams (emVal [1, 0xFF, 2]) none true).toOption = some ([0x2E, 1, 0xFF, 2], 0) ∧
    (match decodeMessage none emParams [0x2E, 1, 0xFF, 2] true with
      | .ok (v, cursor) => pvalEq v (emVal [1]) && cursor == 2
      | .error _ => false) = true ∧
    -- without the colliding item the round trip holds
    (encodeMessage none emParams (emVal [1, 2]) none true).toOption = some ([0x2E, 1, 2], 0) ∧
    (match decodeMessage none emParams [0x2E, 1, 2] true with
      | .ok (v, cursor) => pvalEq v (emVal [1, 2]) && cursor == 3
      | .error _ => false) = true := by decide +kernel

/-- **MATCHING-REQUEST-PARAM**: `[sid; echo : MATCHING-REQUEST-PARAM (request bytes 1–2)]` — rejected with `EncodeError` without a
    triggering request and with one that is too short (`encodeParam_matchingReq_rej` is the general statement), accepted with
    the echoed bytes otherwise -/
example : let ps : List Param := [(pu8 "sid").param, .mk "echo" none none (.matchingReq 1 2)]
    let pv : PVal := .dict [("sid", .atom (.int 0x62))]
    [none, some [0x22], some [0x22, 0xF1]].all (fun t => errClass (encodeMessage none ps pv t true) == some .encode) = true ∧
    (encodeMessage none ps pv (some [0x22, 0xF1, 0x90]) true).toOption = some ([0x62, 0xF1, 0x90], 0) := by decide +kernel

end OdxVerif.Codec
