import OdxVerif.Props.C04Nested2
import OdxVerif.Proofs.CompCompu3RejectKinds
/-! # C04 on the compositional nested tier, third part (task W24): VALUE parameters over **conversion DOPs** (compu-method
    DOPs, DTC-DOPs) as leaves — class `DescribedP3` (`Proofs/CompCompu3RejectDescribed.lean`): `DescribedP2` plus `PDesc.ofConv`
    leaves at any depth of structures (with or without BYTE-SIZE) ∘ fields ∘ multiplexers.  (Separate file; imported nowhere.)

    A conversion leaf comes with its **conversion specification** `ConvSpec` (`conv x = some (decoded value, internal value)`
    or `none`; `typed`) and the refinement statement `ConvSpec.Ok` against the model: accepted ⇒ the conversion facts `ConvOk`
    (strict `encodeDop` hands exactly the internal value to the diag-coded type, the decoder maps it to the decoded value);
    not accepted ⇒ strict `encodeDop` ends in `EncodeError` / `OdxError` (or `unmodelled` where `typed` is false).
    `ConvSpec.Ok` is PROVED for
    * **DTC-DOPs** with the IDENTICAL method (`DtcShape.spec_ok`: DTC object / trouble code / short name; unknown name, ambiguous
      name, unknown code, a code the object cannot hold, any value of another type: `EncodeError`; hypothesis: no trouble code
      listed twice — otherwise encode succeeds and decode fails, `C04_dtc_duplicate_code_counterexample`);
    * **LINEAR and TEXTTABLE DOPs** over an integer object (`CompuShape.spec_ok`, `Proofs/CompCompu3RejectKinds.lean`): the
      model's conversion layer is state-free and fails only with EncodeError / OdxError / `unmodelled` (`dopP2I_plain`); a
      supplied atom is accepted iff the conversion returns an internal value the object can hold; everything else — invalid
      physical value (out of the limits), unknown / ambiguous text, wrong type, `bytes`, non-atoms, an internal value the
      object cannot hold — is rejected with a library error; `typed` is false exactly where the conversion ends in
      `unmodelled` (outside the exactness guard, ill-formed strings, non-finite floats).  Two hypotheses on the description
      (`CompuShape.ok`): the internal values are integers, and every internal value the encoder produces is one the decoder
      converts back — decidable for a TEXTTABLE (`CompuShape.ok_of_ttCheck`: the finitely many COMPU-INVERSE-VALUEs / limits)
      and for a LINEAR method over a small unsigned object (`CompuShape.ok_of_linCheck`: enumeration of the object's range).
    `_partial`: for a LINEAR method over a wide or signed object the second hypothesis stays a hypothesis (it needs the
    exactness argument over the whole range); float internal / physical types and the other compu categories are outside.
    **What "decodes back" means at a LINEAR leaf**: the completion `PDescs.complete` holds what the DECODER returns — for a
    physical value that is not in the image of the conversion that is the ROUNDED value (t = 1 over phys = −40 + 2·i is
    encoded as i = 20 and decodes to 0; model = odxtools: `1405` ↦ {t: 0}): the encoder rounds to the nearest internal value
    without an error.  Inherent to an integer internal type; listed as an observation in design_notes/C04.md (W24). -/
namespace OdxVerif.Codec
open OdxVerif.Bits OdxVerif.OdxM

/- Full statement for this tier: `C04_nested` with `DescribedP3` where every conversion leaf is a LINEAR / TEXTTABLE / DTC DOP
   given by its description alone.  Proved: the statement for conversion leaves with a `ConvSpec.Ok` (discharged for DTC-DOPs). -/

/-- **C04, nested tier, conversion leaves.**  Statement of `C04_nested` (`Props/C04Nested2.lean`) for `DescribedP3`. -/
theorem C04_nested3_partial (ps : List PDesc) (hd : ∀ p ∈ ps, DescribedP3 p) (hn : PDescs.namesOk ps) (hl : PDescs.eopLast ps)
    (pv : PVal) (hwf : pv.wfAtoms = true) (trig : Option Bytes) (hneed : pv.needFor ps ≤ modelFuel)
    (hty : pv.typedForP ps = true) :
    (∃ e, encodeMessage none (PDescs.toParams ps) pv trig true = .error e ∧ (e = .encode ∨ e = .odx)) ∨
    ∃ (kvs : List (String × PVal)) (pdu : Bytes) (w : Nat), pv = .dict kvs ∧ pv.acceptedByP ps = true ∧
      encodeMessage none (PDescs.toParams ps) pv trig true = .ok (pdu, w) ∧
      (w = 0 → (PDescs.anyEop ps = true → pv.endCursor ps = pdu.length) →
        ∃ cursor, decodeMessage none (PDescs.toParams ps) pdu true = .ok (.dict (PDescs.complete ps kvs), cursor)) := by
  rcases encodeMessage_nested2_cases ps (fun p hp => (hd p hp).okW) hn hl pv hwf trig hneed with
    ⟨_, e, hrun, he⟩ | ⟨c, hf, hc, pdu, w, hrun, hrt⟩
  · rcases he with he | ⟨_, hff⟩
    · exact Or.inl ⟨e, hrun, he⟩
    · rw [PVal.typedForP] at hty; rw [hty] at hff; cases hff
  · obtain ⟨kvs, rfl⟩ := DDesc.struct_fill_dict ps pv c hf
    refine Or.inr ⟨kvs, pdu, w, rfl, by simp [PVal.acceptedByP, hf], hrun, ?_⟩
    intro hw hend
    exact hrt hw (fun he => by
      have := hend (hc.eop he)
      simpa [PVal.endCursor, hf] using this)

/-- **accepted ⇔ acceptable** for `DescribedP3` (as `C04_nested_accepts_iff2`) -/
theorem C04_nested3_accepts_iff (ps : List PDesc) (hd : ∀ p ∈ ps, DescribedP3 p) (hn : PDescs.namesOk ps)
    (hl : PDescs.eopLast ps) (pv : PVal) (hwf : pv.wfAtoms = true) (trig : Option Bytes) (hneed : pv.needFor ps ≤ modelFuel) :
    (∃ r, encodeMessage none (PDescs.toParams ps) pv trig true = .ok r) ↔ pv.acceptedByP ps = true := by
  rcases encodeMessage_nested2_cases ps (fun p hp => (hd p hp).okW) hn hl pv hwf trig hneed with
    ⟨hf, e, hrun, _⟩ | ⟨c, hf, _, pdu, w, hrun, _⟩
  · rw [hrun, PVal.acceptedByP, hf]
    constructor
    · rintro ⟨r, h⟩; cases h
    · intro h; cases h
  · rw [hrun, PVal.acceptedByP, hf]
    exact ⟨fun _ => rfl, fun _ => ⟨_, rfl⟩⟩

/-! ## non-vacuity: [ sid = 0x22 (CODED-CONST); st : STRUCTURE { err : DTC-DOP, 24 bit, DTCs {0x123456 "P1234", 0x10 "Low"}; n : u8 } ] -/
def cErr : DtcShape :=
  { o := ⟨"err", none, none, none, true, 24, .uint32⟩, phys := .uint32, dtcs := [(0x123456, "P1234"), (0x10, "Low")],
    ity := .uint32, pty := .uint32 }
theorem cErr_ok : cErr.ok :=
  ⟨by simp [cErr, Obj.ok, Obj.encOk, Obj.sizeOk], Or.inr rfl, rfl, rfl, by decide, by decide⟩
def cDesc : List PDesc :=
  [PDesc.ofObjConst ⟨"sid", none, none, none, true, 8, .uint32⟩ (.int 0x22),
   PDesc.ofValue "st" none (DDesc.struct [cErr.pdesc, pu8 "n"])]

theorem cDesc_described : ∀ p ∈ cDesc, DescribedP3 p := by
  refine pforall2 _ _ (.old _ (DescribedP2.const _ _ (by simp [Obj.ok, Obj.encOk, Obj.sizeOk]) (by simp [Obj.inRange]))) ?_
  exact DescribedP3.struct "st" none _ (pforall2 _ _ (cErr.described cErr_ok) (.old _ (described_pu8' "n")))
    (pnamesOk2 _ _ (by decide)) ⟨rfl, trivial⟩

theorem cDesc_names : PDescs.namesOk cDesc ∧ PDescs.eopLast cDesc :=
  ⟨pnamesOk2 _ _ (by decide), ⟨rfl, trivial⟩⟩

def cMk (err : PVal) : PVal := .dict [("st", .dict [("err", err), ("n", .atom (.int 5))])]

/-- accepted: the DTC object, the trouble code, the short name — all three give `22 12 34 56 05`, decoded with the DTC object -/
example : [cMk (.dtc 0x123456), cMk (.atom (.int 0x123456)), cMk (.atom (.str [0x50, 0x31, 0x32, 0x33, 0x34]))].map (fun p =>
      (p.wfAtoms && p.typedForP cDesc && p.acceptedByP cDesc, (encodeMessage none (PDescs.toParams cDesc) p none true).toOption)) =
    [(true, some ([0x22, 0x12, 0x34, 0x56, 5], 0)), (true, some ([0x22, 0x12, 0x34, 0x56, 5], 0)),
     (true, some ([0x22, 0x12, 0x34, 0x56, 5], 0))] := by decide +kernel
example : pvalEq (.dict (PDescs.complete cDesc [("st", .dict [("err", .atom (.str [0x50, 0x31, 0x32, 0x33, 0x34])), ("n", .atom (.int 5))])]))
    (.dict [("sid", .atom (.int 0x22)), ("st", .dict [("err", .dtc 0x123456), ("n", .atom (.int 5))])]) = true := by decide +kernel

/-- rejected, each with `EncodeError`: unknown short name, unknown code, a `bytes` value, a float, a list, nothing at all -/
example : [cMk (.atom (.str [0x50])), cMk (.atom (.int 7)), cMk (.dtc 7), cMk (.atom (.bytes [0x12, 0x34, 0x56])),
      cMk (.atom (.flt 0)), cMk (.list []), .dict [("st", .dict [("n", .atom (.int 5))])]].all (fun p =>
      p.wfAtoms && p.typedForP cDesc && decide (p.needFor cDesc ≤ modelFuel) && p.acceptedByP cDesc == false &&
      errClass (encodeMessage none (PDescs.toParams cDesc) p none true) == some .encode) = true := by decide +kernel

/-- the theorem applies: the PDU of the short-name value decodes to its completion (with the DTC object) -/
example : ∃ cursor, decodeMessage none (PDescs.toParams cDesc) [0x22, 0x12, 0x34, 0x56, 5] true =
    .ok (.dict (PDescs.complete cDesc [("st", .dict [("err", .atom (.str [0x50, 0x31, 0x32, 0x33, 0x34])), ("n", .atom (.int 5))])]),
      cursor) := by
  rcases C04_nested3_partial cDesc cDesc_described cDesc_names.1 cDesc_names.2 (cMk (.atom (.str [0x50, 0x31, 0x32, 0x33, 0x34])))
    (by decide +kernel) none (by decide +kernel) (by decide +kernel) with ⟨e, he, _⟩ | ⟨kvs, pdu, w, hkvs, _, henc, hrt⟩
  · have : (encodeMessage none (PDescs.toParams cDesc) (cMk (.atom (.str [0x50, 0x31, 0x32, 0x33, 0x34]))) none true).toOption = none := by
      rw [he]; rfl
    exact absurd this (by decide +kernel)
  · have h2 : (encodeMessage none (PDescs.toParams cDesc) (cMk (.atom (.str [0x50, 0x31, 0x32, 0x33, 0x34]))) none true).toOption
        = some (pdu, w) := by rw [henc]; rfl
    have h4 : (encodeMessage none (PDescs.toParams cDesc) (cMk (.atom (.str [0x50, 0x31, 0x32, 0x33, 0x34]))) none true).toOption
        = some ([0x22, 0x12, 0x34, 0x56, 5], 0) := by decide +kernel
    rw [h2] at h4
    simp only [Option.some.injEq, Prod.mk.injEq] at h4
    obtain ⟨hp, hw⟩ := h4
    subst hp
    cases hkvs
    obtain ⟨cursor, hdec⟩ := hrt hw (fun h => by cases h)
    exact ⟨cursor, hdec⟩

/-- **the hypothesis "no trouble code listed twice" (`DtcShape.ok`) cannot be dropped**: DTCs {4 "A", 4 "B", 5 "C"}: strict encode
    accepts the code 4 (`22 00 00 04`, no warning) and strict decode of that PDU fails ("Multiple matching DTCs", an `odxassert`:
    plain OdxError) — the encoder emitted a PDU that does not decode back (model = odxtools). -/
theorem C04_dtc_duplicate_code_counterexample :
    let ps : List Param := [.mk "sid" none none (.codedConst (.std .uint32 none true 8 none false) (.int 0x22)),
      .mk "x" none none (.value (.dtc (.std .uint32 none true 24 none false) .uint32 .identical [(4, "A"), (4, "B"), (5, "C")]) none)]
    (encodeMessage none ps (.dict [("x", .atom (.int 4))]) none true).toOption = some ([0x22, 0, 0, 4], 0) ∧
    errClass (decodeMessage none ps [0x22, 0, 0, 4] true) = some .odx := by
  constructor <;> decide +kernel

/-! ## non-vacuity, TEXTTABLE and LINEAR:
    [ sid = 0x22; st : STRUCTURE { mode : TEXTTABLE u8, 0..3 ↦ "lo", 4..9 ↦ "hi" (COMPU-INVERSE-VALUE 9);
                                   t : LINEAR u8, phys = −40 + 2·i, i ∈ [0, 200] } ] -/
def tScales : List Compu.Scale :=
  [{ lo := some { value := some (.int 0), itype := none }, hi := some { value := some (.int 3), itype := none },
     inv := none, const := some (.str "lo") },
   { lo := some { value := some (.int 4), itype := none }, hi := some { value := some (.int 9), itype := none },
     inv := some (.int 9), const := some (.str "hi") }]
def tTScales : List TScale :=
  [{ lo := .int 0, hi := .int 3, text := [0x6c, 0x6f], inv := none }, { lo := .int 4, hi := .int 9, text := [0x68, 0x69], inv := some (.int 9) }]
def tMode : CompuShape :=
  { o := ⟨"mode", none, none, none, true, 8, .uint32⟩, phys := .unicode2, cm := .texttable tTScales,
    m := .textTable .uint32 .str tScales none none }
def tLinD : LinDesc := { num0 := -40, num1 := 2, den := 1, lower := some (0, false), upper := some (200, false) }
def tLinSeg : Compu.LinSeg :=
  { offset := -40, factor := 2, denom := 1, ilo := some ⟨some (.int 0), some .closed⟩, ihi := some ⟨some (.int 200), some .closed⟩,
    inv := .int 0, ity := .uint32, pty := .int32, plo := some ⟨some (.int (-40)), some .closed⟩, phi := some ⟨some (.int 360), some .closed⟩ }
def tTemp : CompuShape :=
  { o := ⟨"t", none, none, none, true, 8, .uint32⟩, phys := .int32, cm := .linear tLinD, m := .linear tLinSeg }

theorem tMode_ok : tMode.ok :=
  tMode.ok_of_ttCheck .uint32 .str tScales none none rfl (by simp [tMode, Obj.ok, Obj.encOk, Obj.sizeOk]) (Or.inr rfl) rfl
    (by decide +kernel) (by decide +kernel)
theorem tTemp_ok : tTemp.ok :=
  tTemp.ok_of_linCheck tLinSeg rfl rfl (by decide +kernel) (by simp [tTemp, Obj.ok, Obj.encOk, Obj.sizeOk]) rfl rfl
    (by decide +kernel) (by decide +kernel)

def tDesc : List PDesc :=
  [PDesc.ofObjConst ⟨"sid", none, none, none, true, 8, .uint32⟩ (.int 0x22),
   PDesc.ofValue "st" none (DDesc.struct [tMode.pdesc, tTemp.pdesc])]
theorem tDesc_described : ∀ p ∈ tDesc, DescribedP3 p := by
  refine pforall2 _ _ (.old _ (DescribedP2.const _ _ (by simp [Obj.ok, Obj.encOk, Obj.sizeOk]) (by simp [Obj.inRange]))) ?_
  exact DescribedP3.struct "st" none _ (pforall2 _ _ (tMode.described tMode_ok) (tTemp.described tTemp_ok))
    (pnamesOk2 _ _ (by decide)) ⟨rfl, trivial⟩
theorem tDesc_names : PDescs.namesOk tDesc ∧ PDescs.eopLast tDesc := ⟨pnamesOk2 _ _ (by decide), ⟨rfl, trivial⟩⟩

def tMk (m t : PVal) : PVal := .dict [("st", .dict [("mode", m), ("t", t)])]
def tHi : PVal := .atom (.str [0x68, 0x69])

/-- accepted: "hi" ↦ 9, "lo" ↦ 0; 360 ↦ 200, 0 ↦ 20 — and 1 ↦ 20 as well (rounded: the completion holds 0) -/
example : [tMk tHi (.atom (.int 360)), tMk (.atom (.str [0x6c, 0x6f])) (.atom (.int 0)), tMk tHi (.atom (.int 1))].map (fun p =>
      (p.wfAtoms && p.typedForP tDesc && p.acceptedByP tDesc, (encodeMessage none (PDescs.toParams tDesc) p none true).toOption)) =
    [(true, some ([0x22, 9, 200], 0)), (true, some ([0x22, 0, 20], 0)), (true, some ([0x22, 9, 20], 0))] := by decide +kernel
example : pvalEq (.dict (PDescs.complete tDesc [("st", .dict [("mode", tHi), ("t", .atom (.int 1))])]))
    (.dict [("sid", .atom (.int 0x22)), ("st", .dict [("mode", tHi), ("t", .atom (.int 0))])]) = true := by decide +kernel

/-- rejected, each with `EncodeError` (model = odxtools, run on /repo): unknown text, an int / bytes / float / list for the
    TEXTTABLE; 362 and −42 (outside the physical limits), a string / float / bytes / list for the LINEAR leaf; nothing at all -/
example : [tMk (.atom (.str [0x78])) (.atom (.int 0)), tMk (.atom (.int 5)) (.atom (.int 0)), tMk (.atom (.bytes [1])) (.atom (.int 0)),
      tMk (.atom (.flt 0)) (.atom (.int 0)), tMk (.list []) (.atom (.int 0)),
      tMk tHi (.atom (.int 362)), tMk tHi (.atom (.int (-42))), tMk tHi (.atom (.str [0x31])), tMk tHi (.atom (.flt 0)),
      tMk tHi (.atom (.bytes [1])), tMk tHi (.list []), .dict [("st", .dict [("mode", tHi)])]].all (fun p =>
      p.wfAtoms && p.typedForP tDesc && decide (p.needFor tDesc ≤ modelFuel) && p.acceptedByP tDesc == false &&
      errClass (encodeMessage none (PDescs.toParams tDesc) p none true) == some .encode) = true := by decide +kernel

/-- the `typedForP` hypothesis is what it excludes: a string that is no sequence of Unicode scalar values (lone surrogate) —
    `unmodelled` in the model's conversion layer -/
example : let p := tMk (.atom (.str [0xD800])) (.atom (.int 0))
    p.wfAtoms = true ∧ p.typedForP tDesc = false ∧
    errClass (encodeMessage none (PDescs.toParams tDesc) p none true) = some .unmodelled := by decide +kernel

/-- the theorem applies: the PDU of ("hi", 360) decodes to its completion -/
example : ∃ cursor, decodeMessage none (PDescs.toParams tDesc) [0x22, 9, 200] true =
    .ok (.dict (PDescs.complete tDesc [("st", .dict [("mode", tHi), ("t", .atom (.int 360))])]), cursor) := by
  rcases C04_nested3_partial tDesc tDesc_described tDesc_names.1 tDesc_names.2 (tMk tHi (.atom (.int 360)))
    (by decide +kernel) none (by decide +kernel) (by decide +kernel) with ⟨e, he, _⟩ | ⟨kvs, pdu, w, hkvs, _, henc, hrt⟩
  · have : (encodeMessage none (PDescs.toParams tDesc) (tMk tHi (.atom (.int 360))) none true).toOption = none := by rw [he]; rfl
    exact absurd this (by decide +kernel)
  · have h2 : (encodeMessage none (PDescs.toParams tDesc) (tMk tHi (.atom (.int 360))) none true).toOption = some (pdu, w) := by
      rw [henc]; rfl
    have h4 : (encodeMessage none (PDescs.toParams tDesc) (tMk tHi (.atom (.int 360))) none true).toOption
        = some ([0x22, 9, 200], 0) := by decide +kernel
    rw [h2] at h4
    simp only [Option.some.injEq, Prod.mk.injEq] at h4
    obtain ⟨hp, hw⟩ := h4
    subst hp
    cases hkvs
    obtain ⟨cursor, hdec⟩ := hrt hw (fun h => by cases h)
    exact ⟨cursor, hdec⟩

end OdxVerif.Codec
