import OdxVerif.Proofs.CompKeyNest
import OdxVerif.Proofs.CompKeyLinear
/-! # C01, LENGTH-KEY tier — the round trip through the TWO-PASS encoder
    (LENGTH-KEY parameters + PARAM-LENGTH-INFO-TYPE objects).  (Separate file; imported nowhere.) -/
namespace OdxVerif.Codec
open OdxVerif.Bits OdxVerif.OdxM

/- Full statement of C01 (not yet a theorem, see `Props/C01.lean`):
   ∀ ps v trig pdu, wf ps → canon ps v → encodeMessage ps v trig true = .ok (pdu, 0) →
     decodeMessage ps pdu true = .ok (complete ps v trig, pdu.length)
   Proved here: the instance where the parameters of the request / response / structure are *items* (`KItem`):
   components of the nested tier that do not touch the key dictionaries, LENGTH-KEY parameters and PARAM-LENGTH-INFO-TYPE
   users.  `Comps.values (KItems.comps its)` is `v`, `(Comps.pair (KItems.comps its)).val` is `complete ps v trig` (the keys
   with the bit lengths).  Still missing relative to the full statement (for this construct): keys behind a TEXTTABLE / other
   compu method or with a signed / BCD coded type, PARAM-LENGTH-INFO-TYPE objects of ZERO bits of a numeric type
   (A_UINT32 value 0 with the key omitted; the empty byte field / string is covered), users that refer to a key of an
   ENCLOSING structure, key structures as items of fields (the dictionaries are global to the PDU in the model as in
   odxtools: every item would have to carry the same lengths), key structures with BYTE-SIZE, and "consumes the whole PDU". -/

/-- **C01, LENGTH-KEY tier.**  A request / response / structure whose parameters `its` are, in any order,
    * **components** (`KItem.comp g touched` with `g.KOk W touched`, `Proofs/CompKeyItems.lean`), of two kinds:
      (a) `Comp.KOk.ofKeyFree`: every `g.Ok ∧ g.EndOk` component — everything `C01_roundtrip_nested` covers: leaves, structures,
      fields, multiplexers in any nesting — that neither reads nor writes the key dictionaries (`g.KeyFree`; by
      `Comp.keyFree_of_noKeys` this follows from the decidable syntactic check `g.param.noKeys = true`: no LENGTH-KEY
      parameter and no PARAM-LENGTH-INFO-TYPE diag-coded type anywhere inside — `encKeeps` / `decKeeps`: on such a
      description NO function of the model touches the dictionaries); `touched = []`;
      (b) `Comp.kstruct_kok`: a VALUE parameter typed by a STRUCTURE whose parameters are again such items with LENGTH-KEYs of
      their own (`Comp.kstruct name bp its'`, satisfying the hypotheses of this theorem for the same `W`) — to any depth;
      `touched` = the key names inside;
    * **LENGTH-KEY parameters** (`KItem.key kd o v i supplied`) whose DOP `kd` occupies an `A_UINT32` standard-length object `o`
      of 1 … 64 bits at ANY byte position (explicit or behind its predecessor) and ANY bit position, either byte order
      (`KeyDop kd o v i`, `Proofs/CompKeyLeaves.lean`): `v` is the key's final value = the bit length, `i` the coded value
      that goes on the wire, which the object can hold (`0 ≤ i < 2^BIT-LENGTH` — the strict encoder rejects everything
      else).  Two instances: `KeyDop.identical` (IDENTICAL compu method, `i = v`) and `KeyDop.linear` (`Proofs/CompKeyLinear.lean`:
      a LINEAR compu method with integer coefficients — the usual key that counts BYTES, `v = 8·i` — where the checks of
      `encode_placeholder_into_pdu` and of fix 069655f in `encode_value_into_pdu` ("the length key is able to represent it")
      pass: `validP v`, `p2i v = i`, `validI i`, `i2p i = v` and the exactness guards, all decided by evaluation);
      `supplied`: the caller specifies the key (then with the value `v`) or omits it;
    * **VALUE parameters over a PARAM-LENGTH-INFO-TYPE DOP**, identical compu method:
      `KItem.user u` — `A_BYTEFIELD` or a string type without BASE-TYPE-ENCODING, byte aligned, of ANY length incl. zero,
      whose payload `u.raw` is what the codec puts on the wire for the value `u.v` (`Payload`) and whose bit length is what
      `ParamLengthInfoType.encode_into_pdu` derives (`plBits`);
      `KItem.ouser o v key` — an object of ANY of the nine leaf kinds (`Obj`: A_INT32 ×4 encodings, A_UINT32, BCD, A_FLOAT32/64,
      A_BYTEFIELD, the three string types; any bit position, byte order) whose size `o.bl ≥ 1` is what the key says, with a
      value the object can hold (`o.inRange v`),
    such that (`refsOk W [] [] its`) every user refers to a LENGTH-KEY of the SAME structure that is listed BEFORE it and the
    key's value `W key` is the user's bit length (several users may share a key: they then have equal lengths); an object
    user whose size is not what the encoder would derive from its value (`plDerived`: a 16-bit A_UINT32 holding 5) refers to
    a key that is known when the encoder reaches it (specified, or derived for an earlier user); an omitted key is referred
    to by some user (`covered`); sibling names are distinct; no LATER parameter touches the recorded position of a key
    (`apart`: the key names inside a later nested key structure differ from it — `length_keys` / `key_pos` are global to the
    PDU and keyed by short name, in the model as in odxtools; for the same reason `W` is ONE assignment for all levels: a key
    name that occurs at two levels stands for the same bit length).
    The first encoding loop writes a placeholder for each key — it claims NO bit —, the users claim theirs, the second loop
    writes each key's value into the bits nobody claimed.  If strict `encode` of the supplied dictionary (the users' values,
    the keys only if `supplied`) returns a PDU without an overlap warning, strict `decode` of that PDU returns the
    completed dictionary: an entry for every parameter, every key with its bit length.  (`hend`: as in
    `C01_roundtrip_nested`, for a last component that needs the end of the PDU.  Size bound = the model's fuel.) -/
theorem C01_roundtrip_lengthkey (W : String → Option Int) (its : List KItem) (hok : ∀ it ∈ its, it.ok W)
    (hneed : Comps.need (KItems.comps its) + 2 ≤ modelFuel) (hn : Comps.namesOk (KItems.comps its))
    (hlast : Comps.eopLast (KItems.comps its)) (hap : KItems.apart its) (hrefs : KItems.refsOk W [] [] its)
    (hcov : KItems.covered its)
    (trig : Option Bytes) (pdu : Bytes)
    (hend : Comps.anyEop (KItems.comps its) = true → ((Comps.pair (KItems.comps its)).enc {}).cursorByte = pdu.length)
    (henc : encodeMessage none (Comps.toParams (KItems.comps its)) (.dict (Comps.values (KItems.comps its))) trig true
      = .ok (pdu, 0)) :
    ∃ cursor, decodeMessage none (Comps.toParams (KItems.comps its)) pdu true =
      .ok (.dict (Comps.pair (KItems.comps its)).val, cursor) :=
  kitems_roundtrip_msg W its hneed hok hlast hn hap hrefs hcov trig pdu hend henc

/-! ### non-vacuity
    request = [ sid (CODED-CONST 0x2E, omitted);
                k : LENGTH-KEY, 8 bits at BIT-POSITION 4 (it straddles bytes 1 and 2), omitted or specified;
                n : LENGTH-KEY, 8 bits, specified (16);
                d : VALUE over PARAM-LENGTH-INFO-TYPE A_BYTEFIELD with key k, 3 bytes;
                w : VALUE over PARAM-LENGTH-INFO-TYPE A_UINT32 with key n, value 5 in 16 bits (not what the encoder would derive: n must be given);
                st : STRUCTURE { a : 8 bits; b : A_INT32 16 bits }  (a component; key-free by the syntactic criterion);
                y : VALUE, 8 bits ] -/
def lkExKeyObj : Obj := ⟨"k", none, some 4, none, true, 8, .uint32⟩
def lkExKeyObjN : Obj := ⟨"n", none, none, none, true, 8, .uint32⟩
def lkExUser : PLUser :=
  { name := "d", bytePos := none, key := "k", bt := .bytefield, hl := true, v := .bytes [0xDE, 0xAD, 0xBE], raw := [0xDE, 0xAD, 0xBE] }
def lkExObjUser : Obj := ⟨"w", none, none, none, true, 16, .uint32⟩
def lkExStructKids : List Comp :=
  [Comp.ofObjValue ⟨"a", none, none, none, true, 8, .uint32⟩ (.int 7), Comp.ofObjValue ⟨"b", none, none, none, true, 16, .int32⟩ (.int 0x1234)]
def lkExStruct : Comp := Comp.ofValue "st" none (DComp.struct lkExStructKids)
def lkExKeyItems (supplied : Bool) : List KItem :=
  [.comp (Comp.ofObjConst ⟨"sid", none, none, none, true, 8, .uint32⟩ (.int 0x2E) false) [],
   .key lkExKeyObj.keyDop lkExKeyObj 24 24 supplied, .key lkExKeyObjN.keyDop lkExKeyObjN 16 16 true, .user lkExUser, .ouser lkExObjUser (.int 5) "n", .comp lkExStruct [],
   .comp (Comp.ofObjValue ⟨"y", none, none, none, true, 8, .uint32⟩ (.int 0x77)) []]
def lkExW : String → Option Int := fun n => if n = "k" then some 24 else if n = "n" then some 16 else none

/-- the parameters: the keys are LENGTH-KEY parameters, the diag-coded types of `d` and `w` refer to them by name -/
example : Comps.toParams (KItems.comps (lkExKeyItems false)) =
    [.mk "sid" none none (.codedConst (.std .uint32 none true 8 none false) (.int 0x2E)),
     .mk "k" none (some 4) (.lengthKey (.simple (.std .uint32 none true 8 none false) .uint32 .identical)),
     .mk "n" none none (.lengthKey (.simple (.std .uint32 none true 8 none false) .uint32 .identical)),
     .mk "d" none none (.value (.simple (.paramLen .bytefield none true "k") .bytefield .identical) none),
     .mk "w" none none (.value (.simple (.paramLen .uint32 none true "n") .uint32 .identical) none),
     .mk "st" none none (.value (.struct none
       [.mk "a" none none (.value (.simple (.std .uint32 none true 8 none false) .uint32 .identical) none),
        .mk "b" none none (.value (.simple (.std .int32 none true 16 none false) .int32 .identical) none)]) none),
     .mk "y" none none (.value (.simple (.std .uint32 none true 8 none false) .uint32 .identical) none)] := rfl
/-- the supplied values: no entry for `sid` and none for the key `k` -/
example : Comps.values (KItems.comps (lkExKeyItems false)) =
    [("n", .atom (.int 16)), ("d", .atom (.bytes [0xDE, 0xAD, 0xBE])), ("w", .atom (.int 5)),
     ("st", .dict [("a", .atom (.int 7)), ("b", .atom (.int 0x1234))]), ("y", .atom (.int 0x77))] := rfl
/-- … or `k` is specified, consistently -/
example : Comps.values (KItems.comps (lkExKeyItems true)) =
    [("k", .atom (.int 24)), ("n", .atom (.int 16)), ("d", .atom (.bytes [0xDE, 0xAD, 0xBE])), ("w", .atom (.int 5)),
     ("st", .dict [("a", .atom (.int 7)), ("b", .atom (.int 0x1234))]), ("y", .atom (.int 0x77))] := rfl
/-- the decoded values: every parameter, the key `k` with the bit length of `d` -/
example (b : Bool) : (Comps.pair (KItems.comps (lkExKeyItems b))).val =
    [("sid", .atom (.int 0x2E)), ("k", .atom (.int 24)), ("n", .atom (.int 16)), ("d", .atom (.bytes [0xDE, 0xAD, 0xBE])),
     ("w", .atom (.int 5)), ("st", .dict [("a", .atom (.int 7)), ("b", .atom (.int 0x1234))]), ("y", .atom (.int 0x77))] := rfl
/-- the PDU (no overlap warning): sid; 24 = 0x18 shifted by 4 bits into bytes 1-2; n = 16; the three bytes of `d`; `w` in 16 bits;
    the structure; `y` -/
def lkExKeyPdu : Bytes := [0x2E, 0x01, 0x80, 0x10, 0xDE, 0xAD, 0xBE, 0x00, 0x05, 0x07, 0x12, 0x34, 0x77]
example : (encodeMessage none (Comps.toParams (KItems.comps (lkExKeyItems false)))
      (.dict (Comps.values (KItems.comps (lkExKeyItems false)))) none true).toOption = some (lkExKeyPdu, 0) := by decide +kernel
example : (encodeMessage none (Comps.toParams (KItems.comps (lkExKeyItems true)))
      (.dict (Comps.values (KItems.comps (lkExKeyItems true)))) none true).toOption = some (lkExKeyPdu, 0) := by decide +kernel
/-- … and what the model's decoder makes of it -/
example : ((decodeMessage none (Comps.toParams (KItems.comps (lkExKeyItems false))) lkExKeyPdu true).toOption.map
    fun r => (pvalEq r.1 (.dict (Comps.pair (KItems.comps (lkExKeyItems false))).val), r.2)) = some (true, 13) := by decide +kernel
/-- a wrong key is rejected by the strict encoder (the object does not have that many bits) -/
example : (encodeMessage none (Comps.toParams (KItems.comps (lkExKeyItems true)))
      (.dict [("k", .atom (.int 16)), ("n", .atom (.int 16)), ("d", .atom (.bytes [0xDE, 0xAD, 0xBE])), ("w", .atom (.int 5)),
              ("st", .dict [("a", .atom (.int 7)), ("b", .atom (.int 0x1234))]), ("y", .atom (.int 0x77))]) none true).toOption
    = none := by decide +kernel

theorem lkExStruct_ok : lkExStruct.Ok ∧ lkExStruct.EndOk ∧ lkExStruct.KeyFree := by
  have hoa : (⟨"a", none, none, none, true, 8, .uint32⟩ : Obj).ok := by simp [Obj.ok, Obj.encOk, Obj.sizeOk]
  have hra : (⟨"a", none, none, none, true, 8, .uint32⟩ : Obj).inRange (.int 7) := by simp [Obj.inRange]
  have hob : (⟨"b", none, none, none, true, 16, .int32⟩ : Obj).ok := by simp [Obj.ok, Obj.encOk, Obj.sizeOk, int32Known]
  have hrb : (⟨"b", none, none, none, true, 16, .int32⟩ : Obj).inRange (.int 0x1234) := by
    simp [Obj.inRange, int32InRange]
  have hokAll : Comps.okAll lkExStructKids := ⟨Comp.ofObjValue_ok _ _ hoa hra, Comp.ofObjValue_ok _ _ hob hrb, trivial⟩
  have hnames : Comps.namesOk lkExStructKids := by
    simp [Comps.namesOk, lkExStructKids, Comp.name, Param.name, Comp.ofObjValue, Obj.toParam]
  have hok : lkExStruct.Ok := Comp.ofValue_ok _ _ _ (DComp.struct_ok _ hokAll hnames ⟨rfl, trivial⟩)
  refine ⟨hok, ?_, Comp.keyFree_of_noKeys _ hok (by decide +kernel)⟩
  exact Comp.ofValue_endOk _ _ _ (DComp.struct_endOk _ hokAll ⟨Comp.ofObjValue_endOk _ _, Comp.ofObjValue_endOk _ _, trivial⟩
    ⟨rfl, trivial⟩)

theorem lkExKeyItems_ok (b : Bool) : ∀ it ∈ lkExKeyItems b, it.ok lkExW := by
  intro it hit
  simp only [lkExKeyItems, List.mem_cons, List.mem_nil_iff, or_false] at hit
  rcases hit with rfl | rfl | rfl | rfl | rfl | rfl | rfl
  · have ho : (⟨"sid", none, none, none, true, 8, .uint32⟩ : Obj).ok := by simp [Obj.ok, Obj.encOk, Obj.sizeOk]
    have hr : (⟨"sid", none, none, none, true, 8, .uint32⟩ : Obj).inRange (.int 0x2E) := by simp [Obj.inRange]
    exact Comp.KOk.ofKeyFree _ _ (Comp.ofObjConst_ok _ _ _ ho hr) (Comp.ofObjConst_endOk _ _ _) (Comp.ofObjConst_keyFree _ _ _ ho hr)
  · exact KeyDop.identical _ ⟨rfl, by simp [lkExKeyObj, Obj.ok, Obj.encOk, Obj.sizeOk]⟩ _ (by simp [lkExKeyObj, Obj.inRange])
  · exact KeyDop.identical _ ⟨rfl, by simp [lkExKeyObjN, Obj.ok, Obj.encOk, Obj.sizeOk]⟩ _ (by simp [lkExKeyObjN, Obj.inRange])
  · refine ⟨⟨allBytes_of_all _ (by decide), Or.inl ⟨rfl, rfl, Or.inl rfl⟩⟩, rfl⟩
  · exact ⟨by simp [lkExObjUser, Obj.ok, Obj.encOk, Obj.sizeOk], by simp [lkExObjUser, Obj.inRange]⟩
  · exact Comp.KOk.ofKeyFree _ _ lkExStruct_ok.1 lkExStruct_ok.2.1 lkExStruct_ok.2.2
  · have ho : (⟨"y", none, none, none, true, 8, .uint32⟩ : Obj).ok := by simp [Obj.ok, Obj.encOk, Obj.sizeOk]
    have hr : (⟨"y", none, none, none, true, 8, .uint32⟩ : Obj).inRange (.int 0x77) := by simp [Obj.inRange]
    exact Comp.KOk.ofKeyFree _ _ (Comp.ofObjValue_ok _ _ ho hr) (Comp.ofObjValue_endOk _ _) (Comp.ofObjValue_keyFree _ _ ho hr)

theorem lkExKeyItems_side (b : Bool) : Comps.namesOk (KItems.comps (lkExKeyItems b)) ∧ Comps.eopLast (KItems.comps (lkExKeyItems b)) ∧
    KItems.refsOk lkExW [] [] (lkExKeyItems b) ∧ KItems.covered (lkExKeyItems b) ∧ KItems.apart (lkExKeyItems b) := by
  refine ⟨?_, ⟨rfl, rfl, rfl, rfl, rfl, rfl, trivial⟩, ?_, ?_, ?_⟩
  · simp [Comps.namesOk, KItems.comps, lkExKeyItems, KItem.toComp, Comp.name, Param.name, Comp.ofObjConst, Obj.toConstParam,
      Comp.ofObjValue, Obj.toParam, Obj.toKeyParamD, Obj.toPLParam, PLUser.toParam, lkExKeyObj, lkExKeyObjN, lkExUser, lkExObjUser,
      lkExStruct, Comp.ofValue]
  · refine ⟨rfl, rfl, by simp [lkExUser, lkExKeyObj, lkExKeyObjN], rfl, by simp [lkExKeyObj, lkExKeyObjN], rfl,
      Or.inl (by simp [lkExUser, lkExKeyObj, lkExKeyObjN]), trivial⟩
  · intro kd o v i hm
    simp only [lkExKeyItems, List.mem_cons, List.mem_nil_iff, or_false, reduceCtorEq, false_or, KItem.key.injEq] at hm
    rcases hm with ⟨_, rfl, _, _, _⟩ | ⟨_, _, _, _, h⟩
    · exact ⟨.user lkExUser, by simp [lkExKeyItems], _, rfl⟩
    · cases h
  · simp [KItems.apart, lkExKeyItems, KItem.touches, lkExKeyObj, lkExKeyObjN]

theorem Except.eq_ok_of_toOption_lk {ε α : Type} {e : Except ε α} {a : α} (h : e.toOption = some a) : e = .ok a := by
  cases e with
  | error x => cases h
  | ok b => simp only [Except.toOption, Option.some.injEq] at h; rw [h]

/-- the theorem applies to the example, key `k` omitted … -/
example : ∃ cursor, decodeMessage none (Comps.toParams (KItems.comps (lkExKeyItems false))) lkExKeyPdu true
    = .ok (.dict (Comps.pair (KItems.comps (lkExKeyItems false))).val, cursor) :=
  C01_roundtrip_lengthkey lkExW (lkExKeyItems false) (lkExKeyItems_ok false) (by decide) (lkExKeyItems_side false).1
    (lkExKeyItems_side false).2.1 (lkExKeyItems_side false).2.2.2.2 (lkExKeyItems_side false).2.2.1 (lkExKeyItems_side false).2.2.2.1 none _
    (fun h => by cases h)
    (Except.eq_ok_of_toOption_lk (by decide +kernel))
/-- … and key `k` specified -/
example : ∃ cursor, decodeMessage none (Comps.toParams (KItems.comps (lkExKeyItems true))) lkExKeyPdu true
    = .ok (.dict (Comps.pair (KItems.comps (lkExKeyItems true))).val, cursor) :=
  C01_roundtrip_lengthkey lkExW (lkExKeyItems true) (lkExKeyItems_ok true) (by decide) (lkExKeyItems_side true).1
    (lkExKeyItems_side true).2.1 (lkExKeyItems_side true).2.2.2.2 (lkExKeyItems_side true).2.2.1 (lkExKeyItems_side true).2.2.2.1 none _
    (fun h => by cases h)
    (Except.eq_ok_of_toOption_lk (by decide +kernel))

/-! ### non-vacuity, nested: a structure with a LENGTH-KEY of its own as a parameter of a request with another one
    request = [ sid (0x2E, omitted);  k1 : LENGTH-KEY 8 bits, omitted;
                st : STRUCTURE { k2 : LENGTH-KEY 8 bits, omitted;  data : PARAM-LENGTH-INFO-TYPE A_BYTEFIELD with key k2, 3 bytes };
                d1 : PARAM-LENGTH-INFO-TYPE A_BYTEFIELD with key k1, 2 bytes;  y : 8 bits ]
    Both passes of `st` run inside the first pass of the request; the request's second pass then writes `k1`. -/
def lkExK1 : Obj := ⟨"k1", none, none, none, true, 8, .uint32⟩
def lkExK2 : Obj := ⟨"k2", none, none, none, true, 8, .uint32⟩
def lkExInnerUser : PLUser := { name := "data", bytePos := none, key := "k2", bt := .bytefield, hl := true, v := .bytes [1, 2, 3], raw := [1, 2, 3] }
def lkExOuterUser : PLUser := { name := "d1", bytePos := none, key := "k1", bt := .bytefield, hl := true, v := .bytes [0xAA, 0xBB], raw := [0xAA, 0xBB] }
def lkExInner : List KItem := [.key lkExK2.keyDop lkExK2 24 24 false, .user lkExInnerUser]
def lkExNestItems : List KItem :=
  [.comp (Comp.ofObjConst ⟨"sid", none, none, none, true, 8, .uint32⟩ (.int 0x2E) false) [],
   .key lkExK1.keyDop lkExK1 16 16 false, .comp (Comp.kstruct "st" none lkExInner) (KItems.touched lkExInner), .user lkExOuterUser,
   .comp (Comp.ofObjValue ⟨"y", none, none, none, true, 8, .uint32⟩ (.int 0x77)) []]
def lkExNestW : String → Option Int := fun n => if n = "k1" then some 16 else if n = "k2" then some 24 else none
def lkExNestPdu : Bytes := [0x2E, 0x10, 0x18, 0x01, 0x02, 0x03, 0xAA, 0xBB, 0x77]

example : Comps.values (KItems.comps lkExNestItems) =
    [("st", .dict [("data", .atom (.bytes [1, 2, 3]))]), ("d1", .atom (.bytes [0xAA, 0xBB])), ("y", .atom (.int 0x77))] := rfl
example : (Comps.pair (KItems.comps lkExNestItems)).val =
    [("sid", .atom (.int 0x2E)), ("k1", .atom (.int 16)), ("st", .dict [("k2", .atom (.int 24)), ("data", .atom (.bytes [1, 2, 3]))]),
     ("d1", .atom (.bytes [0xAA, 0xBB])), ("y", .atom (.int 0x77))] := rfl
/-- the PDU (odxtools produces the same bytes) -/
example : (encodeMessage none (Comps.toParams (KItems.comps lkExNestItems))
      (.dict (Comps.values (KItems.comps lkExNestItems))) none true).toOption = some (lkExNestPdu, 0) := by decide +kernel

theorem lkExInner_ok : (∀ it ∈ lkExInner, it.ok lkExNestW) ∧ Comps.eopLast (KItems.comps lkExInner) ∧ Comps.namesOk (KItems.comps lkExInner) ∧
    KItems.apart lkExInner ∧ KItems.refsOk lkExNestW [] [] lkExInner ∧ KItems.covered lkExInner := by
  refine ⟨?_, ⟨rfl, trivial⟩, ?_, ?_, ⟨rfl, by simp [lkExInnerUser, lkExK2], rfl, trivial⟩, ?_⟩
  · intro it hit
    simp only [lkExInner, List.mem_cons, List.mem_nil_iff, or_false] at hit
    rcases hit with rfl | rfl
    · exact KeyDop.identical _ ⟨rfl, by simp [lkExK2, Obj.ok, Obj.encOk, Obj.sizeOk]⟩ _ (by simp [lkExK2, Obj.inRange])
    · exact ⟨⟨allBytes_of_all _ (by decide), Or.inl ⟨rfl, rfl, Or.inl rfl⟩⟩, rfl⟩
  · simp [Comps.namesOk, KItems.comps, lkExInner, KItem.toComp, Comp.name, Param.name, Obj.toKeyParamD, PLUser.toParam, lkExK2, lkExInnerUser]
  · simp [KItems.apart, lkExInner, KItem.touches]
  · intro kd o v i hm
    simp only [lkExInner, List.mem_cons, List.mem_nil_iff, or_false, reduceCtorEq, KItem.key.injEq] at hm
    obtain ⟨_, rfl, _, _, _⟩ := hm
    exact ⟨.user lkExInnerUser, by simp [lkExInner], _, rfl⟩

theorem lkExNestItems_ok : ∀ it ∈ lkExNestItems, it.ok lkExNestW := by
  intro it hit
  simp only [lkExNestItems, List.mem_cons, List.mem_nil_iff, or_false] at hit
  rcases hit with rfl | rfl | rfl | rfl | rfl
  · have ho : (⟨"sid", none, none, none, true, 8, .uint32⟩ : Obj).ok := by simp [Obj.ok, Obj.encOk, Obj.sizeOk]
    have hr : (⟨"sid", none, none, none, true, 8, .uint32⟩ : Obj).inRange (.int 0x2E) := by simp [Obj.inRange]
    exact Comp.KOk.ofKeyFree _ _ (Comp.ofObjConst_ok _ _ _ ho hr) (Comp.ofObjConst_endOk _ _ _) (Comp.ofObjConst_keyFree _ _ _ ho hr)
  · exact KeyDop.identical _ ⟨rfl, by simp [lkExK1, Obj.ok, Obj.encOk, Obj.sizeOk]⟩ _ (by simp [lkExK1, Obj.inRange])
  · exact Comp.kstruct_kok "st" none lkExInner lkExInner_ok.1 lkExInner_ok.2.1 lkExInner_ok.2.2.1 lkExInner_ok.2.2.2.1 lkExInner_ok.2.2.2.2.1
      lkExInner_ok.2.2.2.2.2
  · exact ⟨⟨allBytes_of_all _ (by decide), Or.inl ⟨rfl, rfl, Or.inl rfl⟩⟩, rfl⟩
  · have ho : (⟨"y", none, none, none, true, 8, .uint32⟩ : Obj).ok := by simp [Obj.ok, Obj.encOk, Obj.sizeOk]
    have hr : (⟨"y", none, none, none, true, 8, .uint32⟩ : Obj).inRange (.int 0x77) := by simp [Obj.inRange]
    exact Comp.KOk.ofKeyFree _ _ (Comp.ofObjValue_ok _ _ ho hr) (Comp.ofObjValue_endOk _ _) (Comp.ofObjValue_keyFree _ _ ho hr)

theorem lkExNestItems_side : Comps.namesOk (KItems.comps lkExNestItems) ∧ Comps.eopLast (KItems.comps lkExNestItems) ∧
    KItems.refsOk lkExNestW [] [] lkExNestItems ∧ KItems.covered lkExNestItems ∧ KItems.apart lkExNestItems := by
  refine ⟨?_, ⟨rfl, rfl, rfl, rfl, trivial⟩, ⟨rfl, by simp [lkExOuterUser, lkExK1], rfl, trivial⟩, ?_, ?_⟩
  · simp [Comps.namesOk, KItems.comps, lkExNestItems, KItem.toComp, Comp.name, Param.name, Comp.ofObjConst, Obj.toConstParam,
      Comp.ofObjValue, Obj.toParam, Obj.toKeyParamD, PLUser.toParam, lkExK1, lkExOuterUser, Comp.kstruct]
  · intro kd o v i hm
    simp only [lkExNestItems, List.mem_cons, List.mem_nil_iff, or_false, reduceCtorEq, false_or, KItem.key.injEq] at hm
    obtain ⟨_, rfl, _, _, _⟩ := hm
    exact ⟨.user lkExOuterUser, by simp [lkExNestItems], _, rfl⟩
  · simp [KItems.apart, lkExNestItems, KItem.touches, KItems.touched, lkExInner, lkExK1, lkExK2]

/-- the theorem applies to the nested example -/
example : ∃ cursor, decodeMessage none (Comps.toParams (KItems.comps lkExNestItems)) lkExNestPdu true
    = .ok (.dict (Comps.pair (KItems.comps lkExNestItems)).val, cursor) :=
  C01_roundtrip_lengthkey lkExNestW lkExNestItems lkExNestItems_ok (by decide) lkExNestItems_side.1 lkExNestItems_side.2.1
    lkExNestItems_side.2.2.2.2 lkExNestItems_side.2.2.1 lkExNestItems_side.2.2.2.1 none _ (fun h => by cases h)
    (Except.eq_ok_of_toOption_lk (by decide +kernel))

/-! ### non-vacuity, a key that counts BYTES: LENGTH-KEY behind a LINEAR compu method `bit length = 8 · coded value`
    request = [ sid (0x2E, omitted);  n : LENGTH-KEY, 8 bits, LINEAR 8·x, omitted;  d : PARAM-LENGTH-INFO-TYPE A_BYTEFIELD(n), 3 bytes;  y ]
    the key's value is 24 (bits), the coded value in the PDU is 3 -/
def lkExLin8 : LinDesc := { num0 := 0, num1 := 8, den := 1, lower := none, upper := none }
def lkExLin8Seg : Compu.LinSeg :=
  { offset := 0, factor := 8, denom := 1, ilo := none, ihi := none, inv := .int 0, ity := .uint32, pty := .uint32, plo := none, phi := none }
theorem lkExLin8_method : linMethod? lkExLin8 .uint32 .uint32 = some (.linear lkExLin8Seg) := by decide +kernel
def lkExKeyB : Obj := ⟨"n", none, none, none, true, 8, .uint32⟩
def lkExUserB : PLUser :=
  { name := "d", bytePos := none, key := "n", bt := .bytefield, hl := true, v := .bytes [0xDE, 0xAD, 0xBE], raw := [0xDE, 0xAD, 0xBE] }
def lkExByteItems : List KItem :=
  [.comp (Comp.ofObjConst ⟨"sid", none, none, none, true, 8, .uint32⟩ (.int 0x2E) false) [],
   .key (lkExKeyB.linKeyDop .uint32 lkExLin8) lkExKeyB 24 3 false, .user lkExUserB,
   .comp (Comp.ofObjValue ⟨"y", none, none, none, true, 8, .uint32⟩ (.int 0x77)) []]
def lkExByteW : String → Option Int := fun n => if n = "n" then some 24 else none

example : Comps.toParams (KItems.comps lkExByteItems) =
    [.mk "sid" none none (.codedConst (.std .uint32 none true 8 none false) (.int 0x2E)),
     .mk "n" none none (.lengthKey (.simple (.std .uint32 none true 8 none false) .uint32 (.linear lkExLin8))),
     .mk "d" none none (.value (.simple (.paramLen .bytefield none true "n") .bytefield .identical) none),
     .mk "y" none none (.value (.simple (.std .uint32 none true 8 none false) .uint32 .identical) none)] := rfl
example : (Comps.pair (KItems.comps lkExByteItems)).val =
    [("sid", .atom (.int 0x2E)), ("n", .atom (.int 24)), ("d", .atom (.bytes [0xDE, 0xAD, 0xBE])), ("y", .atom (.int 0x77))] := rfl
/-- the PDU: the key byte is 3 -/
example : (encodeMessage none (Comps.toParams (KItems.comps lkExByteItems))
      (.dict (Comps.values (KItems.comps lkExByteItems))) none true).toOption = some ([0x2E, 0x03, 0xDE, 0xAD, 0xBE, 0x77], 0) := by
  decide +kernel

theorem lkExKeyB_keyDop : KeyDop (lkExKeyB.linKeyDop .uint32 lkExLin8) lkExKeyB 24 3 :=
  KeyDop.linear lkExKeyB ⟨rfl, by simp [lkExKeyB, Obj.ok, Obj.encOk, Obj.sizeOk]⟩ .uint32 lkExLin8 lkExLin8Seg 24 3
    (by simp [lkExKeyB, Obj.inRange]) lkExLin8_method (by decide +kernel) (by decide +kernel) (by decide +kernel) (by decide +kernel)
    (by decide +kernel) (by decide +kernel) (by decide +kernel)

theorem lkExByteItems_ok : ∀ it ∈ lkExByteItems, it.ok lkExByteW := by
  intro it hit
  simp only [lkExByteItems, List.mem_cons, List.mem_nil_iff, or_false] at hit
  rcases hit with rfl | rfl | rfl | rfl
  · have ho : (⟨"sid", none, none, none, true, 8, .uint32⟩ : Obj).ok := by simp [Obj.ok, Obj.encOk, Obj.sizeOk]
    have hr : (⟨"sid", none, none, none, true, 8, .uint32⟩ : Obj).inRange (.int 0x2E) := by simp [Obj.inRange]
    exact Comp.KOk.ofKeyFree _ _ (Comp.ofObjConst_ok _ _ _ ho hr) (Comp.ofObjConst_endOk _ _ _) (Comp.ofObjConst_keyFree _ _ _ ho hr)
  · exact lkExKeyB_keyDop
  · exact ⟨⟨allBytes_of_all _ (by decide), Or.inl ⟨rfl, rfl, Or.inl rfl⟩⟩, rfl⟩
  · have ho : (⟨"y", none, none, none, true, 8, .uint32⟩ : Obj).ok := by simp [Obj.ok, Obj.encOk, Obj.sizeOk]
    have hr : (⟨"y", none, none, none, true, 8, .uint32⟩ : Obj).inRange (.int 0x77) := by simp [Obj.inRange]
    exact Comp.KOk.ofKeyFree _ _ (Comp.ofObjValue_ok _ _ ho hr) (Comp.ofObjValue_endOk _ _) (Comp.ofObjValue_keyFree _ _ ho hr)

theorem lkExByteItems_side : Comps.namesOk (KItems.comps lkExByteItems) ∧ Comps.eopLast (KItems.comps lkExByteItems) ∧
    KItems.refsOk lkExByteW [] [] lkExByteItems ∧ KItems.covered lkExByteItems ∧ KItems.apart lkExByteItems := by
  refine ⟨?_, ⟨rfl, rfl, rfl, trivial⟩, ⟨rfl, by simp [lkExUserB, lkExKeyB], rfl, trivial⟩, ?_, ?_⟩
  · simp [Comps.namesOk, KItems.comps, lkExByteItems, KItem.toComp, Comp.name, Param.name, Comp.ofObjConst, Obj.toConstParam,
      Comp.ofObjValue, Obj.toParam, Obj.toKeyParamD, PLUser.toParam, lkExKeyB, lkExUserB]
  · intro kd o v i hm
    simp only [lkExByteItems, List.mem_cons, List.mem_nil_iff, or_false, reduceCtorEq, false_or, KItem.key.injEq] at hm
    obtain ⟨_, rfl, _, _, _⟩ := hm
    exact ⟨.user lkExUserB, by simp [lkExByteItems], _, rfl⟩
  · simp [KItems.apart, lkExByteItems, KItem.touches]

/-- the theorem applies to the byte-counting key -/
example : ∃ cursor, decodeMessage none (Comps.toParams (KItems.comps lkExByteItems)) [0x2E, 0x03, 0xDE, 0xAD, 0xBE, 0x77] true
    = .ok (.dict (Comps.pair (KItems.comps lkExByteItems)).val, cursor) :=
  C01_roundtrip_lengthkey lkExByteW lkExByteItems lkExByteItems_ok (by decide) lkExByteItems_side.1 lkExByteItems_side.2.1
    lkExByteItems_side.2.2.2.2 lkExByteItems_side.2.2.1 lkExByteItems_side.2.2.2.1 none _ (fun h => by cases h)
    (Except.eq_ok_of_toOption_lk (by decide +kernel))

/-! ### the hypothesis `apart` cannot be dropped: `length_keys` / `key_pos` are keyed by SHORT-NAME for the whole PDU
    request = [ sid; len : LENGTH-KEY, 4 bits at BIT-POSITION 4;
                st : STRUCTURE { len : LENGTH-KEY, 4 bits at BIT-POSITION 0;  data : PARAM-LENGTH-INFO-TYPE A_BYTEFIELD(len) };
                d1 : PARAM-LENGTH-INFO-TYPE A_BYTEFIELD(len);  y ]
    (sibling names are distinct; the nested structure has a key with the short name of the outer key).  The inner placeholder
    overwrites the recorded position of `len`, so the second loop of the request writes the OUTER key into the byte of the
    inner one — at its own bit position, hence without any overlap — and the outer key's byte stays 0.  The strict encoder
    returns `2e 00 88 01 aa 77` with NO warning, the decoder returns `len = 0` for the outer key instead of 8.
    odxtools does exactly the same (see design_notes/C01.md). -/
def lkShadowKey (bitPos : Nat) : Param :=
  .mk "len" none (some bitPos) (.lengthKey (.simple (.std .uint32 none true 4 none false) .uint32 .identical))
def lkShadowUser (name : String) : Param :=
  .mk name none none (.value (.simple (.paramLen .bytefield none true "len") .bytefield .identical) none)
def lkShadowParams : List Param :=
  [.mk "sid" none none (.codedConst (.std .uint32 none true 8 none false) (.int 0x2E)), lkShadowKey 4,
   .mk "st" none none (.value (.struct none [lkShadowKey 0, lkShadowUser "data"]) none), lkShadowUser "d1",
   .mk "y" none none (.value (.simple (.std .uint32 none true 8 none false) .uint32 .identical) none)]
def lkShadowValue : PVal :=
  .dict [("st", .dict [("data", .atom (.bytes [0x01]))]), ("d1", .atom (.bytes [0xAA])), ("y", .atom (.int 0x77))]
/-- the completed value tree: both keys say 8 bits -/
def lkShadowComplete : PVal :=
  .dict [("sid", .atom (.int 0x2E)), ("len", .atom (.int 8)), ("st", .dict [("len", .atom (.int 8)), ("data", .atom (.bytes [0x01]))]),
         ("d1", .atom (.bytes [0xAA])), ("y", .atom (.int 0x77))]
/-- what the decoder returns instead: the outer key reads 0 -/
def lkShadowDecoded : PVal :=
  .dict [("sid", .atom (.int 0x2E)), ("len", .atom (.int 0)), ("st", .dict [("len", .atom (.int 8)), ("data", .atom (.bytes [0x01]))]),
         ("d1", .atom (.bytes [0xAA])), ("y", .atom (.int 0x77))]

/-- **counterexample without `apart`** (model level; the real code behaves identically): strict encode succeeds WITHOUT an
    overlap warning, strict decode of the PDU succeeds and returns a different value tree. -/
theorem C01_lengthkey_shadow_counterexample :
    (encodeMessage none lkShadowParams lkShadowValue none true).toOption = some ([0x2E, 0x00, 0x88, 0x01, 0xAA, 0x77], 0) ∧
    ((decodeMessage none lkShadowParams [0x2E, 0x00, 0x88, 0x01, 0xAA, 0x77] true).toOption.map
      fun r => (pvalEq r.1 lkShadowDecoded, pvalEq r.1 lkShadowComplete, r.2)) = some (true, false, 6) := by
  constructor <;> decide +kernel

end OdxVerif.Codec
