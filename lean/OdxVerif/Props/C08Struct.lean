import OdxVerif.Props.C08
import OdxVerif.Proofs.StructStatic
/-! # C08 on nested structures — static length and required parameters
    `C08_static_length_partial` (Props/C08.lean, flat lists) lifted to the struct tier (`List Tree`: VALUE parameters over
    integer objects, CODED-CONST parameters over the five leaf kinds, arbitrarily nested STRUCTUREs; the values baked
    into `.int` leaves are dummies) — and to **every** supplied value: whenever strict `encode` returns a PDU.

    The unrestricted lift is false (open finding `nested-structure-cursor-behind-last-listed-parameter`,
    `C08_nested_cursor_counterexample`): `get_static_bit_length` continues behind a nested structure's *full extent*
    (`Tree.slen`), encoder and decoder behind its *last listed* parameter (`Tree.rend`). The side condition
    `Trees.cursorOk` (decidable, a function of the description alone) asks, at every level,
      (1) that a nested structure which is **directly followed by a sibling without BYTE-POSITION** ends at its full
          extent (`rend = slen`) — nothing is asked of a structure that comes last or whose successor is explicitly
          positioned: there the two cursors differ but are never read — and
      (2) that no nested structure is empty (an empty structure at a BYTE-POSITION behind the end of the message
          counts for the static length but emplaces nothing: `C08_empty_struct_counterexample`, confirmed on the
          real code: static 40 bits, PDU `01`).
    `_partial`: VALUE leaves of the integer kinds only (inherited from `C04_struct_partial`); BYTE-SIZE structures,
    fields and multiplexers are outside the tier. -/
namespace OdxVerif.Codec
open OdxVerif.Bits OdxVerif.OdxM

/-- **C08, static length, struct tier.** For every nested description that satisfies `cursorOk` and **any** supplied
    value: if strict `encode` of the model returns a PDU (overlap warning or not), the static bit length the
    description reports is exactly 8 × the length of that PDU. -/
theorem C08_static_length_struct_partial (ts : List Tree) (hneed : Trees.need ts + 2 ≤ modelFuel) (hd : Trees.descOk ts)
    (hc : Trees.cursorOk ts = true) (pv : PVal) (trig : Option Bytes) (pdu : Bytes) (w : Nat)
    (henc : encodeMessage none (Trees.toParams ts) pv trig true = .ok (pdu, w)) :
    (Dop.struct none (Trees.toParams ts)).staticBitLen = some (8 * pdu.length) :=
  static_length_struct ts hneed hd hc pv trig pdu w henc

/-- the static computation of the model on the tier is the pure function `Trees.stat` (bytes) -/
theorem C08_static_value_struct (ts : List Tree) :
    (Dop.struct none (Trees.toParams ts)).staticBitLen = some (8 * Trees.stat ts 0 0) := by
  simp only [Dop.staticBitLen, Trees.static_eq, Option.map_some]

/-- **C08, required parameters, struct tier (one direction, every depth).** A VALUE parameter without default is
    reported as required; leaving one out — an integer leaf or a whole nested structure, at any depth of the supplied
    dictionary, or supplying `None` for it — makes strict `encode` fail, and with the library's own error (or the
    model's `unmodelled` when, in addition, an atom of a foreign type is supplied for a constant). The converse —
    CODED-CONST parameters may be omitted — is part of `C04_struct_accepts_iff` (`Tree.fill` accepts a missing
    constant); the full "exactly those" over arbitrary subsets is checked by the direct oracle. -/
theorem C08_required_struct_partial (ts : List Tree) (hneed : Trees.need ts + 2 ≤ modelFuel) (hd : Trees.descOk ts)
    (kvs : List (String × PVal)) (trig : Option Bytes) (hreq : Trees.reqSupplied ts kvs = false) :
    ∃ e, encodeMessage none (Trees.toParams ts) (.dict kvs) trig true = .error e ∧
      (e = .encode ∨ e = .odx ∨ e = .unmodelled) :=
  required_struct_omission ts hneed hd kvs trig hreq

/-- **C08, CODED-CONST parameters are not required (struct tier, top level of the supplied dictionary).** If strict
    `encode` accepts a dictionary, it accepts — with the very same PDU and warning count — every dictionary that agrees
    with it on the VALUE parameters (leaves and nested structures) and either omits a constant or repeats what the first
    one said about it. Together with `C08_required_struct_partial`: on the tier the required parameters are exactly the
    VALUE parameters. -/
theorem C08_const_not_required_partial (ts : List Tree) (hneed : Trees.need ts + 2 ≤ modelFuel) (hd : Trees.descOk ts)
    (kvs kvs2 : List (String × PVal)) (trig : Option Bytes) (r : Bytes × Nat)
    (henc : encodeMessage none (Trees.toParams ts) (.dict kvs) trig true = .ok r)
    (hknown : kvs2.any (fun kv => !((Trees.toParams ts).any fun p => p.name == kv.1)) = false)
    (hval : ∀ t ∈ ts, t.isConst = false → lookup t.name kvs2 = lookup t.name kvs)
    (hconst : ∀ t ∈ ts, t.isConst = true → lookupV t.name kvs2 = none ∨ lookupV t.name kvs2 = lookupV t.name kvs) :
    encodeMessage none (Trees.toParams ts) (.dict kvs2) trig true = .ok r :=
  const_not_required ts hneed hd kvs kvs2 trig r henc hknown hval hconst

/-! ## the open finding violates the side condition — and only the side condition -/

def c08u8 (n : String) (bp : Option Nat) : Tree := .int ⟨n, bp, none, none, true, 8, .uint32⟩ (.int 0)

/-- the description of `C08_nested_cursor_counterexample` as a `List Tree` -/
def c08Finding : List Tree := [.struct "s" none [c08u8 "a" (some 2), c08u8 "b" (some 0)], c08u8 "x" none]

example : Trees.toParams c08Finding =
    [.mk "s" none none (.value (.struct none
        [.mk "a" (some 2) none (.value (.simple (.std .uint32 none true 8 none false) .uint32 .identical) none),
         .mk "b" (some 0) none (.value (.simple (.std .uint32 none true 8 none false) .uint32 .identical) none)]) none),
     .mk "x" none none (.value (.simple (.std .uint32 none true 8 none false) .uint32 .identical) none)] := rfl
example : Trees.descOk c08Finding := by
  simp [c08Finding, c08u8, Trees.descOk, Tree.descOk, Obj.ok, Obj.encOk, Obj.sizeOk, Obj.isInt]
example : Trees.need c08Finding + 2 ≤ modelFuel := by decide
/-- the structure `s` ends 1 byte behind its first byte for the encoder, 3 bytes for the static computation, and is
    followed by the implicitly positioned `x` -/
example : Trees.cursorOk c08Finding = false ∧
    (Tree.struct "s" none [c08u8 "a" (some 2), c08u8 "b" (some 0)]).rend = 1 ∧
    (Tree.struct "s" none [c08u8 "a" (some 2), c08u8 "b" (some 0)]).slen = 3 := by decide
/-- the same structure is harmless when it comes last or when its successor has a BYTE-POSITION (real code: static 24 /
    PDU `020001`; static 32 / PDU `02000103`) -/
example : Trees.cursorOk [.struct "s" none [c08u8 "a" (some 2), c08u8 "b" (some 0)]] = true ∧
    Trees.cursorOk [.struct "s" none [c08u8 "a" (some 2), c08u8 "b" (some 0)], c08u8 "x" (some 3)] = true := by decide
example : let ts := [.struct "s" none [c08u8 "a" (some 2), c08u8 "b" (some 0)], c08u8 "x" (some 3)]
    (Dop.struct none (Trees.toParams ts)).staticBitLen = some 32 ∧
    (encodeMessage none (Trees.toParams ts)
      (.dict [("s", .dict [("a", .atom (.int 1)), ("b", .atom (.int 2))]), ("x", .atom (.int 3))]) none true).toOption
      = some ([2, 0, 1, 3], 0) := by decide +kernel

/-- **Finding `empty-nested-structure-static-length`, exhibited in the model** (found while proving
    `C08_static_length_struct_partial`: condition (2) of `cursorOk` cannot be dropped). An empty nested STRUCTURE at a
    BYTE-POSITION behind the end of the message: the static length counts up to its position (5 bytes), the encoder
    emplaces nothing there (1 byte). Same on the real code: `get_static_bit_length() = 40`, `encode(a=1, s={}) = 01`. -/
theorem C08_empty_struct_counterexample :
    let ts : List Tree := [c08u8 "a" none, .struct "s" (some 5) []]
    Trees.descOk ts ∧ Trees.cursorOk ts = false ∧
    (Dop.struct none (Trees.toParams ts)).staticBitLen = some 40 ∧
    (encodeMessage none (Trees.toParams ts) (.dict [("a", .atom (.int 1)), ("s", .dict [])]) none true).toOption
      = some ([1], 0) := by
  refine ⟨?_, by decide, by decide +kernel, by decide +kernel⟩
  simp [c08u8, Trees.descOk, Tree.descOk, Obj.ok, Obj.encOk, Obj.sizeOk, Obj.isInt]

/-! ## non-vacuity: nested structures in both situations — `inner` is followed by the implicitly positioned `b` and ends
    at its full extent; `s` ends before its full extent (its last listed parameter `c` lies inside) but is followed by
    the explicitly positioned `y` -/
def c08Desc : List Tree :=
  [.const ⟨"sid", none, none, none, true, 8, .uint32⟩ (.int 0x2e),
   .struct "s" (some 2) [.int ⟨"a", none, some 2, some .sm, true, 5, .int32⟩ (.int 0),
                          .struct "inner" (some 2) [.const ⟨"tag", some 2, none, none, true, 8, .bytes⟩ (.bytes [0xca]),
                                                 .int ⟨"x", some 0, none, none, false, 16, .int32⟩ (.int 0),
                                                 .int ⟨"z", some 3, some 4, none, true, 4, .uint32⟩ (.int 0)],
                          .int ⟨"b", none, none, none, true, 16, .uint32⟩ (.int 0),
                          .int ⟨"c", some 1, none, none, true, 8, .uint32⟩ (.int 0)],
   .int ⟨"y", some 1, none, none, true, 8, .int32⟩ (.int 0)]

example : Trees.need c08Desc + 2 ≤ modelFuel := by decide
example : Trees.descOk c08Desc := by
  simp [c08Desc, Trees.descOk, Tree.descOk, Obj.ok, Obj.encOk, Obj.sizeOk, Obj.isInt, Obj.inRange, int32Known, AllBytes]
example : Trees.cursorOk c08Desc = true := by decide
example : (Dop.struct none (Trees.toParams c08Desc)).staticBitLen = some 80 := by decide +kernel
example : (encodeMessage none (Trees.toParams c08Desc)
    (.dict [("s", .dict [("a", .atom (.int (-9))), ("inner", .dict [("x", .atom (.int (-2))), ("z", .atom (.int 0xf))]),
                         ("b", .atom (.int 0xbeef)), ("c", .atom (.int 0x11))]), ("y", .atom (.int (-128)))]) none true).toOption
    = some ([0x2e, 0x80, 0x64, 0x11, 0xfe, 0xff, 0xca, 0xf0, 0xbe, 0xef], 0) := by decide +kernel
/-- a required parameter omitted at depth 2 (`x` inside `inner`), and a whole structure omitted -/
example : Trees.reqSupplied c08Desc
    [("s", .dict [("a", .atom (.int 0)), ("inner", .dict [("z", .atom (.int 0))]), ("b", .atom (.int 0)), ("c", .atom (.int 0))]),
     ("y", .atom (.int 0))] = false ∧
    Trees.reqSupplied c08Desc [("y", .atom (.int 0))] = false := by decide +kernel

/-- `C08_const_not_required_partial`: the service id supplied / omitted -/
def c08Vals (withSid : Bool) : List (String × PVal) :=
  (if withSid then [("sid", PVal.atom (.int 0x2e))] else []) ++
  [("s", .dict [("a", .atom (.int (-9))), ("inner", .dict [("x", .atom (.int (-2))), ("z", .atom (.int 0xf))]),
                ("b", .atom (.int 0xbeef)), ("c", .atom (.int 0x11))]), ("y", .atom (.int (-128)))]
example : (encodeMessage none (Trees.toParams c08Desc) (.dict (c08Vals true)) none true).toOption
    = some ([0x2e, 0x80, 0x64, 0x11, 0xfe, 0xff, 0xca, 0xf0, 0xbe, 0xef], 0) := by decide +kernel
example : (c08Vals false).any (fun kv => !((Trees.toParams c08Desc).any fun p => p.name == kv.1)) = false := by decide
example : ∀ t ∈ c08Desc, t.isConst = false → lookup t.name (c08Vals false) = lookup t.name (c08Vals true) := by
  intro t ht
  simp only [c08Desc, List.mem_cons, List.mem_nil_iff, or_false] at ht
  rcases ht with rfl | rfl | rfl <;> simp [Tree.isConst, Tree.name, c08Vals, lookup]
example : ∀ t ∈ c08Desc, t.isConst = true →
    lookupV t.name (c08Vals false) = none ∨ lookupV t.name (c08Vals false) = lookupV t.name (c08Vals true) := by
  intro t ht
  simp only [c08Desc, List.mem_cons, List.mem_nil_iff, or_false] at ht
  rcases ht with rfl | rfl | rfl <;> simp [Tree.isConst, Tree.name, c08Vals, lookup, lookupV]

end OdxVerif.Codec
