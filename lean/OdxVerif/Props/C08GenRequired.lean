import OdxVerif.Props.C08
import OdxVerif.Proofs.CodecRequiredGenEq
/-! # C08 — the required parameters through the functions GENERATED from the source

    `Gen/CodecRequired.lean` is regenerated on every run of C08 from `CodedConstParameter.is_required`,
    `PhysicalConstantParameter.is_required`, `ValueParameter.is_required`, `ReservedParameter.is_required`,
    `MatchingRequestParameter.is_required`, `NrcConstParameter.is_required`, `LengthKeyParameter.is_required`
    (`odxtools/parameters/*.py`) and `composite_codec_get_required_parameters` (`odxtools/codec.py`); the theorems below are
    re-checked against the current source. Abstract record interface: `codec.parameters` ↔ the parameter list,
    `ValueParameter._physical_default_value` ↔ the default of `PKind.value`; the dispatch of `p.is_required` on the class of `p`
    is the hand-written table `Gen.isRequiredE` (class ↔ constructor of `PKind`). `PKind.isRequired` is the `required` of the model's
    `encodeParams`; that it is the `PKind.required` of the nested-tier theorems (`C08_required_nested*`, `C08_not_required_nested*`,
    `C08_required_iff_not_omittable*`) is `Props/C08GenRequiredNested.lean` (an environment of its own, like `Props/C08Nested*.lean`). -/
namespace OdxVerif.Codec

/-- **Tie.** (1) per parameter: the rendered `is_required` of its class is the model's `PKind.required` (and raises nothing);
    (2) for every parameter list, with `False` for the classes outside the model, and (3) for every list of modelled classes
    whatever the others do: the rendered `composite_codec_get_required_parameters` is the model's filter, in order -/
theorem C08_gen_required (other : Py.M Bool) (ps : List Param) :
    (∀ p : Param, p.kind.modelled = true → Gen.isRequiredE other p = .ok p.kind.isRequired) ∧
    Gen.requiredParametersE (.ok false) ps = .ok (ps.filter fun p => p.kind.isRequired) ∧
    ((∀ p ∈ ps, p.kind.modelled = true) → Gen.requiredParametersE other ps = .ok (ps.filter fun p => p.kind.isRequired)) :=
  ⟨fun p h => gen_isRequired_modelled other p h, gen_required_eq_all ps, gen_required_eq other ps⟩

/-- **C08, required ⇒ omission fails, for the generated function**: whatever `composite_codec_get_required_parameters` (as the
    source is now) returns for a description — leaving one of these parameters out of the assignment makes strict `encode` fail,
    whatever else the request or response contains (`C08_required_omission_fails`) -/
theorem C08_gen_required_omission_fails (ps req : List Param) (values : List (String × PVal)) (trig : Option Bytes)
    (hreq : Gen.requiredParametersE (.ok false) ps = .ok req) (p : Param) (hp : p ∈ req) (hom : lookup p.name values = none) :
    ∃ e, encodeMessage none ps (.dict values) trig true = .error e := by
  rw [gen_required_eq_all] at hreq
  cases hreq
  obtain ⟨hps, hr⟩ := List.mem_filter.1 hp
  refine C08_required_omission_fails ps values trig ⟨p, hps, ?_, hom⟩
  cases hk : p.kind with
  | value d dflt =>
    cases dflt with
    | none => exact ⟨d, rfl⟩
    | some v => rw [hk] at hr; cases hr
  | _ => rw [hk] at hr; cases hr

/-! non-vacuity: all seven modelled classes; a VALUE parameter with and without default; a class outside the model that raises -/
section Examples
def u8' : Dop := .simple (.std .uint32 none true 8 none false) .uint32 .identical
def exParams : List Param :=
  [.mk "sid" none none (.codedConst (.std .uint32 none true 8 none false) (.int 0x22)),
   .mk "a" none none (.value u8' none),
   .mk "d" none none (.value u8' (some (.atom (.int 7)))),
   .mk "pc" none none (.physConst u8' (.atom (.int 1))),
   .mk "r" none none (.reserved 8),
   .mk "m" none none (.matchingReq 0 1),
   .mk "n" none none (.nrcConst (.std .uint32 none true 8 none false) [.int 1]),
   .mk "k" none none (.lengthKey u8'),
   .mk "b" none none (.value u8' none)]
example : (Gen.requiredParametersE (.error .foreign) exParams).toOption.map (·.map Param.name) = some ["a", "b"] := by decide
example : ∀ p ∈ exParams, p.kind.modelled = true := by decide
example : (Gen.requiredParametersE (.error .foreign) (exParams ++ [.mk "t" none none .unsupported])).toOption = none := by decide
example : ∃ e, encodeMessage none exParams (.dict [("a", .atom (.int 1))]) none true = .error e :=
  C08_gen_required_omission_fails exParams _ _ none (gen_required_eq_all exParams) (.mk "b" none none (.value u8' none))
    (List.mem_filter.2 ⟨by simp [exParams], rfl⟩) (by decide)
end Examples

end OdxVerif.Codec
