import OdxVerif.Props.C10
import OdxVerif.Proofs.OdxLinkResolveGenEq
/-! # C10 — ODXLINK resolution through the functions GENERATED from the source

    `Gen.resolveE` / `Gen.resolveLenientE` (`Gen/OdxLinkResolve.lean`) are regenerated from `OdxLinkDatabase.resolve` /
    `resolve_lenient` of `odxtools/odxlink.py` on every run of C10 (`harness/extract/py2lean.py`); the theorems below are
    re-checked against the current source. Abstract record interface of the rendering: `self._db` ↔ `Db` (association lists
    for the dict of dicts), `dict.get` ↔ `dget`, `isinstance(obj, T)` ↔ `Obj.isInst`, `ref.ref_docs` / `ref.ref_id` ↔
    `Ref.docs` / `Ref.refId`. Strict mode (`odxraise` / `odxassert` raise); `warnings.warn` has no effect on the result. -/
namespace OdxVerif.OdxLink
open Spec

/-- **Tie.** For every database, reference and expected type the rendered source of `resolve` / `resolve_lenient` has exactly the
    outcome of the hand-written model in strict mode (same object, resp. the same exception class `KeyError` / `OdxError`) -/
theorem C10_gen_resolve_eq (db : Db) (r : Ref) (exp : Option String) :
    Gen.resolveE db r exp = Py.call errOfLink (resolve db r exp true) ∧
    Gen.resolveLenientE db r exp = Py.call errOfLink (resolveLenient db r exp true) :=
  ⟨gen_resolve_eq db r exp, gen_resolveLenient_eq db r exp⟩

/-- **C10 for the generated function**: the source of `resolve`, as it is now, returns `o` iff `o` is the object stored under the
    reference's id in the innermost document fragment of the reference that stores this id, and `o` has the expected type -/
theorem C10_gen_resolve (db : Db) (r : Ref) (exp : Option String) (o : Obj) :
    Gen.resolveE db r exp = .ok (some o) ↔ Resolves (stored db) r o ∧ o.isInst exp = true := by
  rw [gen_resolve_eq, ← C10_resolve]
  cases resolve db r exp true with
  | ok a => exact ⟨(fun h => by cases h; rfl), (fun h => by cases h; rfl)⟩
  | error e => exact ⟨(fun h => by cases h), (fun h => by cases h)⟩

/-- … and it never returns `None`, raises `KeyError` exactly for a dangling reference (no fragment of the reference stores the id)
    and `OdxError` exactly when the innermost stored object has the wrong type -/
theorem C10_gen_resolve_errors (db : Db) (r : Ref) (exp : Option String) :
    Gen.resolveE db r exp ≠ .ok none ∧
    (Gen.resolveE db r exp = .error .keyError ↔ findIn db r.refId r.docs.reverse = none) ∧
    (Gen.resolveE db r exp = .error .odxError ↔ ∃ o, findIn db r.refId r.docs.reverse = some o ∧ o.isInst exp = false) := by
  rw [gen_resolve_eq]
  unfold resolve typed
  cases hf : findIn db r.refId r.docs.reverse with
  | none =>
    refine ⟨(fun h => by cases h), ⟨fun _ => rfl, fun _ => rfl⟩, ⟨(fun h => by cases h), (fun ⟨o, h, _⟩ => by cases h)⟩⟩
  | some o =>
    by_cases ht : o.isInst exp = true
    · simp only [ht, if_true]
      refine ⟨(fun h => by cases h), ⟨(fun h => by cases h), (fun h => by cases h)⟩, ⟨(fun h => by cases h), fun ⟨o', h, h'⟩ => ?_⟩⟩
      cases h; rw [ht] at h'; cases h'
    · simp only [ht, if_true]
      refine ⟨(fun h => by cases h), ⟨(fun h => by cases h), (fun h => by cases h)⟩, ⟨fun _ => ⟨o, rfl, by simpa using ht⟩, fun _ => rfl⟩⟩

/-- the innermost fragment wins, for the generated function (`C10_innermost_wins`) -/
theorem C10_gen_innermost_wins (db : Db) (outer : List Frag) (inner : Frag) (i : String) (o : Obj)
    (h : stored db inner i = some o) :
    Gen.resolveE db ⟨i, outer ++ [inner]⟩ none = .ok (some o) := by
  rw [C10_gen_resolve]
  exact ⟨((C10_resolve db ⟨i, outer ++ [inner]⟩ none o).1 (C10_innermost_wins db outer inner i o true h)).1, rfl⟩

/-- **Tie, `resolve_snref`.** For every short name, candidate list and expected type the rendered source has exactly the outcome
    of the hand-written `resolveSnref` in strict mode -/
theorem C10_gen_snref_eq (name : String) (items : List Obj) (exp : Option String) :
    Gen.resolveSnrefE name items exp = Py.call errOfLink (resolveSnref name items exp true) :=
  gen_resolveSnref_eq name items exp

/-- **C10 short-name references, for the generated function** (`C10_snref_unique`): the source of `resolve_snref`, as it is now,
    returns `o` iff `o` is the only item with that short name and has the expected type; otherwise it raises `OdxError` — it never
    returns `None` and never another object -/
theorem C10_gen_snref_unique (name : String) (items : List Obj) (exp : Option String) :
    (∀ o, Gen.resolveSnrefE name items exp = .ok (some o) ↔ UniquelyNamed items name o ∧ o.isInst exp = true) ∧
    (Gen.resolveSnrefE name items exp = .error .odxError ∨ ∃ o, Gen.resolveSnrefE name items exp = .ok (some o)) := by
  rw [gen_resolveSnref_eq]
  obtain ⟨h1, h2⟩ := C10_snref_unique name items exp
  refine ⟨fun o => ?_, ?_⟩
  · rw [← h1 o]
    cases resolveSnref name items exp true with
    | ok a => exact ⟨(fun h => by cases h; rfl), (fun h => by cases h; rfl)⟩
    | error e => exact ⟨(fun h => by cases h), (fun h => by cases h)⟩
  · rcases h2 with h | ⟨o, h⟩
    · rw [h]; exact .inl rfl
    · rw [h]; exact .inr ⟨o, rfl⟩

/-! non-vacuity: two fragments that both store the id (the inner one wins), an unknown fragment (skipped with a warning), a
    wrong type, a dangling reference -/
section Examples
def fA : Frag := ⟨"A", "CONTAINER"⟩
def fB : Frag := ⟨"B", "LAYER"⟩
def fU : Frag := ⟨"U", "LAYER"⟩
def o1 : Obj := ⟨1, ["DataObjectProperty"], "x"⟩
def o2 : Obj := ⟨2, ["Request"], "x"⟩
def exDb : Db := [(fA, [("id", o1), ("only_a", o1)]), (fB, [("id", o2)])]
example : Gen.resolveE exDb ⟨"id", [fA, fB]⟩ (some "Request") = .ok (some o2) := by decide
example : Gen.resolveE exDb ⟨"only_a", [fA, fU, fB]⟩ none = .ok (some o1) := by decide
example : Gen.resolveE exDb ⟨"id", [fA, fB]⟩ (some "DataObjectProperty") = .error .odxError := by decide
example : Gen.resolveE exDb ⟨"nope", [fA, fB]⟩ none = .error .keyError := by decide
example : Gen.resolveLenientE exDb ⟨"nope", [fA, fB]⟩ none = .ok none := by decide
example : Resolves (stored exDb) ⟨"id", [fA, fB]⟩ o2 ∧ o2.isInst (some "Request") = true :=
  (C10_gen_resolve exDb ⟨"id", [fA, fB]⟩ (some "Request") o2).1 (by decide)
example : Gen.resolveSnrefE "x" [o1, ⟨3, ["Request"], "y"⟩] (some "DataObjectProperty") = .ok (some o1) := by decide
example : Gen.resolveSnrefE "x" [o1, o2] none = .error .odxError := by decide                       -- ambiguous
example : Gen.resolveSnrefE "z" [o1, o2] none = .error .odxError := by decide                       -- unknown
example : Gen.resolveSnrefE "x" [o1] (some "Request") = .error .odxError := by decide               -- wrong type
end Examples

end OdxVerif.OdxLink
