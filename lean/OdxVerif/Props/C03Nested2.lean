import OdxVerif.Props.C02Nested2
import OdxVerif.Proofs.CompBits2Re
/-! # C03, nested tier, second edition (task W17) — decode → re-encode reproduces the PDU for the round-6 constructors
    (`Described2`: BYTE-SIZE structures, MIN-MAX-LENGTH / LEADING-LENGTH leaves, MATCHING-REQUEST-PARAM, DYNAMIC-ENDMARKER-FIELD).
    (Separate file; imported nowhere.) -/
namespace OdxVerif.Codec
open OdxVerif.Bits OdxVerif.OdxM

/- Full statement of C03: see `Props/C03Nested.lean`.  Proved here: the instance where the decoded value tree is a well-formed
   `Desc2`.  "The PDU is described in canonical form" is `hbits` + `hdisj` + `hcover` + `hext` over `Descs2.layout ds`; for the new
   constructs `hbits` says, entry by entry:
     * MIN-MAX-LENGTH leaf: the payload bytes are the value's bytes; the `terminator` entry (present in the layout iff the value
       is terminated: `minmaxMid` — shorter than MAX-LENGTH and not at the end of the PDU; absent for `minmaxFull` / `minmaxLast`)
       reads as the termination sequence,
     * LEADING-LENGTH leaf: the `lengthPrefix` reads as the payload's byte length,
     * MATCHING-REQUEST-PARAM: the `echo` bytes are the bytes of the triggering request `trig` the PDU is re-encoded for
       (arbitrary bytes — but the same request),
     * DYNAMIC-ENDMARKER-FIELD not at the end of the PDU: the `marker` reads as the TERMINATION-VALUE,
     * STRUCTURE with BYTE-SIZE: the `sizePadding` bytes are zero (the encoder does not write them: a non-zero byte there decodes
       to the same value tree and is lost on re-encoding),
     * no two entries share a bit (in particular no BYTE-SIZE padding lies over another object), every bit of the PDU belongs to
       an entry, nothing is encoded beyond the end of the PDU.
   Missing relative to the full statement: what `Described2` lacks (see `Props/C02Nested2.lean`) and the completeness direction. -/

/-- a parameter containing an END-OF-PDU object is present (then necessarily in last position) -/
def Descs2.endsWithEop (ds : List Desc2) : Bool := Comps.anyEop (Descs2.comps ds)

theorem descs2_cur_eq (trig : Option Bytes) (ds : List Desc2) (hwf : Descs2.wfTop trig ds) :
    Comps.cur (Descs2.comps ds) 0 0 = Descs2.endCursor ds := by
  rw [← descs2_pure_cursor trig ds hwf]
  exact (MComps.enc_cursor (Descs2.mcs ds) (Descs2.okAllTop trig ds hwf) {}).symm

/-- **C03, nested tier, second edition — with MATCHING-REQUEST-PARAMs.**  `ds`: a well-formed request / response to `trig`
    (`Descs2.ok`) with its value tree; `pdu`: a PDU whose bits are exactly the canonical layout of `ds` (`hbits`, `hdisj`, `hcover`,
    `hext`; `hend`: an END-OF-PDU object ends at the end of the PDU).  Then strict `decode` of the PDU returns `Descs2.decoded ds`
    (and the cursor `Descs2.endCursor ds`), and strict `encode` — for the same triggering request — of the supplied values
    `Descs2.supplied ds` returns the PDU byte for byte, without an overlap warning.  `Descs2.supplied ds` is `Descs2.decoded ds`
    without the entries of parameters for which no value is handed to the encoder (MATCHING-REQUEST-PARAMs; omitted constants
    and defaults): `Descs2.supplied_eq_decoded` / `C03_reencode_nested2` for value trees that are fully supplied. -/
theorem C03_reencode_nested2_echo (ds : List Desc2) (trig : Option Bytes) (hok : Descs2.ok trig ds) (pdu : Bytes) (hall : AllBytes pdu)
    (hbits : ∀ e ∈ Descs2.layout ds, ∀ j, j < e.bl → getBit pdu (absBit e.pos e.k e.hl (j + e.bp)) = e.raw.testBit j)
    (hdisj : LDisj2 (Descs2.layout ds))
    (hcover : ∀ a, a < 8 * pdu.length → ∃ e ∈ Descs2.layout ds, e.claims a)
    (hext : Descs2.extent ds ≤ pdu.length)
    (hend : Descs2.endsWithEop ds = true → Descs2.endCursor ds = pdu.length) :
    decodeMessage none (Descs2.params ds) pdu true = .ok (.dict (Descs2.decoded ds), Descs2.endCursor ds) ∧
      encodeMessage none (Descs2.params ds) (.dict (Descs2.supplied ds)) trig true = .ok (pdu, 0) := by
  obtain ⟨hm, hw⟩ := descs2_reencode_pure trig ds hok.1 pdu hall hbits ((LDisj2_iff _).mp hdisj) hcover hext
  have henc : encodeMessage none (Descs2.params ds) (.dict (Descs2.supplied ds)) trig true = .ok (pdu, 0) := by
    rw [descs2_encodeMessage trig ds hok, hm, hw]
  refine ⟨?_, henc⟩
  have hcur := descs2_cur_eq trig ds hok.1
  have hdec := mcomps_roundtrip_msg_cur (Descs2.mcs ds) trig hok.2.2.2.2 (Descs2.okAllTop trig ds hok.1)
    (Comps.endOkAll_of_forall _ (fun g hg => by
      obtain ⟨m, hm', rfl⟩ := MComps.mem_cs hg
      exact (Descs2.describedTop trig ds hok.1 m hm').ok.2)) hok.2.2.1 hok.2.2.2.1 hok.2.1 pdu
    (fun h => by
      have h1 : Comps.cur (Descs2.comps ds) 0 0 = Descs2.endCursor ds := hcur
      have h2 := hend h
      exact h1.trans h2) henc
  have hdec' : decodeMessage none (Descs2.params ds) pdu true =
      .ok (.dict (Descs2.decoded ds), Comps.cur (Descs2.comps ds) 0 0) := hdec
  rw [hcur] at hdec'
  exact hdec'

/-- **C03, nested tier, second edition.**  As `C03_reencode_nested`: for a fully supplied value tree (`Descs2.full`: an entry for
    every parameter; no MATCHING-REQUEST-PARAM) strict `decode` of the canonical PDU returns exactly `V = Descs2.decoded ds`, and
    strict `encode` of exactly that `V` returns the PDU, without an overlap warning. -/
theorem C03_reencode_nested2 (ds : List Desc2) (trig : Option Bytes) (hok : Descs2.ok trig ds) (hfull : Descs2.full ds)
    (pdu : Bytes) (hall : AllBytes pdu)
    (hbits : ∀ e ∈ Descs2.layout ds, ∀ j, j < e.bl → getBit pdu (absBit e.pos e.k e.hl (j + e.bp)) = e.raw.testBit j)
    (hdisj : LDisj2 (Descs2.layout ds))
    (hcover : ∀ a, a < 8 * pdu.length → ∃ e ∈ Descs2.layout ds, e.claims a)
    (hext : Descs2.extent ds ≤ pdu.length)
    (hend : Descs2.endsWithEop ds = true → Descs2.endCursor ds = pdu.length) :
    decodeMessage none (Descs2.params ds) pdu true = .ok (.dict (Descs2.decoded ds), Descs2.endCursor ds) ∧
      encodeMessage none (Descs2.params ds) (.dict (Descs2.decoded ds)) trig true = .ok (pdu, 0) := by
  have h := C03_reencode_nested2_echo ds trig hok pdu hall hbits hdisj hcover hext hend
  rw [Descs2.supplied_eq_decoded ds hfull] at h
  exact h

/-- the converse: the PDU that strict `encode` makes satisfies the canonicity hypotheses except coverage — provided no
    BYTE-SIZE padding lies over an earlier object -/
theorem C03_encoded_is_canonical2 (ds : List Desc2) (trig : Option Bytes) (hok : Descs2.ok trig ds) (hp : Descs2.padOk ds) (pdu : Bytes)
    (henc : encodeMessage none (Descs2.params ds) (.dict (Descs2.supplied ds)) trig true = .ok (pdu, 0)) :
    (∀ e ∈ Descs2.layout ds, ∀ j, j < e.bl → getBit pdu (absBit e.pos e.k e.hl (j + e.bp)) = e.raw.testBit j) ∧
    LDisj2 (Descs2.layout ds) ∧ Descs2.extent ds ≤ pdu.length := by
  obtain ⟨h1, _, h4⟩ := C02_bit_exact_nested2 ds trig hok pdu henc
  exact ⟨(h1 hp).1, (h1 hp).2, by omega⟩

/-! ### non-vacuity: the example of `Props/C02Nested2.lean` as a decoded value tree -/

instance Ent2.decClaims (e : Ent2) (a : Nat) : Decidable (e.claims a) := by unfold Ent2.claims Ent.claims; infer_instance

/-- with the constant present; the echo stays a MATCHING-REQUEST-PARAM (no value supplied) -/
def exRe2 : List Desc2 := [.const (bU8 "sid") (.int 0x62) true, .matching "echo" none 1 2 b2Trig, b2Hdr, b2St, b2Tail]

theorem exRe2_ok : Descs2.ok (some b2Trig) exRe2 := by
  refine ⟨⟨?_, ⟨rfl, allBytes_of_all _ (by decide), by decide, by decide, by decide⟩, wf_b2Hdr, wf_b2St, wf_b2Tail, trivial⟩, ?_,
    ⟨rfl, rfl, rfl, rfl, trivial⟩, rfl, by decide⟩
  · show (bU8 "sid").ok ∧ (bU8 "sid").inRange (.int 0x62)
    exact ⟨bU8_ok _, bU8_range _ _ (by decide) (by decide)⟩
  · simp [Comps.namesOk, exRe2, Descs2.comps, Descs2.mcs, Desc2.mc, MComps.cs, Comp.name, Param.name, Comp.ofObjConst,
      Obj.toConstParam, Comp.matchingReq, b2Hdr, b2St, b2Tail, Comp.ofValue, bU8]

theorem exRe2_bits : ∀ e ∈ Descs2.layout exRe2, ∀ j, j < e.bl → getBit exBits2Pdu (absBit e.pos e.k e.hl (j + e.bp)) = e.raw.testBit j := by
  decide +kernel
theorem exRe2_cover : ∀ a, a < 8 * exBits2Pdu.length → ∃ e ∈ Descs2.layout exRe2, e.claims a := by
  decide +kernel
theorem exRe2_enc : encodeMessage none (Descs2.params exRe2) (.dict (Descs2.supplied exRe2)) (some b2Trig) true = .ok (exBits2Pdu, 0) :=
  Except.eq_ok_of_toOption' (by decide +kernel)
theorem exRe2_disj : LDisj2 (Descs2.layout exRe2) := by
  obtain ⟨pdu, w, h, _, hiff⟩ := C02_overlap_iff_nested2 exRe2 (some b2Trig) exRe2_ok
  rw [exRe2_enc] at h
  simp only [Except.ok.injEq, Prod.mk.injEq] at h
  exact (hiff (Descs2.padOk_of_check _ (by decide +kernel))).mp h.2.symm

/-- the theorem applies: the model's strict decoder returns the value tree (with the echo as the integer 0x90F1) and consumes
    the 24 bytes; strict encode of the supplied values for the same request returns the PDU -/
example : decodeMessage none (Descs2.params exRe2) exBits2Pdu true = .ok (.dict (Descs2.decoded exRe2), 24) ∧
    encodeMessage none (Descs2.params exRe2) (.dict (Descs2.supplied exRe2)) (some b2Trig) true = .ok (exBits2Pdu, 0) :=
  C03_reencode_nested2_echo exRe2 (some b2Trig) exRe2_ok exBits2Pdu (by unfold AllBytes exBits2Pdu; decide) exRe2_bits exRe2_disj
    exRe2_cover (by decide +kernel) (fun _ => by decide +kernel)

/-- … and without the echo the decoded tree itself is re-encoded (`C03_reencode_nested2`): `[sid, hdr, st, tail]` -/
def exRe3 : List Desc2 := [.const (bU8 "sid") (.int 0x62) true, b2Hdr, b2St, b2Tail]
def exRe3Pdu : Bytes :=
  [0x62, 0x07, 0x00, 0x00, 0x00, 0xAA, 0xBB, 0x00, 0x03, 0x01, 0x02, 0x03, 0x01, 0x02, 0xFF, 0x5A, 0x01, 0x11, 0x00, 0x02, 0x22, 0x00]

theorem exRe3_ok : Descs2.ok none exRe3 := by
  refine ⟨⟨?_, wf_b2Hdr, wf_b2St, wf_b2Tail, trivial⟩, ?_, ⟨rfl, rfl, rfl, trivial⟩, rfl, by decide⟩
  · show (bU8 "sid").ok ∧ (bU8 "sid").inRange (.int 0x62)
    exact ⟨bU8_ok _, bU8_range _ _ (by decide) (by decide)⟩
  · simp [Comps.namesOk, exRe3, Descs2.comps, Descs2.mcs, Desc2.mc, MComps.cs, Comp.name, Param.name, Comp.ofObjConst,
      Obj.toConstParam, b2Hdr, b2St, b2Tail, Comp.ofValue, bU8]

theorem exRe3_full : Descs2.full exRe3 := by
  simp [exRe3, b2Hdr, b2St, b2Tail, b2TailItem, b2EmField, b2EmItem, Descs2.full, Desc2.full, Descss2.full]

theorem exRe3_disj : LDisj2 (Descs2.layout exRe3) := by
  obtain ⟨pdu, w, h, _, hiff⟩ := C02_overlap_iff_nested2 exRe3 none exRe3_ok
  have h0 : encodeMessage none (Descs2.params exRe3) (.dict (Descs2.supplied exRe3)) none true = .ok (exRe3Pdu, 0) :=
    Except.eq_ok_of_toOption' (by decide +kernel)
  rw [h0] at h
  simp only [Except.ok.injEq, Prod.mk.injEq] at h
  exact (hiff (Descs2.padOk_of_check _ (by decide +kernel))).mp h.2.symm

example : decodeMessage none (Descs2.params exRe3) exRe3Pdu true = .ok (.dict (Descs2.decoded exRe3), 22) ∧
    encodeMessage none (Descs2.params exRe3) (.dict (Descs2.decoded exRe3)) none true = .ok (exRe3Pdu, 0) :=
  C03_reencode_nested2 exRe3 none exRe3_ok exRe3_full exRe3Pdu (by unfold AllBytes exRe3Pdu; decide) (by decide +kernel) exRe3_disj
    (by decide +kernel) (by decide +kernel) (fun _ => by decide +kernel)

/-- a PDU in NON-canonical form is outside the theorem: a non-zero byte in the BYTE-SIZE padding of `hdr` (byte 2) decodes to
    the same value tree — `hbits` fails at the `sizePadding` entry, and decode → encode loses that byte -/
example : ((decodeMessage none (Descs2.params exRe3)
      [0x62, 0x07, 0x99, 0x00, 0x00, 0xAA, 0xBB, 0x00, 0x03, 0x01, 0x02, 0x03, 0x01, 0x02, 0xFF, 0x5A, 0x01, 0x11, 0x00, 0x02, 0x22, 0x00]
      true).toOption.map fun r => pvalEq r.1 (.dict (Descs2.decoded exRe3))) = some true := by decide +kernel

end OdxVerif.Codec
