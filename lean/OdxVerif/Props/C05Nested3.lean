import OdxVerif.Props.C05Nested
import OdxVerif.Props.C01Nested3
/-! # C05, nested tier, compu-method leaves (task W24) — a truncated compu leaf is rejected; nothing is invented.
    The relation `Reads` of `Proofs/CompTrunc.lean` already has the rules for every DOP of the model (`Reads.simple`: a
    `DataObjectProperty` with ANY compu method reads what its diag-coded type reads; `Reads.dtc`), so
    `C05_truncated_rejected_nested` / `C05_no_invention_nested` cover compu leaves.  Added here: the compositional statements
    for prefixes of `Described3` parameters (LINEAR / TEXTTABLE / DTC leaves at any depth), and the leaf rules
    `Reads.ofConvValue` / `Reads.ofDtcValue`: a VALUE parameter over a compu-method DOP / DTC-DOP has to read the `o.bl` bits of
    the object of its INTERNAL value — before any conversion; a PDU that ends inside them is rejected with `DecodeError`
    whatever the compu method would make of the bits.  (Separate file; imported nowhere.) -/
namespace OdxVerif.Codec
open OdxVerif.OdxM OdxVerif.Bits

theorem Described3.decOk {g : Comp} {mid : Bool} (h : Described3 g mid) : g.DecOk := (h.ok.1 (fun _ => True)).decOk

/-- the `Described3` tier (`Proofs/CompCompuDescribed.lean`): `C05_truncated_rejected_described2` with compu leaves in the prefix -/
theorem C05_truncated_rejected_described3 (pre : List Comp) (mid : Bool) (hd : ∀ g ∈ pre, Described3 g mid) (rest : List Param)
    (msg : Bytes) (hlen : pre.length + 2 ≤ modelFuel) (hneed : ∀ g ∈ pre, g.need + pre.length + 2 ≤ modelFuel)
    (hfit : (Comps.pair pre).fits { msg := msg }) (hpre : Comps.decPre pre { msg := msg }) (dr : DecState) (bl : Nat)
    (hr : Reads true (modelFuel - 2 - pre.length) (.params rest) ((Comps.pair pre).dec { msg := msg }).2 dr bl)
    (hshort : msg.length < dr.readEnd bl) :
    decodeMessage none (Comps.toParams pre ++ rest) msg true = .error .decode :=
  C05_truncated_rejected_comps pre (fun g hg => (hd g hg).decOk) rest msg hlen hneed hfit hpre dr bl hr hshort

theorem Obj.readable (o : Obj) (ho : o.ok) : readable o.bt o.bl := by
  obtain ⟨_, hbl, hsz⟩ := ho
  unfold Obj.sizeOk at hsz
  refine ⟨by omega, ?_, ?_⟩ <;> intro hb <;> cases hk : o.kind <;> simp_all [Obj.bt]

/-- **a VALUE parameter over a compu-method DOP reads the object of its internal value** (any physical type, any compu method) -/
theorem Reads.ofConvValue (st : Bool) (f : Nat) (o : Obj) (ho : o.ok) (phys : BaseType) (cm : CCompu) (dv : Option PVal) (d : DecState) :
    ∃ dr, Reads st (f + 2) (.param (.mk o.name o.bytePos o.bitPos (.value (.simple o.dct phys cm) dv))) d dr o.bl ∧ dr.msg = d.msg ∧
      dr.readEnd o.bl = o.pos d.origin d.cursorByte + o.k := by
  refine ⟨d.atParam o.bytePos o.bitPos, ?_, rfl, ?_⟩
  · exact .value _ _ _ _ _ _ _ _ _ (.simple _ _ _ _ _ _ _ (.std _ _ _ _ _ _ _ _ (o.readable ho)))
  · unfold DecState.readEnd DecState.atParam Obj.pos Obj.k Obj.bp
    cases o.bytePos <;> rfl

/-- … and so does a VALUE parameter over a DTC-DOP -/
theorem Reads.ofDtcValue (st : Bool) (f : Nat) (o : Obj) (ho : o.ok) (phys : BaseType) (cm : CCompu) (dtcs : List (Int × String))
    (dv : Option PVal) (d : DecState) :
    ∃ dr, Reads st (f + 2) (.param (.mk o.name o.bytePos o.bitPos (.value (.dtc o.dct phys cm dtcs) dv))) d dr o.bl ∧ dr.msg = d.msg ∧
      dr.readEnd o.bl = o.pos d.origin d.cursorByte + o.k := by
  refine ⟨d.atParam o.bytePos o.bitPos, ?_, rfl, ?_⟩
  · exact .value _ _ _ _ _ _ _ _ _ (.dtc _ _ _ _ _ _ _ _ (.std _ _ _ _ _ _ _ _ (o.readable ho)))
  · unfold DecState.readEnd DecState.atParam Obj.pos Obj.k Obj.bp
    cases o.bytePos <;> rfl

/-- **a truncated compu leaf is rejected**: a VALUE parameter over a compu-method DOP behind a `Described3` prefix whose object —
    at the position the decoder reaches it — does not lie completely inside the message: strict `decode` raises `DecodeError`
    (no conversion of the partial bits is attempted, no value is invented) -/
theorem C05_truncated_compu_leaf (pre : List Comp) (mid : Bool) (hd : ∀ g ∈ pre, Described3 g mid) (o : Obj) (ho : o.ok)
    (phys : BaseType) (cm : CCompu) (dv : Option PVal) (post : List Param)
    (msg : Bytes) (hlen : pre.length + 5 ≤ modelFuel) (hneed : ∀ g ∈ pre, g.need + pre.length + 2 ≤ modelFuel)
    (hfit : (Comps.pair pre).fits { msg := msg }) (hpre : Comps.decPre pre { msg := msg })
    (hshort : msg.length < o.pos ((Comps.pair pre).dec { msg := msg }).2.origin ((Comps.pair pre).dec { msg := msg }).2.cursorByte + o.k) :
    decodeMessage none (Comps.toParams pre ++ .mk o.name o.bytePos o.bitPos (.value (.simple o.dct phys cm) dv) :: post) msg true
      = .error .decode := by
  obtain ⟨k, hk⟩ : ∃ k, modelFuel - 2 - pre.length = k + 2 + 1 := ⟨modelFuel - 5 - pre.length, by omega⟩
  obtain ⟨dr, hr, _, hend⟩ := Reads.ofConvValue true k o ho phys cm dv ((Comps.pair pre).dec { msg := msg }).2
  refine C05_truncated_rejected_described3 pre mid hd _ msg (by omega) hneed hfit hpre dr o.bl ?_ (by rw [hend]; exact hshort)
  rw [hk]
  exact Reads.paramsHead _ _ _ _ dr _ hr

/-- the same for a DTC-DOP leaf -/
theorem C05_truncated_dtc_leaf (pre : List Comp) (mid : Bool) (hd : ∀ g ∈ pre, Described3 g mid) (o : Obj) (ho : o.ok)
    (phys : BaseType) (cm : CCompu) (dtcs : List (Int × String)) (dv : Option PVal) (post : List Param)
    (msg : Bytes) (hlen : pre.length + 5 ≤ modelFuel) (hneed : ∀ g ∈ pre, g.need + pre.length + 2 ≤ modelFuel)
    (hfit : (Comps.pair pre).fits { msg := msg }) (hpre : Comps.decPre pre { msg := msg })
    (hshort : msg.length < o.pos ((Comps.pair pre).dec { msg := msg }).2.origin ((Comps.pair pre).dec { msg := msg }).2.cursorByte + o.k) :
    decodeMessage none (Comps.toParams pre ++ .mk o.name o.bytePos o.bitPos (.value (.dtc o.dct phys cm dtcs) dv) :: post) msg true
      = .error .decode := by
  obtain ⟨k, hk⟩ : ∃ k, modelFuel - 2 - pre.length = k + 2 + 1 := ⟨modelFuel - 5 - pre.length, by omega⟩
  obtain ⟨dr, hr, _, hend⟩ := Reads.ofDtcValue true k o ho phys cm dtcs dv ((Comps.pair pre).dec { msg := msg }).2
  refine C05_truncated_rejected_described3 pre mid hd _ msg (by omega) hneed hfit hpre dr o.bl ?_ (by rw [hend]; exact hshort)
  rw [hk]
  exact Reads.paramsHead _ _ _ _ dr _ hr

/-! ### non-vacuity: the message of `Props/C01Nested3.lean` cut inside the 24-bit DTC object, and inside the TEXTTABLE leaf
    `22 02 04 03 09 12 34` (2 of the 3 bytes of `err`) and `22 02 04 03` (nothing of `mode`): DecodeError, both modes -/
example : [[0x22, 0x02, 0x04, 0x03, 0x09, 0x12, 0x34], [0x22, 0x02, 0x04, 0x03], [0x22, 0x02, 0x04]].all (fun m =>
    failsWith (decodeMessage none (Comps.toParams (MComps.cs ex7)) m true) .decode &&
    failsWith (decodeMessage none (Comps.toParams (MComps.cs ex7)) m false) .decode) = true := by decide +kernel

/-- the leaf rule applied, empty prefix: [ mode : TEXTTABLE u8 ] on the empty message -/
example : decodeMessage none (Comps.toParams [] ++ [Param.mk "mode" none none
      (.value (.simple (Obj.dct ⟨"mode", none, none, none, true, 8, .uint32⟩) .unicode2 (.texttable ex7TScales)) none)]) [] true
    = .error .decode :=
  C05_truncated_compu_leaf [] false (fun _ h => nomatch h) ⟨"mode", none, none, none, true, 8, .uint32⟩
    (by simp [Obj.ok, Obj.encOk, Obj.sizeOk]) .unicode2 (.texttable ex7TScales) none [] [] (by decide) (fun _ h => nomatch h)
    trivial trivial (by decide +kernel)

end OdxVerif.Codec
