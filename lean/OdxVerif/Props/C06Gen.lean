import OdxVerif.Props.C06
import OdxVerif.Proofs.DispatchWalkGenEq
/-! # C06 — the prefix-tree walk through the function GENERATED from the source

    `Gen.findServicesForUdsE` (`Gen/DispatchWalk.lean`) is regenerated from `DiagLayer._find_services_for_uds` of
    `odxtools/diaglayers/diaglayer.py` on every run of C06 (`harness/extract/py2lean.py`); the theorems below are re-checked
    against the current source. Abstract record interface of the rendering: the prefix tree (a dict from byte values to sub-trees
    with the services of a node under the key `-1`) ↔ the model's `Trie Service`: `b in tree` / `tree[b]` ↔ `Trie.find?`,
    `-1 in tree` / `tree[-1]` ↔ `Trie.leaf` (`[]` = the key is absent). -/
namespace OdxVerif.Dispatch

/-- **Tie.** For every prefix tree and message the rendered source raises nothing and returns the model's `Trie.walk` -/
theorem C06_gen_walk_eq (tree : Trie Service) (message : Bytes) :
    Gen.findServicesForUdsE tree message = .ok (tree.walk message) :=
  gen_findServices_eq tree message

/-- **C06 (prefix tree) for the generated function** (`C06_prefix_tree_complete_partial`): on the tree of a layer, the source of
    `_find_services_for_uds`, as it is now, returns exactly the services of the layer that have a coding object (or a request
    prefix) whose constant prefix is a non-empty prefix of `M` -/
theorem C06_gen_prefix_tree_complete_partial (L : Layer) (M : Bytes) :
    ∃ cands, Gen.findServicesForUdsE (buildTree L) M = .ok cands ∧
      ∀ s, s ∈ cands ↔ s ∈ L.services ∧ Found L M s :=
  ⟨_, gen_findServices_eq _ M, fun s => C06_prefix_tree_complete_partial L M s⟩

/-! non-vacuity: shared first byte, a nested prefix, a service list at an inner node and at the end, an unknown byte (`break`) -/
section Examples
def gA : Service := ⟨1, some ⟨10, [.const [0x22, 1]]⟩, [⟨11, [.const [0x62, 1]]⟩], []⟩
def gB : Service := ⟨2, some ⟨20, [.const [0x22, 1, 5]]⟩, [⟨21, [.const [0x62]]⟩], []⟩
def gL : Layer := ⟨[gA, gB], [⟨30, [.const [0x7f]]⟩]⟩
example : Gen.findServicesForUdsE (buildTree gL) [0x22, 1, 5, 9] = .ok [gA, gB] := by decide
example : Gen.findServicesForUdsE (buildTree gL) [0x22, 1, 6] = .ok [gA] := by decide
example : Gen.findServicesForUdsE (buildTree gL) [0x62, 1] = .ok [gB, gA] := by decide
example : Gen.findServicesForUdsE (buildTree gL) [0x33, 1] = .ok [] := by decide
example : Gen.findServicesForUdsE (buildTree gL) [0x7f] = .ok [gA, gB] := by decide
end Examples

end OdxVerif.Dispatch
