import OdxVerif.Props.C07
import OdxVerif.Proofs.CompuSegmentAppliesGenEq
/-! # C07 — the segment applicability tests through the functions GENERATED from the source

    `Gen.ratSegAppliesE`, `Gen.linSegPhysAppliesE`, `Gen.linSegIntAppliesE` (`Gen/CompuSegmentApplies.lean`) are regenerated from
    `RatFuncSegment.applies` (`odxtools/compumethods/ratfuncsegment.py`) and `LinearSegment.physical_applies` / `internal_applies`
    (`linearsegment.py`) on every run of C07; the theorems below are re-checked against the current source. The limits'
    `complies_to_lower` / `complies_to_upper` are the generated functions of `Gen/CompuLimit.lean`. Abstract record interface:
    `self.domain_type` / `physical_type` / `internal_type` ↔ `RatSeg.domTy` / `LinSeg.pty` / `LinSeg.ity` (`.python_type` is the
    identity on the model's `DType`), the limit attributes ↔ `lo/hi`, `plo/phi`, `ilo/ihi`; `isinstance(v, int | float)`,
    `issubclass(T, float)`, `isinstance(v, T)` ↔ the glue `valIsInt`, `valIsFloat`, `DType.isFloat`, `valIsInst` (prelude of the
    generated file; together they are the model's `typeOk`: `typeTest_eq`). -/
namespace OdxVerif.Compu

/-- **Tie.** For every segment and every value the rendered sources have the outcome of the hand-written model functions (the same
    Boolean, or the exception class of the model's error) -/
theorem C07_gen_segment_applies_tie (r : RatSeg) (l : LinSeg) (v : Val) :
    Gen.ratSegAppliesE r v = Py.call Gen.errOfCompu (r.applies v) ∧
    Gen.linSegPhysAppliesE l v = Py.call Gen.errOfCompu (l.physApplies v) ∧
    Gen.linSegIntAppliesE l v = Py.call Gen.errOfCompu (l.intApplies v) :=
  ⟨gen_ratSegApplies_eq r v, gen_linSegPhysApplies_eq l v, gen_linSegIntApplies_eq l v⟩

/-- **Semantics of the generated `RatFuncSegment.applies`** (`RatSeg.applies_spec`): for a well-formed segment the source, as it is
    now, raises nothing and answers `True` exactly for the values of an admissible Python type for the DOMAIN type that denote a
    number inside the limits -/
theorem C07_gen_ratfunc_applies (s : RatSeg) (hwf : s.WF) (v : Val) :
    ∃ b, Gen.ratSegAppliesE s v = .ok b ∧ (b = true ↔ admissible s.domTy v ∧ ∃ x, v.num? = some x ∧ inLimits s.lo s.hi x) := by
  obtain ⟨b, hb, hiff⟩ := RatSeg.applies_spec s hwf v
  exact ⟨b, by rw [gen_ratSegApplies_eq, hb]; rfl, hiff⟩

/-! non-vacuity on the generated functions: an int for a float domain, a float for an int domain (rejected by the type test before
    any limit is looked at — even a limit that would raise), limits met / missed, the exception of `compare_odx_values` -/
section Examples
def exRat (dom : DType) (lo hi : Option Limit) : RatSeg := { num := [0, 1], den := [], lo := lo, hi := hi, rangeTy := .float64, domTy := dom }
def exLin (ity pty : DType) (ilo ihi plo phi : Option Limit) : LinSeg :=
  { offset := 0, factor := 1, denom := 1, ilo := ilo, ihi := ihi, inv := .int 0, ity := ity, pty := pty, plo := plo, phi := phi }
example : Gen.ratSegAppliesE (exRat .float64 (some ⟨some (.int 1), none⟩) (some ⟨some (.int 5), some .open_⟩)) (.int 3) = .ok true ∧
    Gen.ratSegAppliesE (exRat .int32 none none) (.flt 3) = .ok false ∧
    Gen.ratSegAppliesE (exRat .int32 (some ⟨some (.str "a"), none⟩) none) (.flt 3) = .ok false ∧
    Gen.ratSegAppliesE (exRat .int32 (some ⟨some (.str "a"), none⟩) none) (.int 3) = .error .odxError ∧
    Gen.ratSegAppliesE (exRat .float64 (some ⟨some (.int 1), none⟩) (some ⟨some (.int 5), some .open_⟩)) (.int 5) = .ok false ∧
    Gen.ratSegAppliesE (exRat .float64 (some ⟨some (.int 4), none⟩) (some ⟨some (.str "z"), none⟩)) (.int 3) = .ok false := by
  refine ⟨?_, ?_, ?_, ?_, ?_, ?_⟩ <;> decide +kernel
example : Gen.linSegPhysAppliesE (exLin .int32 .float32 none none (some ⟨some (.int 0), none⟩) none) (.int 2) = .ok true ∧
    Gen.linSegPhysAppliesE (exLin .int32 .float32 none none (some ⟨some (.int 0), none⟩) none) (.str "2") = .ok false ∧
    Gen.linSegIntAppliesE (exLin .int32 .float32 (some ⟨some (.int 0), none⟩) (some ⟨some (.int 9), none⟩) none none) (.int 10) = .ok false ∧
    Gen.linSegIntAppliesE (exLin .int32 .float32 (some ⟨some (.int 0), none⟩) (some ⟨some (.int 9), none⟩) none none) (.flt 2) = .ok false ∧
    Gen.linSegIntAppliesE (exLin .str .str none none none none) (.str "a") = .ok true := by
  refine ⟨?_, ?_, ?_, ?_, ?_⟩ <;> decide +kernel
end Examples

end OdxVerif.Compu
