import OdxVerif.Props.C04
import OdxVerif.Proofs.StructReject
/-! # C04 on nested structures — no silent misrepresentation, whatever is supplied
    `C04_flat` (Props/C04.lean) lifted from flat parameter lists to the struct tier: requests / responses /
    structures whose parameters are VALUE parameters over integer objects (`A_INT32` in its four encodings,
    `A_UINT32`), CODED-CONST parameters over any of the five leaf kinds, and arbitrarily nested STRUCTURE-valued
    parameters — and **every** supplied value `pv : PVal` whatsoever: not a dictionary, wrong nesting, lists or atoms
    where dictionaries are expected, atoms of the wrong type, out-of-range numbers, missing / `None` / unknown
    names at any depth, wrong constants.

    The description is a `List Tree` (`Proofs/Compose.lean`); the value baked into an `.int` leaf is a dummy that
    nothing below looks at (`Trees.toParams` forgets it, `Tree.descOk` does not constrain it).

    *What "agrees with the supplied value" means*: the decoder returns `Trees.complete ts kvs`, the Lean transcription
    of `complete_params` (harness/odxgen/values.py): parameter by parameter in description order, the supplied value
    of every VALUE leaf, the constant of every CODED-CONST leaf, recursively for nested structures.

    **`_partial`**: VALUE leaves are restricted to the integer kinds. For `A_FLOAT64` VALUE leaves the model leaves
    `float(int)` unmodelled, for byte fields / strings the arbitrary `PVal` would need a well-formedness
    hypothesis (bytes < 256); constants may be of every kind.
    **Hypothesis `typedFor`** (explicit, decidable): wherever an atom is supplied for a CODED-CONST parameter it is
    equal to the constant or of the same Python type (`int`/`bytes`/`str`). The model does not follow Python's
    `!=` across types (`16.0 != 16` is false, so odxtools accepts `16.0` for the constant 16) and answers
    `unmodelled` there; `C04_struct_never_foreign` shows that this is the only `unmodelled` spot of the tier and
    that no supplied value at all produces a foreign exception. -/
namespace OdxVerif.Codec
open OdxVerif.Bits OdxVerif.OdxM

/-- **C04, struct tier.** Strict `encode` of the model on a nested description and an arbitrary supplied value
    either raises `EncodeError` / plain `OdxError`, or returns a PDU — and then the value was a dictionary the
    description accepts (`acceptedBy`: no unknown names and `Trees.fill` succeeds, i.e. every VALUE leaf got a
    representable integer atom, every supplied constant equals its CODED-CONST, every nested structure got a
    dictionary, at every depth), and unless an overlap was reported strict `decode` of the PDU returns exactly the
    completion of the supplied value. -/
theorem C04_struct_partial (ts : List Tree) (hneed : Trees.need ts + 2 ≤ modelFuel) (hd : Trees.descOk ts)
    (pv : PVal) (trig : Option Bytes) (hty : pv.typedFor ts = true) :
    (∃ e, encodeMessage none (Trees.toParams ts) pv trig true = .error e ∧ (e = .encode ∨ e = .odx)) ∨
    ∃ (kvs : List (String × PVal)) (pdu : Bytes) (w : Nat), pv = .dict kvs ∧ pv.acceptedBy ts = true ∧
      encodeMessage none (Trees.toParams ts) pv trig true = .ok (pdu, w) ∧
      (w = 0 → ∃ cursor, decodeMessage none (Trees.toParams ts) pdu true =
        .ok (.dict (Trees.complete ts kvs), cursor)) := by
  rcases encodeMessage_struct_cases ts hneed hd pv trig with ⟨_, e, hrun, he⟩ | ⟨kvs, ts', s0, rfl, hfill, hacc, hm, _, hw, hc, ho, hrun⟩
  · rcases he with he | ⟨_, hf⟩
    · exact Or.inl ⟨e, hrun, he⟩
    · rw [hty] at hf; cases hf
  · refine Or.inr ⟨kvs, _, _, rfl, hacc, hrun, ?_⟩
    intro hwarn
    exact struct_roundtrip_fill ts hneed hd kvs ts' hfill s0 hm hw hc ho hwarn

/-- **No foreign exception, no other `unmodelled` spot** — without the `typedFor` hypothesis: every failure of the
    strict encoder on the struct tier is `EncodeError`, `OdxError`, or the model's `unmodelled` at an ill-typed
    constant. -/
theorem C04_struct_never_foreign (ts : List Tree) (hneed : Trees.need ts + 2 ≤ modelFuel) (hd : Trees.descOk ts)
    (pv : PVal) (trig : Option Bytes) (e : Err)
    (h : encodeMessage none (Trees.toParams ts) pv trig true = .error e) :
    e = .encode ∨ e = .odx ∨ (e = .unmodelled ∧ pv.typedFor ts = false) := by
  rcases encodeMessage_struct_cases ts hneed hd pv trig with ⟨_, e', hrun, he⟩ | ⟨kvs, ts', s0, _, _, _, _, _, _, _, _, hrun⟩
  · rw [hrun] at h
    cases h
    rcases he with (he | he) | he
    · exact Or.inl he
    · exact Or.inr (Or.inl he)
    · exact Or.inr (Or.inr he)
  · rw [hrun] at h; cases h

/-- **accepted ⇔ acceptable**: the strict encoder returns a PDU exactly for the dictionaries `acceptedBy` describes. -/
theorem C04_struct_accepts_iff (ts : List Tree) (hneed : Trees.need ts + 2 ≤ modelFuel) (hd : Trees.descOk ts)
    (pv : PVal) (trig : Option Bytes) :
    (∃ r, encodeMessage none (Trees.toParams ts) pv trig true = .ok r) ↔ pv.acceptedBy ts = true := by
  rcases encodeMessage_struct_cases ts hneed hd pv trig with ⟨hacc, e, hrun, _⟩ | ⟨kvs, ts', s0, _, _, hacc, _, _, _, _, _, hrun⟩
  · rw [hrun, hacc]
    constructor
    · rintro ⟨r, h⟩; cases h
    · intro h; cases h
  · rw [hrun, hacc]
    exact ⟨fun _ => rfl, fun _ => ⟨_, rfl⟩⟩

/-! ## non-vacuity: a UDS-like request — CODED-CONST service id, a structure with an explicitly positioned nested
    structure, sub-byte objects, all four outcomes and malformed values at every depth -/
def c04Desc : List Tree :=
  [.const ⟨"sid", none, none, none, true, 8, .uint32⟩ (.int 0x2e),
   .struct "s" (some 2) [.int ⟨"a", none, some 2, some .sm, true, 5, .int32⟩ (.int 0),
                          .struct "inner" (some 3) [.int ⟨"x", none, none, none, false, 16, .int32⟩ (.int 0),
                                                    .const ⟨"tag", none, none, none, true, 16, .bytes⟩ (.bytes [0xca, 0xfe])],
                          .int ⟨"b", some 1, none, none, true, 16, .uint32⟩ (.int 0)],
   .int ⟨"y", some 1, none, none, true, 8, .int32⟩ (.int 0)]

example : Trees.need c04Desc + 2 ≤ modelFuel := by decide
example : Trees.descOk c04Desc := by
  simp [c04Desc, Trees.descOk, Tree.descOk, Obj.ok, Obj.encOk, Obj.sizeOk, Obj.isInt, Obj.inRange, int32Known, AllBytes]

/-- an accepted value: keys in another order, the service id supplied (and equal), the inner constant not supplied -/
def c04Good : PVal :=
  .dict [("y", .atom (.int (-128))), ("sid", .atom (.int 0x2e)),
         ("s", .dict [("b", .atom (.int 0xbeef)), ("inner", .dict [("x", .atom (.int (-2)))]), ("a", .atom (.int (-9)))])]

example : c04Good.typedFor c04Desc = true ∧ c04Good.acceptedBy c04Desc = true := by decide +kernel
example : (encodeMessage none (Trees.toParams c04Desc) c04Good none true).toOption
    = some ([0x2e, 0x80, 0x64, 0xbe, 0xef, 0xfe, 0xff, 0xca, 0xfe], 0) := by decide +kernel
/-- the completion of `c04Good`: description order, constants filled in -/
def c04Expect : PVal :=
  .dict [("sid", .atom (.int 0x2e)),
         ("s", .dict [("a", .atom (.int (-9))),
                      ("inner", .dict [("x", .atom (.int (-2))), ("tag", .atom (.bytes [0xca, 0xfe]))]),
                      ("b", .atom (.int 0xbeef))]),
         ("y", .atom (.int (-128)))]
/-- the decoder returns it (`pvalEq`: the model's structural equality of value trees; `PVal` has no `DecidableEq`) -/
example : (match decodeMessage none (Trees.toParams c04Desc) [0x2e, 0x80, 0x64, 0xbe, 0xef, 0xfe, 0xff, 0xca, 0xfe] true with
    | .ok (v, cursor) => pvalEq v c04Expect && cursor == 2
    | .error _ => false) = true := by decide +kernel
example : (match c04Good with
    | .dict kvs => pvalEq (.dict (Trees.complete c04Desc kvs)) c04Expect
    | _ => false) = true := by decide +kernel

/-- every kind of malformed value is rejected with a library error (each one satisfies `typedFor`) -/
def c04Bad : List (PVal × Err) :=
  let inner (x : PVal) : PVal := .dict [("x", x)]
  let s (a inner b : PVal) : PVal := .dict [("a", a), ("inner", inner), ("b", b)]
  let top (sv y : PVal) : PVal := .dict [("s", sv), ("y", y)]
  let i (n : Int) : PVal := .atom (.int n)
  [ (.list [], .encode),                                                           -- not a dictionary at all
    (.atom (.int 1), .encode),
    (top (.list [i 1, i 2, i 3]) (i 0), .encode),                                  -- a list where a dictionary is expected
    (top (i 5) (i 0), .encode),                                                    -- an atom where a dictionary is expected
    (top (s (i 0) (i 7) (i 0)) (i 0), .encode),                                    -- the same, one level deeper
    (top (s (i 0) (inner (i 0)) (i 0)) (.dict []), .encode),                       -- a dictionary where an atom is expected
    (top (s (i 0) (inner (.atom (.str [0x41]))) (i 0)) (i 0), .encode),            -- wrong Python type, depth 2
    (top (s (i 0) (inner (i 32768)) (i 0)) (i 0), .encode),                        -- out of range by one, depth 2
    (top (s (i (-16)) (inner (i 0)) (i 0)) (i 0), .encode),                        -- out of range (sign-magnitude, 5 bits)
    (top (s (i 0) (inner (i 0)) (i (-1))) (i 0), .odx),                            -- negative value for an unsigned object
    (top (s (i 0) (inner (i 0)) (i 65536)) (i 0), .encode),
    (top (s (i 0) (.dict []) (i 0)) (i 0), .encode),                               -- missing at depth 2
    (top (.dict [("a", i 0), ("b", i 0)]) (i 0), .encode),                         -- missing structure
    (top (s (i 0) (inner .none) (i 0)) (i 0), .encode),                            -- `None` at depth 2
    (top (s (i 0) (.dict [("x", i 0), ("zz", i 0)]) (i 0)) (i 0), .odx),           -- unknown name at depth 2
    (.dict [("s", s (i 0) (inner (i 0)) (i 0)), ("y", i 0), ("sid", i 0x2f)], .encode),   -- wrong constant
    (top (s (i 0) (.dict [("x", i 0), ("tag", .atom (.bytes [0xca, 0xff]))]) (i 0)) (i 0), .encode),  -- wrong constant, depth 2
    (.dict [("s", s (i 0) (inner (i 0)) (i 0)), ("y", i 0), ("sid", .dict [])], .encode) ]   -- a dictionary for a constant

example : c04Bad.all (fun p => p.1.typedFor c04Desc && p.1.acceptedBy c04Desc == false &&
    errClass (encodeMessage none (Trees.toParams c04Desc) p.1 none true) == some p.2) = true := by decide +kernel

/-- the `typedFor` hypothesis is what it excludes: a float supplied for an integer constant is `unmodelled` -/
example : let pv : PVal := .dict [("sid", .atom (.flt 0x4047000000000000)), ("s", .dict [("a", .atom (.int 0)), ("inner", .dict [("x", .atom (.int 0))]), ("b", .atom (.int 0))]), ("y", .atom (.int 0))]
    pv.typedFor c04Desc = false ∧
    errClass (encodeMessage none (Trees.toParams c04Desc) pv none true) = some .unmodelled := by decide +kernel

end OdxVerif.Codec
