import OdxVerif.Props.C07
import OdxVerif.Props.C01
import OdxVerif.Proofs.CompuDop
/-! # C01 / C03 — leaves with a LINEAR compu method (integer coefficients, integer coded and physical type)

    `Model/Codec.lean` / `Model/Decode.lean` follow `DataObjectProperty.encode_into_pdu / decode_from_pdu` through the compu
    method (`Model/CodecCompu.lean`); the conversions themselves are the exact-rational model of property C07.  Here the two
    are connected: on a valid value inside the exactness guard the DOP is *the diag-coded type composed with the C07
    conversion* (`C01_linear_leaf_encode`, `C01_linear_leaf_decode`, both modes), and with the C07 round-trip theorem
    (`C07_roundtrip_linear`: slope of magnitude ≥ 1, no OPEN limit, no rounding tie at slope ±1) and the atomic round trip
    (`C01_roundtrip_partial`) a leaf that encodes the physical image of an internal value decodes to that physical value.

    Not proved: the lift to whole messages (`encodeMessage`/`decodeMessage` of a structure that contains such leaves) — that
    needs the leaf to become an `Obj` kind of `Proofs/FlatStep.lean` (`encodeParam_obj` / `decodeParam_obj`); a real physical
    type; TEXTTABLE; DTC-DOPs.  These are covered by the executable model + correspondence only. -/
namespace OdxVerif.Codec
open OdxVerif.OdxM OdxVerif.Bits OdxVerif.Compu

/-- **Encoding a LINEAR leaf = converting, then encoding the internal value** (any diag-coded type, strict and lenient):
    for a physical integer the method declares valid, inside the exactness guard, whose internal image is valid. -/
theorem C01_linear_leaf_encode (dct : Dct) (phys : BaseType) (d : LinDesc) (s : LinSeg)
    (hm : linMethod? d dct.baseType phys = some (.linear s)) (z i : Int)
    (hvp : (Method.linear s).validP (.int z) = .ok true) (hex : exactP s z = true)
    (hconv : (Method.linear s).p2i (.int z) = .ok (.int i)) (hvi : (Method.linear s).validI (.int i) = .ok true)
    (fuel : Nat) (es : EncState) (strict : Bool) :
    encodeDop (fuel + 1) (.simple dct phys (.linear d)) (.atom (.int z)) es strict = encodeDct dct (.int i) es strict := by
  unfold encodeDop
  simp only [CCompu.method?, hm, bind, run_bind, dopP2I_linear_int s z i hvp hex hconv hvi]

/-- **Decoding a LINEAR leaf = decoding the internal value, then converting** (any diag-coded type, strict and lenient). -/
theorem C01_linear_leaf_decode (dct : Dct) (phys : BaseType) (d : LinDesc) (s : LinSeg)
    (hm : linMethod? d dct.baseType phys = some (.linear s)) (hd : s.denom ≠ 0) (i z : Int)
    (hvi : (Method.linear s).validI (.int i) = .ok true) (hex : exactI s i = true)
    (hconv : (Method.linear s).i2p (.int i) = .ok (.int z))
    (fuel : Nat) (ds ds' : DecState) (strict : Bool) (hdec : decodeDct dct ds strict = .ok (.int i, ds')) :
    decodeDop (fuel + 1) (.simple dct phys (.linear d)) ds strict = .ok (.atom (.int z), ds') := by
  unfold decodeDop
  simp only [CCompu.method?, hm, bind, run_bind, hdec, dopI2P_linear_int s i z hd hvi hex hconv, pure, run_pure]

/-- **Round trip of a LINEAR leaf** (the compu clause of C01/C03 at the level of the DOP): a standard-length `A_INT32` object
    (any of the four encodings, bit length 1–64, bit position, byte order) with a LINEAR compu method with integer
    coefficients `(num0 + num1·x)/den`, `den ≠ 0`, `|num1/den| ≥ 1`, an integer physical type, no OPEN limit.  For every
    internal value `i` the method declares valid and the object can represent, where — for `|num1| = |den|` — the exact image
    is not half-way between two integers: the physical image `z` exists, the strict encoder accepts `z` and writes exactly the
    object `i`, and the strict decoder run on the produced message at the same position returns `z` and the cursor behind the
    object.  (`exactI`/`exactP`: the binary64 computation of odxtools is exact there — decidable, see `Model/CodecCompu.lean`.)
    The tie condition cannot be dropped: `C07_roundtrip_linear_tie_counterexample`. -/
theorem C01_roundtrip_linear_leaf (enc : Option Enc) (hk : int32Known enc = true) (bl : Nat) (hbl : 1 ≤ bl) (hbl64 : bl ≤ 64)
    (hl : Bool) (phys : BaseType) (d : LinDesc) (s : LinSeg)
    (hm : linMethod? d .int32 phys = some (.linear s)) (hden : d.den ≠ 0)
    (hpty : s.pty.isInt = true) (hslope : |s.denom| ≤ |s.factor|) (hlo : notOpen s.ilo) (hhi : notOpen s.ihi)
    (i : Int) (htie : |s.denom| < |s.factor| ∨ ¬ isTie (linear s.offset s.factor s.denom i))
    (hvalid : (Method.linear s).validI (.int i) = .ok true) (hr : Spec.representable enc bl i) (hexI : exactI s i = true) :
    ∃ z : Int, (Method.linear s).i2p (.int i) = .ok (.int z) ∧
      (exactP s z = true → ∀ (fuel : Nat) (es : EncState), AllBytes es.msg →
        ∃ es', encodeDop (fuel + 1) (.simple (.std .int32 enc hl bl none false) phys (.linear d)) (.atom (.int z)) es true
              = .ok ((), es') ∧
          decodeDop (fuel + 1) (.simple (.std .int32 enc hl bl none false) phys (.linear d))
              { msg := es'.msg, cursorByte := es.cursorByte, cursorBit := es.cursorBit } true
              = .ok (.atom (.int z), { msg := es'.msg, cursorByte := es'.cursorByte, cursorBit := 0 })) := by
  obtain ⟨hwf, hdq, _, _, hity, _⟩ := linMethod_wf hm hden
  have hd0 : s.denom ≠ 0 := hwf.2.1
  have hityInt : s.ity.isInt = true := by
    have : s.ity = .int32 := by simpa [dtype?] using hity.symm
    rw [this]; rfl
  have hden1 : (1 : Rat) ≤ |s.denom| := by
    rw [hdq]; exact_mod_cast Int.one_le_abs hden
  have hf : eps ≤ |s.factor| := by
    have : eps ≤ 1 := by norm_num [eps]
    linarith
  obtain ⟨p, hp, hvp, hback⟩ := C07_roundtrip_linear s hwf i hityInt hf (Or.inr ⟨hlo, hhi, hslope, htie⟩) hvalid
  have hia : s.intApplies (.int i) = .ok true := hvalid
  have hpz : ∃ z : Int, p = .int z := by
    simp [Method.i2p, hia, bind, Except.bind, LinSeg.convI2P, Val.num?, hd0, hpty] at hp
    exact ⟨_, hp.symm⟩
  obtain ⟨z, rfl⟩ := hpz
  refine ⟨z, hp, ?_⟩
  intro hexP fuel es hmsg
  obtain ⟨es', he, _, hx⟩ := C01_roundtrip_partial enc hk bl hbl hbl64 i hr hl es hmsg
  refine ⟨es', ?_, ?_⟩
  · rw [C01_linear_leaf_encode (.std .int32 enc hl bl none false) phys d s hm z i hvp hexP hback hvalid]
    simpa [encodeDct] using he
  · exact C01_linear_leaf_decode (.std .int32 enc hl bl none false) phys d s hm hd0 i z hvalid hexI hp fuel _ _ true (by simpa [decodeDct] using hx)

/-- **Strict encoding of a LINEAR / TEXTTABLE leaf refines the C07 model** (any diag-coded type): whenever the strict
    encoder accepts an atom for such a DOP, the method object exists, the value is one the method declares valid
    (`Method.validP`), what reaches the diag-coded type is `Method.p2i` of it, and that internal value is declared valid
    (`Method.validI`). Hence every C07 theorem about `p2i`/`validP`/`validI` (formula, rounding, limits, TEXTTABLE inverse) holds
    of what the codec model encodes. The converse fails only by `unmodelled` (exactness guard). -/
theorem C01_compu_leaf_strict_encode (dct : Dct) (phys : BaseType) (cm : CCompu) (hni : cm ≠ .identical) (hno : cm ≠ .other)
    (v : IVal) (fuel : Nat) (es es' : EncState)
    (h : encodeDop (fuel + 1) (.simple dct phys cm) (.atom v) es true = .ok ((), es')) :
    ∃ m p i r, cm.method? dct.baseType phys = some m ∧ toVal? v = some p ∧ m.validP p = .ok true ∧ m.p2i p = .ok i ∧
      m.validI i = .ok true ∧ ofVal? i false = some r ∧ encodeDct dct r es true = .ok ((), es') := by
  unfold encodeDop at h
  cases cm with
  | identical => exact absurd rfl hni
  | other => exact absurd rfl hno
  | linear d =>
    simp only [] at h
    cases hm : (CCompu.linear d).method? dct.baseType phys with
    | none => simp [hm, run_raise] at h
    | some m =>
      simp only [hm, bind, run_bind] at h
      cases hc : (dopP2I m v : EncM IVal) es true with
      | error e => simp [hc] at h
      | ok x =>
        obtain ⟨r, s1⟩ := x
        obtain ⟨p, i, h1, h2, h3, h4, h5, rfl⟩ := dopP2I_strict m v r es s1 hc
        simp only [hc] at h
        exact ⟨m, p, i, r, rfl, h1, h2, h3, h4, h5, h⟩
  | texttable scs =>
    simp only [] at h
    cases hm : (CCompu.texttable scs).method? dct.baseType phys with
    | none => simp [hm, run_raise] at h
    | some m =>
      simp only [hm, bind, run_bind] at h
      cases hc : (dopP2I m v : EncM IVal) es true with
      | error e => simp [hc] at h
      | ok x =>
        obtain ⟨r, s1⟩ := x
        obtain ⟨p, i, h1, h2, h3, h4, h5, rfl⟩ := dopP2I_strict m v r es s1 hc
        simp only [hc] at h
        exact ⟨m, p, i, r, rfl, h1, h2, h3, h4, h5, h⟩

/-- **Strict decoding of a LINEAR / TEXTTABLE leaf refines the C07 model**: whatever the strict decoder returns for such a
    DOP is an atom — `Method.i2p` of the internal value the diag-coded type extracted, which the method declares valid. -/
theorem C01_compu_leaf_strict_decode (dct : Dct) (phys : BaseType) (cm : CCompu) (hni : cm ≠ .identical) (hno : cm ≠ .other)
    (fuel : Nat) (ds ds' : DecState) (pv : PVal)
    (h : decodeDop (fuel + 1) (.simple dct phys cm) ds true = .ok (pv, ds')) :
    ∃ m iv i p x, cm.method? dct.baseType phys = some m ∧ decodeDct dct ds true = .ok (iv, ds') ∧ toVal? iv = some i ∧
      m.validI i = .ok true ∧ m.i2p i = .ok p ∧ ofVal? p (negZeroOf m) = some x ∧ pv = .atom x := by
  unfold decodeDop at h
  simp only [bind, run_bind] at h
  cases hd : decodeDct dct ds true with
  | error e => simp [hd] at h
  | ok y =>
    obtain ⟨iv, s1⟩ := y
    simp only [hd] at h
    cases cm with
    | identical => exact absurd rfl hni
    | other => exact absurd rfl hno
    | linear d =>
      cases hm : (CCompu.linear d).method? dct.baseType phys with
      | none => simp [hm, run_raise] at h
      | some m =>
        simp only [hm, run_bind] at h
        cases hc : (dopI2P m iv : DecM (Option IVal)) s1 true with
        | error e => simp [hc] at h
        | ok z =>
          obtain ⟨r, s2⟩ := z
          obtain ⟨i, p, x, h1, h2, h3, h4, rfl, rfl⟩ := dopI2P_strict m iv r s1 s2 hc
          simp [hc, pure, run_pure] at h
          obtain ⟨rfl, rfl⟩ := h
          exact ⟨m, iv, i, p, x, rfl, rfl, h1, h2, h3, h4, rfl⟩
    | texttable scs =>
      cases hm : (CCompu.texttable scs).method? dct.baseType phys with
      | none => simp [hm, run_raise] at h
      | some m =>
        simp only [hm, run_bind] at h
        cases hc : (dopI2P m iv : DecM (Option IVal)) s1 true with
        | error e => simp [hc] at h
        | ok z =>
          obtain ⟨r, s2⟩ := z
          obtain ⟨i, p, x, h1, h2, h3, h4, rfl, rfl⟩ := dopI2P_strict m iv r s1 s2 hc
          simp [hc, pure, run_pure] at h
          obtain ⟨rfl, rfl⟩ := h
          exact ⟨m, iv, i, p, x, rfl, rfl, h1, h2, h3, h4, rfl⟩

/-! non-vacuity: `phys = (1 + 5x)/1` on `[2, 15]`, 8-bit sign-magnitude object at bit position 0 (the LINEAR method of
    tests/test_compu_methods.py::test_linear_compu_method_limits); internal 4 ↔ physical 21 -/
def exLin : LinDesc := { num0 := 1, num1 := 5, den := 1, lower := some (2, false), upper := some (15, false) }
def exLinSeg : LinSeg :=
  { offset := 1, factor := 5, denom := 1, ilo := some ⟨some (.int 2), some .closed⟩, ihi := some ⟨some (.int 15), some .closed⟩,
    inv := .int 0, ity := .int32, pty := .int32, plo := some ⟨some (.int 11), some .closed⟩, phi := some ⟨some (.int 76), some .closed⟩ }
theorem exLin_method : linMethod? exLin .int32 .int32 = some (.linear exLinSeg) := by decide +kernel
example : exLin.den ≠ 0 ∧ exLinSeg.pty.isInt = true ∧ |exLinSeg.denom| < |exLinSeg.factor| ∧ notOpen exLinSeg.ilo ∧ notOpen exLinSeg.ihi ∧
    (Method.linear exLinSeg).validI (.int 4) = .ok true ∧ Spec.representable (some .sm) 8 4 ∧ exactI exLinSeg 4 = true ∧
    (Method.linear exLinSeg).i2p (.int 4) = .ok (.int 21) ∧ exactP exLinSeg 21 = true := by
  refine ⟨by decide, rfl, by decide +kernel, ?_, ?_, by decide +kernel, by simp [Spec.representable], by decide +kernel,
    by decide +kernel, by decide +kernel⟩
  · intro l h; cases h; decide
  · intro l h; cases h; decide
/-- the concrete PDUs: `[sid = 0x22, x]`, physical 21 ↦ `22 04`, and back; an invalid physical value (77 > 76) and an
    invalid internal value (1 < 2) are rejected in strict mode; lenient decoding of the invalid internal value gives `None` -/
def exLinParams : List Param :=
  [.mk "sid" none none (.codedConst (.std .uint32 none true 8 none false) (.int 0x22)),
   .mk "x" none none (.value (.simple (.std .int32 (some .sm) true 8 none false) .int32 (.linear exLin)) none)]
example : (encodeMessage none exLinParams (.dict [("x", .atom (.int 21))]) none true).toOption = some ([0x22, 0x04], 0) := by
  decide +kernel
def decodesTo (r : Except Err (PVal × Nat)) (v : PVal) (n : Nat) : Bool :=
  match r with
  | .ok (w, k) => pvalEq w v && k == n
  | .error _ => false
def failsWith {α : Type} (r : Except Err α) (e : Err) : Bool :=
  match r with
  | .error e' => e' == e
  | .ok _ => false
example : decodesTo (decodeMessage none exLinParams [0x22, 0x04] true)
    (.dict [("sid", .atom (.int 0x22)), ("x", .atom (.int 21))]) 2 = true := by decide +kernel
example : failsWith (encodeMessage none exLinParams (.dict [("x", .atom (.int 77))]) none true) .encode = true := by decide +kernel
example : failsWith (decodeMessage none exLinParams [0x22, 0x01] true) .decode = true := by decide +kernel
example : decodesTo (decodeMessage none exLinParams [0x22, 0x01] false)
    (.dict [("sid", .atom (.int 0x22)), ("x", .none)]) 2 = true := by decide +kernel


/-! non-vacuity of the refinement theorems: a TEXTTABLE leaf (`0..3 ↦ "lo"`, `4..9 ↦ "hi"` with COMPU-INVERSE-VALUE 9) encodes
    and decodes in strict mode -/
def exTT : CCompu := .texttable [{ lo := .int 0, hi := .int 3, text := [0x6c, 0x6f], inv := none },
                                 { lo := .int 4, hi := .int 9, text := [0x68, 0x69], inv := some (.int 9) }]
def exTTParams : List Param :=
  [.mk "x" none none (.value (.simple (.std .uint32 none true 8 none false) .unicode2 exTT) none)]
example : exTT ≠ .identical ∧ exTT ≠ .other := ⟨by simp [exTT], by simp [exTT]⟩
example : (encodeMessage none exTTParams (.dict [("x", .atom (.str [0x68, 0x69]))]) none true).toOption = some ([9], 0) := by
  decide +kernel
example : decodesTo (decodeMessage none exTTParams [5] true) (.dict [("x", .atom (.str [0x68, 0x69]))]) 1 = true := by
  decide +kernel
example : failsWith (decodeMessage none exTTParams [10] true) .decode = true := by decide +kernel

end OdxVerif.Codec
