import OdxVerif.Props.C12
import OdxVerif.Proofs.IsoTpGenEq
/-! # C12 through the function GENERATED from the source

    `Gen.decodeRxFrameE`, `Gen.lookup`, `Gen.slotInit`, `Gen.feedE` (file `Gen/IsoTpStep.lean`) are produced by
    `harness/extract/py2lean.py` from the current `odxtools/isotp_state_machine.py` on every run of the check.
    The theorems below are therefore re-checked against what the code says *now*: they stop compiling when
    `decode_rx_frame` or `__init__` change behaviour (or leave the translator's subset — then the `regenerate`
    obligation fails instead).

    `AllBytes f` (every element of a frame is `< 256`) is the typing side condition of the rendering of `bytes` as
    `List Nat`; it is not a bound: frames, telegrams and streams are of arbitrary length. -/
namespace OdxVerif.IsoTp
open OdxVerif.Bits (AllBytes)

/-- **Tie (per slot).** For every slot state and every frame the body of `decode_rx_frame`, as rendered from the
    source, raises nothing and returns exactly the new slot and the callback/yield list of the model's `step`. -/
theorem C12_gen_step (s : Slot) (f : Bytes) (hf : AllBytes f) : Gen.decodeRxFrameE s f = .ok (step s f) :=
  gen_stepE_eq s f hf

/-- **Tie (whole method).** Lookup of the CAN ID (`list.index`, `ValueError` → nothing happens), body on the selected
    slot, all other slots untouched: the generated method is the model's `feed`; the generated constructor state is
    the model's `St.init`. -/
theorem C12_gen_feed (st : St) (fr : Nat × Bytes) (hf : AllBytes fr.2) :
    Gen.feedE st fr = .ok (feed st fr) ∧ Gen.stInit st.ids = St.init st.ids :=
  ⟨gen_feedE_eq st fr hf, rfl⟩

/-- **Main statement of C12, about the generated function.** Any interleaving `fs` of frames of any number of CAN
    IDs, flow-control frames and unrelated IDs mixed in: if the non-flow-control frames carrying ID `i` are, in order, the
    segmentations of the transfers `xs`, the telegrams the generated `decode_rx_frame` reports for `i`, starting from the
    generated constructor state, are exactly the payloads of `xs`, in order, each once. -/
theorem C12_interleaved_gen (ids : List Nat) (i : Nat) (hi : i ∈ ids) (fs : List (Nat × Bytes))
    (hb : ∀ fr ∈ fs, AllBytes fr.2)
    (xs : List Xfer) (hx : ∀ x ∈ xs, x.ok)
    (hfs : (((fs.filter fun f => f.1 = i).map (·.2)).filter fun f => !isFlowControl f)
              = xs.flatMap Xfer.frames) :
    telegramsOf i (Gen.feedAll (Gen.stInit ids) fs).2 = xs.map (·.p) := by
  rw [gen_feedAll_eq fs hb, gen_stInit_eq]
  exact C12_interleaved ids i hi fs xs hx hfs

/-- one ID, any sequence of transfers, through the generated function -/
theorem C12_sequence_gen (xs : List Xfer) (hx : ∀ x ∈ xs, x.ok) (hb : ∀ f ∈ xs.flatMap Xfer.frames, AllBytes f)
    (s : Slot) : telegrams (Gen.run s (xs.flatMap Xfer.frames)).2 = xs.map (·.p) := by
  rw [gen_run_eq _ hb]
  exact C12_sequence xs hx s

/-! non-vacuity: the hypotheses of `C12_interleaved_gen` are met by the two-ID interleaving of `Props/C12.lean`
    (20-byte telegram = FF + 2 CF with padding, a single frame on the other ID, a flow-control frame and an unrelated
    ID in between), and the generated function itself — not the model — computes the telegrams -/
example :
    let x : Xfer := ⟨8, [0xAA], List.range 20⟩
    let y : Xfer := ⟨8, [], [1, 2, 3]⟩
    let fs : List (Nat × Bytes) :=
      [(1, x.frames[0]!), (2, y.frames[0]!), (1, [0x30, 0, 0]), (9, [1, 2]), (1, x.frames[1]!), (1, x.frames[2]!)]
    (∀ fr ∈ fs, AllBytes fr.2) ∧
    (((fs.filter fun f => f.1 = 1).map (·.2)).filter fun f => !isFlowControl f) = [x].flatMap Xfer.frames ∧
    telegramsOf 1 (Gen.feedAll (Gen.stInit [1, 2]) fs).2 = [x.p] ∧
    telegramsOf 2 (Gen.feedAll (Gen.stInit [1, 2]) fs).2 = [y.p] := by
  refine ⟨by decide, by decide, by decide, by decide⟩

/-- the generated body on a concrete CAN-FD single frame (escape: length in byte 1) -/
example : Gen.decodeRxFrameE {} [0x00, 3, 1, 2, 3, 4, 5, 6, 7, 8]
    = .ok ({}, [.single [1, 2, 3], .complete [1, 2, 3], .tele [1, 2, 3]]) := by decide

end OdxVerif.IsoTp
