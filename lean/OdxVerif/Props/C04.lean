import OdxVerif.Props.C02
import OdxVerif.Proofs.FlatReject
/-! # C04 — the encoder never silently emits a PDU that misrepresents its input
    Proved tier: atomic `A_INT32` objects, **every** integer `v` (no range hypothesis): strict encoding
    either fails with the library's encode error and writes nothing, or succeeds and the decoder returns
    `v`. (At the pinned commit this was false: 200 was accepted for 8 bits and came back as −56;
    fixed in /repo by the "reject signed integers …" commit, whose code this model follows.)
    `C04_flat` lifts this to `Request.encode` / `Request.decode` of the model on flat descriptions and
    **arbitrary** supplied values (missing, `None`, wrongly typed, not an atom, out of range, unknown names).
    Nested composites and the other base types: executable model + correspondence + direct oracle. -/
namespace OdxVerif.Codec
open OdxVerif.Bits OdxVerif.OdxM

theorem C04_no_silent_corruption_partial (enc : Option Enc) (hk : int32Known enc = true) (bl : Nat) (hbl : 1 ≤ bl)
    (hbl64 : bl ≤ 64) (v : Int) (hl : Bool) (s : EncState) (hmsg : AllBytes s.msg) :
    emplaceAtomic (.int v) bl .int32 enc hl none s true = .error (.encode, s) ∨
    ∃ s', emplaceAtomic (.int v) bl .int32 enc hl none s true = .ok ((), s') ∧
      extractAtomic bl .int32 enc hl { msg := s'.msg, cursorByte := s.cursorByte, cursorBit := s.cursorBit } true =
        .ok (.int v, { msg := s'.msg, cursorByte := s'.cursorByte, cursorBit := 0 }) := by
  by_cases hr : int32InRange enc bl v
  · obtain ⟨s', h1, _, h3⟩ := atomic_int32_roundtrip enc hk bl hbl hbl64 v hr hl s hmsg
    exact Or.inr ⟨s', h1, h3⟩
  · exact Or.inl (emplaceAtomic_int32_reject enc hk bl hbl v hr hl none s)

/-- accepted ⇔ representable -/
theorem C04_accepts_iff_representable (enc : Option Enc) (hk : int32Known enc = true) (bl : Nat) (hbl : 1 ≤ bl)
    (hbl64 : bl ≤ 64) (v : Int) (hl : Bool) (s : EncState) :
    (∃ s', emplaceAtomic (.int v) bl .int32 enc hl none s true = .ok ((), s')) ↔ Spec.representable enc bl v := by
  constructor
  · intro ⟨s', h⟩
    by_cases hr : int32InRange enc bl v
    · exact hr
    · rw [emplaceAtomic_int32_reject enc hk bl hbl v hr hl none s] at h; cases h
  · intro hr
    obtain ⟨s', h1, _⟩ := emplaceAtomic_int32 enc hk bl hbl hbl64 v hr hl s
    exact ⟨s', h1⟩

theorem zip_map_self {α β : Type} (l : List α) (f : α → β) : l.zip (l.map f) = l.map fun a => (a, f a) := by
  induction l with
  | nil => rfl
  | cons a rest ih => simp [List.zip_cons_cons, ih]

def errClass {α : Type} : Except Err α → Option Err
  | .error e => some e
  | .ok _ => none

/-- **C04, flat tier, API level of the model.** For every list of (≤ 4000) positioned integer VALUE parameters
    (`A_INT32`, `A_UINT32`) and *every* dictionary of supplied values whatsoever, strict `Request.encode` either
    * raises the library's `EncodeError` (some parameter is missing, `None`, not an integer atom, or not
      representable) or a plain `OdxError` (unknown parameter name; negative value for an unsigned object) —
      never a foreign exception —, or
    * returns a PDU, and then every parameter was supplied with a representable value, and — unless the
      encoder reported overlapping objects — strict `Request.decode` of that PDU returns exactly the
      supplied values, parameter by parameter. -/
theorem C04_flat (os : List Obj) (hlen : os.length ≤ 4000) (hok : ∀ o ∈ os, o.ok ∧ o.isInt)
    (values : List (String × PVal)) (trig : Option Bytes) :
    (∃ e, encodeMessage none (os.map Obj.toParam) (.dict values) trig true = .error e ∧ (e = .encode ∨ e = .odx)) ∨
    ∃ (vs : List IVal) (pdu : Bytes) (w : Nat), vs.length = os.length ∧
      encodeMessage none (os.map Obj.toParam) (.dict values) trig true = .ok (pdu, w) ∧
      (∀ ov ∈ os.zip vs, lookup ov.1.name values = some (.atom ov.2) ∧ ov.1.inRange ov.2) ∧
      (w = 0 → ∃ cursor, decodeMessage none (os.map Obj.toParam) pdu true =
        .ok (.dict ((os.zip vs).map fun ov => (ov.1.name, PVal.atom ov.2)), cursor)) := by
  by_cases hunk : values.any (fun kv => !((os.map Obj.toParam).any fun p => p.name == kv.1)) = true
  · exact Or.inl ⟨.odx, encodeMessage_flat_unknown os values trig hunk, Or.inr rfl⟩
  have hknown : values.any (fun kv => !((os.map Obj.toParam).any fun p => p.name == kv.1)) = false := by
    simpa using hunk
  by_cases hbad : ∃ o ∈ os, o.pick values = none
  · exact Or.inl (encodeMessage_flat_bad os hlen hok values trig hknown hbad)
  -- every object has a representable supplied value
  have hgood : ∀ o ∈ os, ∃ v, o.pick values = some v := by
    intro o ho
    cases hp : o.pick values with
    | none => exact absurd ⟨o, ho, hp⟩ hbad
    | some v => exact ⟨v, rfl⟩
  let vs : List IVal := os.map fun o => (o.pick values).getD (.int 0)
  have hzip : os.zip vs = os.map fun o => (o, (o.pick values).getD (.int 0)) := zip_map_self os _
  have hmap1 : (os.zip vs).map (fun ov => ov.1.toParam) = os.map Obj.toParam := by
    rw [hzip]; simp [List.map_map, Function.comp_def]
  have hall : ∀ ov ∈ os.zip vs, (ov.1.ok ∧ ov.1.inRange ov.2) ∧ lookup ov.1.name values = some (.atom ov.2) := by
    intro ov hov
    rw [hzip] at hov
    obtain ⟨o, ho, rfl⟩ := List.mem_map.mp hov
    obtain ⟨v, hv⟩ := hgood o ho
    obtain ⟨h1, h2⟩ := Obj.pick_some values o (hok o ho).1 v hv
    simp only [hv, Option.getD_some]
    exact ⟨⟨(hok o ho).1, h2⟩, h1⟩
  have hlen' : (os.zip vs).length ≤ 4000 := by rw [hzip]; simpa using hlen
  have hknown' : values.any (fun kv => !(((os.zip vs).map fun ov => ov.1.toParam).any fun p => p.name == kv.1)) = false := by
    rw [hmap1]; exact hknown
  obtain ⟨s0, _, _, _, _, _, hrun⟩ := encodeMessage_flat (os.zip vs) hlen' values trig
    (fun ov h => (hall ov h).1) (fun ov h => (hall ov h).2) hknown'
  rw [hmap1] at hrun
  refine Or.inr ⟨vs, _, _, by simp [vs], hrun, fun ov h => ⟨(hall ov h).2, (hall ov h).1.2⟩, ?_⟩
  intro hw
  rw [hw] at hrun
  have hrt := flat_roundtrip (os.zip vs) hlen' values trig (fun ov h => (hall ov h).1) (fun ov h => (hall ov h).2) hknown'
    _ (by rw [hmap1]; exact hrun)
  rw [hmap1] at hrt
  exact hrt

/-- non-vacuity: each of the outcomes occurs -/
example : errClass (encodeMessage none ([⟨"a", none, none, none, true, 8, .int32⟩].map Obj.toParam) (.dict [("a", .atom (.int 200))]) none true)
    = some .encode := by decide +kernel
example : errClass (encodeMessage none ([⟨"a", none, none, none, true, 8, .uint32⟩].map Obj.toParam) (.dict [("a", .atom (.int 256))]) none true)
    = some .encode := by decide +kernel
example : errClass (encodeMessage none ([⟨"a", none, none, none, true, 8, .uint32⟩].map Obj.toParam) (.dict [("a", .atom (.int (-1)))]) none true)
    = some .odx := by decide +kernel
example : errClass (encodeMessage none ([⟨"a", none, none, none, true, 8, .int32⟩].map Obj.toParam) (.dict [("a", .atom (.str [65]))]) none true)
    = some .encode := by decide +kernel
example : errClass (encodeMessage none ([⟨"a", none, none, none, true, 8, .int32⟩].map Obj.toParam) (.dict []) none true)
    = some .encode := by decide +kernel
example : errClass (encodeMessage none ([⟨"a", none, none, none, true, 8, .int32⟩].map Obj.toParam) (.dict [("a", .atom (.int 1)), ("zz", .none)]) none true)
    = some .odx := by decide +kernel
example : (encodeMessage none ([⟨"a", none, none, none, true, 8, .int32⟩].map Obj.toParam) (.dict [("a", .atom (.int (-2)))]) none true).toOption
    = some ([254], 0) := by decide +kernel
example : (encodeMessage none ([⟨"a", none, none, none, true, 8, .uint32⟩].map Obj.toParam) (.dict [("a", .atom (.int 254))]) none true).toOption
    = some ([254], 0) := by decide +kernel

/-- **Open finding `condensed-bit-mask-index-error`, exhibited in the model.** A condensed BIT-MASK whose number
    of one-bits needs fewer bytes than BIT-LENGTH makes the used-bits mask shorter than the coded object:
    `emplace_bytes` indexes past its end (IndexError — a foreign exception); three witnesses. -/
theorem C04_condensed_counterexample :
    let p : Param := .mk "x" none none (.value (.simple (.std .uint32 none true 16 (some 0x0ff0) true) .uint32 .identical) none)
    errClass (encodeMessage none [p] (.dict [("x", .atom (.int 0))]) none true) = some .foreign ∧
    errClass (encodeMessage none [p] (.dict [("x", .atom (.int 0x0550))]) none true) = some .foreign ∧
    errClass (encodeMessage none [p] (.dict [("x", .atom (.int 65535))]) none true) = some .foreign := by
  decide +kernel

/-- the witnesses of the pinned-commit defect are now rejected -/
example : ¬ Spec.representable none 8 200 ∧ ¬ Spec.representable none 8 (-129) ∧
    ¬ Spec.representable (some .onec) 8 128 ∧ ¬ Spec.representable (some .sm) 8 128 := by
  simp [Spec.representable]

end OdxVerif.Codec
