import OdxVerif.Props.C02
/-! # C04 — the encoder never silently emits a PDU that misrepresents its input
    Proved tier: atomic `A_INT32` objects, **every** integer `v` (no range hypothesis): strict encoding
    either fails with the library's encode error and writes nothing, or succeeds and the decoder returns
    `v`. (At the pinned commit this was false: 200 was accepted for 8 bits and came back as −56;
    fixed in /repo by the "reject signed integers …" commit, whose code this model follows.)
    Composite tier and the other base types: executable model + correspondence + direct oracle (`_partial`). -/
namespace OdxVerif.Codec
open OdxVerif.Bits OdxVerif.OdxM

theorem C04_no_silent_corruption_partial (enc : Option Enc) (hk : int32Known enc = true) (bl : Nat) (hbl : 1 ≤ bl)
    (hbl64 : bl ≤ 64) (v : Int) (hl : Bool) (s : EncState) (hmsg : AllBytes s.msg) :
    emplaceAtomic (.int v) bl .int32 enc hl none s true = .error (.encode, s) ∨
    ∃ s', emplaceAtomic (.int v) bl .int32 enc hl none s true = .ok ((), s') ∧
      extractAtomic bl .int32 enc hl { msg := s'.msg, cursorByte := s.cursorByte, cursorBit := s.cursorBit } true =
        .ok (.int v, { msg := s'.msg, cursorByte := s'.cursorByte, cursorBit := 0 }) := by
  by_cases hr : int32InRange enc bl v
  · obtain ⟨s', h1, _, h3⟩ := atomic_int32_roundtrip enc hk bl hbl hbl64 v hr hl s hmsg
    exact Or.inr ⟨s', h1, h3⟩
  · exact Or.inl (emplaceAtomic_int32_reject enc hk bl hbl v hr hl none s)

/-- accepted ⇔ representable -/
theorem C04_accepts_iff_representable (enc : Option Enc) (hk : int32Known enc = true) (bl : Nat) (hbl : 1 ≤ bl)
    (hbl64 : bl ≤ 64) (v : Int) (hl : Bool) (s : EncState) :
    (∃ s', emplaceAtomic (.int v) bl .int32 enc hl none s true = .ok ((), s')) ↔ Spec.representable enc bl v := by
  constructor
  · intro ⟨s', h⟩
    by_cases hr : int32InRange enc bl v
    · exact hr
    · rw [emplaceAtomic_int32_reject enc hk bl hbl v hr hl none s] at h; cases h
  · intro hr
    obtain ⟨s', h1, _⟩ := emplaceAtomic_int32 enc hk bl hbl hbl64 v hr hl s
    exact ⟨s', h1⟩

/-- the witnesses of the pinned-commit defect are now rejected -/
example : ¬ Spec.representable none 8 200 ∧ ¬ Spec.representable none 8 (-129) ∧
    ¬ Spec.representable (some .onec) 8 128 ∧ ¬ Spec.representable (some .sm) 8 128 := by
  simp [Spec.representable]

end OdxVerif.Codec
