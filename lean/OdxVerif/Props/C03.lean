import OdxVerif.Props.C02
import OdxVerif.Proofs.FlatReencode
import OdxVerif.Proofs.FlattenDec
/-! # C03 — decoding a PDU and re-encoding the result reproduces the PDU
    Proved tier: atomic `A_INT32` objects — every canonical raw bit pattern is interpreted as a value the
    encoder accepts and maps back to the same pattern (two's complement: all patterns; one's complement
    and sign-magnitude: all but "negative zero", which has two wire forms and is excluded by the
    property's "canonical form"). The compu-method clause of C03 is proved in `Props/C07.lean`
    (`C07_roundtrip_*`). Composite tier: executable model + correspondence only (`_partial`). -/
namespace OdxVerif.Codec
open OdxVerif.Bits OdxVerif.OdxM

theorem C03_reencode_partial (enc : Option Enc) (hk : int32Known enc = true) (bl : Nat) (hbl : 1 ≤ bl) (raw : Nat)
    (hc : canonRaw enc bl raw) :
    Spec.representable enc bl (int32OfRaw enc bl raw) ∧
    (int32Raw enc bl (int32OfRaw enc bl raw)).toNat = raw :=
  int32_raw_roundtrip enc hk bl hbl raw hc

/-- the excluded patterns really have a second wire form: negative zero decodes to 0, and 0 encodes as all-zero -/
theorem C03_negative_zero_counterexample :
    int32OfRaw (some .onec) 8 0xFF = 0 ∧ (int32Raw (some .onec) 8 0).toNat = 0 ∧
    int32OfRaw (some .sm) 8 0x80 = 0 ∧ (int32Raw (some .sm) 8 0).toNat = 0 := by decide

/-- **C03, flat composite tier (pure level of the model).** A description of positioned leaf objects (`A_INT32` / `A_UINT32` plain or BCD /
    `A_FLOAT64` / `A_FLOAT32` / `A_BYTEFIELD` / `A_ASCIISTRING` / `A_UTF8STRING` / `A_UNICODE2STRING`: the kinds of `Proofs/FlatStep.lean`) whose
    claims are pairwise disjoint (`PairDisj`, a value-independent property of the description), a PDU in which all
    objects fit (`Fits`), whose every bit is claimed by some object (`ClaimedBy` — "all bits described by
    value-carrying parameters") and whose raw patterns are canonical (`Canon` — no negative zero; every pattern of a plain
    unsigned object is canonical; BCD: decimal digits only; float32 / text: the patterns the decoder accepts): encoding the
    values the decoder returns (`reenc` pairs every object with its decoded value) into a fresh message reproduces
    the PDU byte for byte, with no overlap warning. `encAll` is the pure form of the model's encoder
    (`Proofs/FlatMsg.lean`: `encodeMessage_flat`), `decVals` of its decoder. -/
theorem C03_reencode_flat (os : List Obj) (pdu : Bytes) (hok : ∀ o ∈ os, o.ok) (hall : AllBytes pdu)
    (hdisj : PairDisj 0 os 0) (hfit : Fits 0 pdu os 0) (hcanon : Canon 0 pdu os 0)
    (hdesc : ∀ a, a < 8 * pdu.length → ClaimedBy 0 os 0 a)
    (s0 : EncState) (hm : s0.msg = []) (hu : s0.used = []) (hc : s0.cursorByte = 0) (ho : s0.origin = 0) :
    (encAll (reenc 0 pdu os 0) s0).msg = pdu ∧ (encAll (reenc 0 pdu os 0) s0).warn = s0.warn :=
  reencode_flat os pdu hok hall hdisj hfit hcanon hdesc s0 hm hu hc ho

/-- **C03, nested-structure tier, at the API level of the model.** A request/response built from VALUE and
    CODED-CONST parameters over the leaf kinds of `Proofs/FlatStep.lean` and arbitrarily nested structures, and a PDU such that
    * every leaf lies inside the PDU, every raw pattern read is canonical (no negative zero) and every CODED-CONST
      leaf carries its constant (`Trees.reads`),
    * the leaves — at the absolute positions of the flattening `Trees.flat` — are pairwise disjoint and together
      claim every bit of the PDU ("all bits described by value-carrying parameters").
    Then strict `Request.decode` returns a value tree `V`, and strict `Request.encode` of exactly that `V` returns
    the PDU byte for byte, without an overlap warning. -/
theorem C03_reencode_struct (ts : List Tree) (hneed : Trees.need ts + 2 ≤ modelFuel) (hn : Trees.namesOk ts)
    (pdu : Bytes) (hall : AllBytes pdu) (hreads : Trees.reads pdu ts 0 0)
    (hdisj : PairDisj 0 ((Trees.flat ts 0 0).1.map (·.1)) 0)
    (hdesc : ∀ a, a < 8 * pdu.length → ClaimedBy 0 ((Trees.flat ts 0 0).1.map (·.1)) 0 a) (trig : Option Bytes) :
    ∃ (V : List (String × PVal)) (cursor : Nat),
      decodeMessage none (Trees.toParams ts) pdu true = .ok (.dict V, cursor) ∧
      encodeMessage none (Trees.toParams ts) (.dict V) trig true = .ok (pdu, 0) := by
  -- the re-decoded description
  let ts' := (Trees.redecode pdu ts 0 0).1
  have hok' : Trees.okAll ts' := Trees.redecode_ok pdu ts 0 0 hreads
  have hn' : Trees.namesOk ts' := (Trees.redecode_namesOk pdu ts hn 0 0).1
  have hneed' : Trees.need ts' + 2 ≤ modelFuel := by
    show Trees.need (Trees.redecode pdu ts 0 0).1 + 2 ≤ modelFuel
    rw [Trees.redecode_need]; exact hneed
  have hpar : Trees.toParams ts' = Trees.toParams ts := Trees.redecode_toParams pdu ts 0 0
  obtain ⟨hv, _, _, _, hfit⟩ := Trees.dec_redecode ts { msg := pdu } hreads
  obtain ⟨hdec_eq, hfits_eq⟩ := Trees.redecode_dec pdu ts 0 0
  refine ⟨(Trees.pair ts').val, ((Trees.pair ts).dec { msg := pdu }).2.cursorByte, ?_, ?_⟩
  · -- decode: the model's decoder is the pure decoder, which returns the value tree of ts'
    have hfit' : (Trees.pair ts').fits { msg := pdu } := by
      show (Trees.pair (Trees.redecode pdu ts 0 0).1).fits { msg := pdu }
      rw [hfits_eq]; exact hfit
    have hdec := decodeMessage_tree ts' hneed' hok' pdu hfit'
    rw [hpar] at hdec
    rw [hdec]
    show Except.ok (PVal.dict ((Trees.pair (Trees.redecode pdu ts 0 0).1).dec { msg := pdu }).1,
      ((Trees.pair (Trees.redecode pdu ts 0 0).1).dec { msg := pdu }).2.cursorByte) = _
    rw [hdec_eq, hv]
  · -- encode: the flat encoder on the flattening of ts', which is the flattened description paired with the decoded values
    obtain ⟨s0, hm, hu, hw, hc, ho, hrun⟩ := encodeMessage_tree_flat ts' hneed' hok' hn' trig
    rw [hpar] at hrun
    rw [hrun]
    obtain ⟨hflat, hfits, hcanon⟩ := Trees.flat_redecode pdu ts 0 0 hreads 0
    have hflat' : (Trees.flat ts' 0 0).1 = reenc 0 pdu ((Trees.flat ts 0 0).1.map (·.1)) 0 := hflat
    have hobjs : ∀ o ∈ (Trees.flat ts 0 0).1.map (·.1), o.ok := by
      intro o ho'
      have : o ∈ (Trees.flat ts' 0 0).1.map (·.1) := by rw [hflat', reenc_fst]; exact ho'
      obtain ⟨ov, hov, rfl⟩ := List.mem_map.mp this
      exact (Trees.flat_ok ts' hok' 0 0 ov hov).1
    obtain ⟨hmsg, hwarn⟩ := reencode_flat ((Trees.flat ts 0 0).1.map (·.1)) pdu hobjs hall hdisj hfits hcanon hdesc s0 hm hu hc ho
    rw [hflat', hmsg, hwarn, hw]

/-- **Overlap warning ⇒ static overlap** (C02's "warning exactly when two objects claim the same bit", one
    direction, flat tier): a description whose objects are pairwise disjoint never produces an overlap warning. -/
theorem C03_no_warning_without_overlap (ovs : List (Obj × IVal)) (s : EncState)
    (hpd : PairDisj s.origin (ovs.map (·.1)) s.cursorByte) (hfree : Free s (ovs.map (·.1))) :
    (encAll ovs s).warn = s.warn := encAll_nowarn ovs s hpd hfree

example : canonRaw (some .onec) 8 0xFE := by simp [canonRaw]
/-! canonical patterns of the text / BCD kinds: "é" in UTF-8 is, the overlong `c0 80` and the non-decimal `1a` are not -/
example : (⟨"t", none, none, none, true, 16, .utf8⟩ : Obj).canon 0xc3a9 := by
  refine ⟨by decide, ?_⟩; decide
example : ¬ (⟨"t", none, none, none, true, 16, .utf8⟩ : Obj).canon 0xc080 := by
  intro h; exact absurd h.2 (by decide)
example : (⟨"n", none, none, some .bcdp, true, 8, .bcd⟩ : Obj).canon 0x42 ∧ ¬ (⟨"n", none, none, some .bcdp, true, 8, .bcd⟩ : Obj).canon 0x1a := by
  refine ⟨⟨by decide, by decide⟩, fun h => absurd h.2 (by decide)⟩

end OdxVerif.Codec

namespace OdxVerif.Codec
open OdxVerif.Bits OdxVerif.OdxM

/-! non-vacuity of `C03_reencode_struct`: `22 05` against [CODED-CONST sid = 0x22, STRUCTURE s {x : 8 bit}] -/
def exReTrees : List Tree :=
  [.const ⟨"sid", none, none, none, true, 8, .uint32⟩ (.int 0x22),
   .struct "s" none [.int ⟨"x", none, none, none, true, 8, .uint32⟩ (.int 0)]]

example : Trees.reads [0x22, 0x05] exReTrees 0 0 := by
  simp [exReTrees, Trees.reads, Tree.reads, Tree.redecode, Obj.ok, Obj.encOk, Obj.sizeOk, Obj.inRange, Obj.pos, Obj.k, Obj.bp,
    Obj.canon, Obj.rawAt, Obj.raw, posOf, readNum, ord, ofBytesBE]

example : (Trees.flat exReTrees 0 0).1.map (fun ov => (ov.1.name, ov.1.bytePos, ov.1.bl)) = [("sid", some 0, 8), ("x", some 1, 8)] := by
  decide

theorem claims_byte (o : Obj) (p a : Nat) (hbl : o.bl = 8) (hbp : o.bitPos = none) :
    o.claims p a ↔ a / 8 = p := by
  have hk : o.k = 1 := by simp [Obj.k, Obj.bp, hbl, hbp]
  have hb : o.bp = 0 := by simp [Obj.bp, hbp]
  unfold Obj.claims
  rw [hk, hb, hbl]
  constructor
  · rintro ⟨j, hj, rfl⟩
    unfold absBit
    cases o.hl <;> simp <;> omega
  · intro h
    refine ⟨a % 8, Nat.mod_lt _ (by decide), ?_⟩
    unfold absBit
    cases o.hl <;> simp <;> omega

example : PairDisj 0 ((Trees.flat exReTrees 0 0).1.map (·.1)) 0 ∧
    ∀ a, a < 8 * ([0x22, 0x05] : Bytes).length → ClaimedBy 0 ((Trees.flat exReTrees 0 0).1.map (·.1)) 0 a := by
  have hF : (Trees.flat exReTrees 0 0).1.map (·.1) =
      [(⟨"sid", none, none, none, true, 8, .uint32⟩ : Obj).at 0, (⟨"x", none, none, none, true, 8, .uint32⟩ : Obj).at 1] := by
    simp [exReTrees, Trees.flat, Tree.flat, posOf, Obj.pos, Obj.k, Obj.bp]
  rw [hF]
  constructor
  · refine ⟨?_, ?_, trivial⟩
    · intro pre o' post heq a ⟨h1, h2⟩
      -- the only later object is x at byte 1
      cases pre with
      | nil =>
        simp only [List.nil_append, List.cons.injEq] at heq
        obtain ⟨rfl, _⟩ := heq
        rw [claims_byte _ _ _ rfl rfl] at h1 h2
        simp [Obj.at, Obj.pos, cursorAfter] at h1 h2
        omega
      | cons p pre =>
        simp only [List.cons_append, List.cons.injEq] at heq
        have := heq.2
        cases pre <;> simp at this
    · intro pre o' post heq
      cases pre <;> simp at heq
  · intro a ha
    simp only [List.length_cons, List.length_nil] at ha
    simp only [ClaimedBy]
    by_cases h : a / 8 = 0
    · left
      rw [claims_byte _ _ _ rfl rfl]
      simp [Obj.at, Obj.pos, h]
    · right; left
      rw [claims_byte _ _ _ rfl rfl]
      simp [Obj.at, Obj.pos]
      omega

end OdxVerif.Codec
