import OdxVerif.Props.C02
/-! # C03 — decoding a PDU and re-encoding the result reproduces the PDU
    Proved tier: atomic `A_INT32` objects — every canonical raw bit pattern is interpreted as a value the
    encoder accepts and maps back to the same pattern (two's complement: all patterns; one's complement
    and sign-magnitude: all but "negative zero", which has two wire forms and is excluded by the
    property's "canonical form"). The compu-method clause of C03 is proved in `Props/C07.lean`
    (`C07_roundtrip_*`). Composite tier: executable model + correspondence only (`_partial`). -/
namespace OdxVerif.Codec
open OdxVerif.Bits OdxVerif.OdxM

theorem C03_reencode_partial (enc : Option Enc) (hk : int32Known enc = true) (bl : Nat) (hbl : 1 ≤ bl) (raw : Nat)
    (hc : canonRaw enc bl raw) :
    Spec.representable enc bl (int32OfRaw enc bl raw) ∧
    (int32Raw enc bl (int32OfRaw enc bl raw)).toNat = raw :=
  int32_raw_roundtrip enc hk bl hbl raw hc

/-- the excluded patterns really have a second wire form: negative zero decodes to 0, and 0 encodes as all-zero -/
theorem C03_negative_zero_counterexample :
    int32OfRaw (some .onec) 8 0xFF = 0 ∧ (int32Raw (some .onec) 8 0).toNat = 0 ∧
    int32OfRaw (some .sm) 8 0x80 = 0 ∧ (int32Raw (some .sm) 8 0).toNat = 0 := by decide

example : canonRaw (some .onec) 8 0xFE := by simp [canonRaw]

end OdxVerif.Codec
