import OdxVerif.Props.C02
import OdxVerif.Proofs.FlatReencode
/-! # C03 — decoding a PDU and re-encoding the result reproduces the PDU
    Proved tier: atomic `A_INT32` objects — every canonical raw bit pattern is interpreted as a value the
    encoder accepts and maps back to the same pattern (two's complement: all patterns; one's complement
    and sign-magnitude: all but "negative zero", which has two wire forms and is excluded by the
    property's "canonical form"). The compu-method clause of C03 is proved in `Props/C07.lean`
    (`C07_roundtrip_*`). Composite tier: executable model + correspondence only (`_partial`). -/
namespace OdxVerif.Codec
open OdxVerif.Bits OdxVerif.OdxM

theorem C03_reencode_partial (enc : Option Enc) (hk : int32Known enc = true) (bl : Nat) (hbl : 1 ≤ bl) (raw : Nat)
    (hc : canonRaw enc bl raw) :
    Spec.representable enc bl (int32OfRaw enc bl raw) ∧
    (int32Raw enc bl (int32OfRaw enc bl raw)).toNat = raw :=
  int32_raw_roundtrip enc hk bl hbl raw hc

/-- the excluded patterns really have a second wire form: negative zero decodes to 0, and 0 encodes as all-zero -/
theorem C03_negative_zero_counterexample :
    int32OfRaw (some .onec) 8 0xFF = 0 ∧ (int32Raw (some .onec) 8 0).toNat = 0 ∧
    int32OfRaw (some .sm) 8 0x80 = 0 ∧ (int32Raw (some .sm) 8 0).toNat = 0 := by decide

/-- **C03, flat composite tier (pure level of the model).** A description of positioned `A_INT32` / `A_UINT32` objects whose
    claims are pairwise disjoint (`PairDisj`, a value-independent property of the description), a PDU in which all
    objects fit (`Fits`), whose every bit is claimed by some object (`ClaimedBy` — "all bits described by
    value-carrying parameters") and whose raw patterns are canonical (`Canon` — no negative zero; every pattern of an
    unsigned object is canonical): encoding the
    values the decoder returns (`reenc` pairs every object with its decoded value) into a fresh message reproduces
    the PDU byte for byte, with no overlap warning. `encAll` is the pure form of the model's encoder
    (`Proofs/FlatMsg.lean`: `encodeMessage_flat`), `decVals` of its decoder. -/
theorem C03_reencode_flat (os : List Obj) (pdu : Bytes) (hok : ∀ o ∈ os, o.ok) (hall : AllBytes pdu)
    (hdisj : PairDisj 0 os 0) (hfit : Fits 0 pdu os 0) (hcanon : Canon 0 pdu os 0)
    (hdesc : ∀ a, a < 8 * pdu.length → ClaimedBy 0 os 0 a)
    (s0 : EncState) (hm : s0.msg = []) (hu : s0.used = []) (hc : s0.cursorByte = 0) (ho : s0.origin = 0) :
    (encAll (reenc 0 pdu os 0) s0).msg = pdu ∧ (encAll (reenc 0 pdu os 0) s0).warn = s0.warn :=
  reencode_flat os pdu hok hall hdisj hfit hcanon hdesc s0 hm hu hc ho

/-- **Overlap warning ⇒ static overlap** (C02's "warning exactly when two objects claim the same bit", one
    direction, flat tier): a description whose objects are pairwise disjoint never produces an overlap warning. -/
theorem C03_no_warning_without_overlap (ovs : List (Obj × IVal)) (s : EncState)
    (hpd : PairDisj s.origin (ovs.map (·.1)) s.cursorByte) (hfree : Free s (ovs.map (·.1))) :
    (encAll ovs s).warn = s.warn := encAll_nowarn ovs s hpd hfree

example : canonRaw (some .onec) 8 0xFE := by simp [canonRaw]

end OdxVerif.Codec
