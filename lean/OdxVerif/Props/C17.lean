import OdxVerif.Proofs.SimCodec
/-! # C17 — strict mode is honoured everywhere and lenient mode changes nothing valid
    The models of C01–C05/C08 are written in the effect monad `OdxM`, whose only access to the strict flag
    is `odxraise` (which reads it at the time of the call, exactly like `exceptions.strict_mode` after the
    "honour strict mode changes at run time" fix). First sentence of the property = `Sim`. -/
namespace OdxVerif.Codec
open OdxVerif.OdxM

/-- **Encoding.** Whenever `Request.encode` / `Response.encode` succeeds in strict mode, the lenient run
    returns the identical PDU (and the identical overlap-warning count) — for every description the model
    covers, every value assignment, every triggering request. -/
theorem C17_same_result_encode (bs : Option Nat) (ps : List Param) (v : PVal) (trig : Option Bytes) (r : Bytes × Nat)
    (h : encodeMessage bs ps v trig true = .ok r) : encodeMessage bs ps v trig false = .ok r := by
  unfold encodeMessage at h ⊢
  have hs := (sim_encode_all modelFuel).1 (.struct bs ps) v
  unfold Sim at hs
  cases hm : encodeDop modelFuel (.struct bs ps) v { trig := trig, isEndOfPdu := true } true with
  | error e => rw [hm] at h; cases h
  | ok p =>
    rw [hm] at h
    rw [hs _ p hm]
    exact h

/-- **Decoding**, for descriptions without a DYNAMIC-ENDMARKER-FIELD (whose `try … except DecodeError`
    around the end-marker DOP is the one catch site inside the decoder; see `C17_endmarker_partial`). -/
theorem C17_same_result_decode (bs : Option Nat) (ps : List Param) (hmf : paramsMarkerFree ps = true) (msg : Bytes)
    (r : PVal × Nat) (h : decodeMessage bs ps msg true = .ok r) : decodeMessage bs ps msg false = .ok r := by
  unfold decodeMessage at h ⊢
  have hs := (sim_decode_all modelFuel).1 (.struct bs ps) (by simpa [Dop.markerFree] using hmf)
  unfold Sim at hs
  cases hm : decodeDop modelFuel (.struct bs ps) { msg := msg } true with
  | error e => rw [hm] at h; cases h
  | ok p =>
    rw [hm] at h
    rw [hs _ p hm]
    exact h

/-- the catch-site obligation: a handler is harmless if every error it can catch is raised in lenient mode
    as well — the condition each real `except` site is checked against -/
theorem C17_catch_site {σ α : Type} (m : OdxM σ α) (handles : Err → Bool) (h : Err → OdxM σ α)
    (hm : Sim m) (hh : ∀ e, Sim (h e))
    (hsame : ∀ s e s', m s true = .error (e, s') → handles e = true → m s false = .error (e, s')) :
    Sim (tryCatch m handles h) := sim_tryCatch m handles h hm hh hsame

/-- without that condition the law fails: a handler that swallows an `odxraise`d error, and a direct read
    of the flag, both give a strict success with a different lenient result -/
theorem C17_counterexamples : ¬ Sim OdxM.bad ∧ ¬ Sim OdxM.bad2 := ⟨bad_not_sim, bad2_not_sim⟩

/-- **Switching takes effect immediately**: the flag is an argument of every run, consulted by
    `odxraise` when it is called; the same operation on the same state gives the strict outcome when the
    flag is set and the lenient one when it is not, whatever ran before. -/
theorem C17_switch_immediate {σ : Type} (e : Err) (s : σ) :
    (odxraise e : OdxM σ Unit) s true = .error (e, s) ∧ (odxraise e : OdxM σ Unit) s false = .ok ((), s) :=
  ⟨rfl, rfl⟩

/-! non-vacuity: a strict success exists, and a strict failure that lenient mode turns into a result -/
example : (encodeMessage none [.mk "x" none none (.value (.simple (.std .uint32 none true 8 none false) .uint32 .identical) none)]
    (.dict [("x", .atom (.int 7))]) none true).toOption = some ([7], 0) := by decide
example : (encodeMessage none [.mk "x" none none (.value (.simple (.std .uint32 none true 8 none false) .uint32 .identical) none)]
    (.dict [("x", .atom (.int 300))]) none true).toOption = none ∧
  (encodeMessage none [.mk "x" none none (.value (.simple (.std .uint32 none true 8 none false) .uint32 .identical) none)]
    (.dict [("x", .atom (.int 300))]) none false).toOption = some ([44], 0) := by decide

end OdxVerif.Codec
