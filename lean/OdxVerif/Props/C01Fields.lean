import OdxVerif.Proofs.FieldTier
/-! # C01, field tier — encoding a message with STATIC-FIELDs / DYNAMIC-LENGTH-FIELDs and decoding it returns the
    values that were encoded.  (Separate file so that the tiers of `Props/C01.lean` stay untouched; imported nowhere.) -/
namespace OdxVerif.Codec
open OdxVerif.Bits OdxVerif.OdxM

/- Full statement of C01 (not yet a theorem, see `Props/C01.lean`):
   ∀ ps v trig pdu, wf ps → canon ps v → encodeMessage ps v trig true = .ok (pdu, 0) →
     decodeMessage ps pdu true = .ok (complete ps v trig, pdu.length)
   Proved here: the instance where the top-level parameters are tier-2 parameters, multiplexers, STATIC-FIELDs and
   DYNAMIC-LENGTH-FIELDs over tier-2 structures, optionally followed by an END-OF-PDU-FIELD as the last parameter.
   Still missing relative to the full statement: DYNAMIC-ENDMARKER-FIELD, fields nested inside structures / field items / multiplexer cases, items with BYTE-SIZE,
   and everything `Props/C01.lean` lists (other parameter kinds, diag-coded types, compu methods).                    -/

/-- **C01, field tier.** Requests/responses whose top-level parameters are
    * tier-2 parameters (VALUE / CODED-CONST leaves over the five leaf kinds, arbitrarily nested structures) or
      MULTIPLEXERs over tier-2 case structures (`FItem.item`, the tier of `C01_roundtrip_mux`),
    * VALUE parameters typed by a **STATIC-FIELD** (`FItem.sfield`): FIXED-NUMBER-OF-ITEMS = `items.length` items of a
      tier-2 structure, every item with its own value tree, every item's structure ending within ITEM-BYTE-SIZE bytes
      (`Trees.size k ≤ itemSize`; the encoder pads with zero bytes, the decoder re-positions to `start + i·ITEM-BYTE-SIZE`),
    * VALUE parameters typed by a **DYNAMIC-LENGTH-FIELD** (`FItem.dfield`): an integer count object (`A_UINT32` / `A_INT32`
      standard length, any bit length/position/byte order) at DETERMINE-NUMBER-OF-ITEMS' byte/bit position able to hold
      the number of items and ending before OFFSET, then — from OFFSET on — any number of items (also none) of a tier-2
      structure, every item with its own value tree and consuming at least one byte (`1 ≤ Trees.size k`; the decoder
      raises otherwise),
    each positioned explicitly (BYTE-POSITION) or behind its predecessor, top-level short names distinct.
    `(FItems.pair xs).val` is the value tree (fields: the list of the items' dictionaries). If strict `Request.encode`
    returns a PDU without an overlap warning, strict `Request.decode` returns exactly that value tree. (The size bound is
    the model's fuel: e.g. 1000 items of 50 parameters.) Proof: the compositional framework of `Proofs/Compose.lean`
    extended by zero padding, lists of pairs and "items must consume data" (`Proofs/FieldTier*.lean`). -/
theorem C01_roundtrip_fields (xs : List FItem) (hneed : FItems.need xs + 2 ≤ modelFuel) (hok : FItems.okAll xs)
    (hn : FItems.namesOk xs) (trig : Option Bytes) (pdu : Bytes)
    (henc : encodeMessage none (FItems.toParams xs) (.dict (FItems.pair xs).val) trig true = .ok (pdu, 0)) :
    ∃ cursor, decodeMessage none (FItems.toParams xs) pdu true = .ok (.dict (FItems.pair xs).val, cursor) :=
  fitems_roundtrip_msg xs hneed hok hn trig pdu henc

/-! non-vacuity: [sid; STATIC-FIELD sf: 2 items of {a: 8 bit; b: 12 bit sign-magnitude} (3 bytes) padded to 4;
    DYNAMIC-LENGTH-FIELD df: count = 4 bits at bit 4 of its first byte, one unused byte, 3 items {x: 16 bit low-high;
    in: {y: 8 bit}} from offset 2; MUX m (case "lo" selected by name); empty DYNAMIC-LENGTH-FIELD de (count byte only,
    OFFSET 2: the message is extended by one byte); z] -/
def exFShape : List Tree :=
  [.int ⟨"a", none, none, none, true, 8, .uint32⟩ (.int 0), .int ⟨"b", none, none, some .sm, true, 12, .int32⟩ (.int 0)]
def exFStatic : StaticLeaf :=
  { name := "sf", bytePos := none, itemSize := 4, shape := exFShape,
    items := [[.int ⟨"a", none, none, none, true, 8, .uint32⟩ (.int 1), .int ⟨"b", none, none, some .sm, true, 12, .int32⟩ (.int (-5))],
              [.int ⟨"a", none, none, none, true, 8, .uint32⟩ (.int 0xFF), .int ⟨"b", none, none, some .sm, true, 12, .int32⟩ (.int 2047)]] }
def exFDynItem (x y : Int) : List Tree :=
  [.int ⟨"x", none, none, none, false, 16, .int32⟩ (.int x),
   .struct "in" none [.int ⟨"y", none, none, none, true, 8, .uint32⟩ (.int y)]]
def exFDyn : DynLeaf :=
  { name := "df", bytePos := none, offset := 2, cntBp := 0, cnt := ⟨"", none, some 4, none, true, 4, .uint32⟩,
    shape := exFDynItem 0 0, items := [exFDynItem (-2) 7, exFDynItem 0x1234 0, exFDynItem 1 255] }
def exFDynEmpty : DynLeaf :=
  { name := "de", bytePos := none, offset := 2, cntBp := 0, cnt := ⟨"", none, none, none, true, 8, .uint32⟩,
    shape := exFDynItem 0 0, items := [] }
def exFKids : List Tree :=
  [.int ⟨"p", none, none, none, true, 8, .uint32⟩ (.int 7), .int ⟨"q", none, none, some .sm, false, 16, .int32⟩ (.int (-2))]
def exFMux : MuxLeaf :=
  { name := "m", bytePos := none, muxBp := 1, swBp := 0, key := ⟨"", none, some 4, none, true, 4, .uint32⟩,
    cases := [.mk "hi" 8 15 none, .mk "lo" 2 3 (some (.struct none (Trees.toParams exFKids))), .mk "z" 0 1 none],
    dflt := some ("other", none), caseName := "lo", lo := 2, kids := exFKids }
def exFItems : List FItem :=
  [.item (.tree (.const ⟨"sid", none, none, none, true, 8, .uint32⟩ (.int 0x2E))), .sfield exFStatic, .dfield exFDyn,
   .item (.mux exFMux), .dfield exFDynEmpty, .item (.tree (.int ⟨"z", none, none, none, true, 8, .uint32⟩ (.int 0xA5)))]

/-- the value tree -/
example : (FItems.pair exFItems).val =
    [("sid", .atom (.int 0x2E)),
     ("sf", .list [.dict [("a", .atom (.int 1)), ("b", .atom (.int (-5)))], .dict [("a", .atom (.int 0xFF)), ("b", .atom (.int 2047))]]),
     ("df", .list [.dict [("x", .atom (.int (-2))), ("in", .dict [("y", .atom (.int 7))])],
                   .dict [("x", .atom (.int 0x1234)), ("in", .dict [("y", .atom (.int 0))])],
                   .dict [("x", .atom (.int 1)), ("in", .dict [("y", .atom (.int 255))])]]),
     ("m", .pair "lo" (.dict [("p", .atom (.int 7)), ("q", .atom (.int (-2)))])),
     ("de", .list []), ("z", .atom (.int 0xA5))] := rfl
/-- the PDU (no overlap warning): items padded with 00, count nibble 3, gap byte, three 3-byte items, the multiplexer,
    count 0 + one byte up to OFFSET, z -/
example : (encodeMessage none (FItems.toParams exFItems) (.dict (FItems.pair exFItems).val) none true).toOption
    = some ([0x2E, 0x01, 0x08, 0x05, 0x00, 0xFF, 0x07, 0xFF, 0x00, 0x30, 0x00, 0xFE, 0xFF, 0x07, 0x34, 0x12, 0x00, 0x01, 0x00, 0xFF,
             0x20, 0x07, 0x02, 0x80, 0x00, 0x00, 0xA5], 0) := by decide +kernel
/-- … and what the model's decoder makes of it (`PVal` has no decidable equality; `pvalEq` is the model's `==`) -/
example : ((decodeMessage none (FItems.toParams exFItems)
      [0x2E, 0x01, 0x08, 0x05, 0x00, 0xFF, 0x07, 0xFF, 0x00, 0x30, 0x00, 0xFE, 0xFF, 0x07, 0x34, 0x12, 0x00, 0x01, 0x00, 0xFF,
       0x20, 0x07, 0x02, 0x80, 0x00, 0x00, 0xA5] true).toOption.map
        fun r => (pvalEq r.1 (.dict (FItems.pair exFItems).val), r.2)) = some (true, 27) := by decide +kernel
example : FItems.need exFItems + 2 ≤ modelFuel := by decide
example : FItems.namesOk exFItems := by
  simp [FItems.namesOk, exFItems, FItem.name, Item.name, Tree.name, exFStatic, exFDyn, exFDynEmpty, exFMux]
example : FItems.okAll exFItems := by
  have hsel : exFMux.encSel ∧ exFMux.decSel :=
    MuxLeaf.sel_of_case exFMux [.mk "hi" 8 15 none] [.mk "z" 0 1 none] 3 rfl (by decide) (by decide) (by decide)
  refine ⟨?_, ?_, ?_, ?_, ?_, ?_, trivial⟩
  · simp [FItem.ok, Item.ok, Tree.okAll, Tree.namesOk, Obj.ok, Obj.encOk, Obj.sizeOk, Obj.inRange]
  · intro k hk
    simp only [exFStatic, List.mem_cons, List.mem_nil_iff, or_false] at hk
    rcases hk with rfl | rfl <;>
    · refine ⟨⟨rfl, ?_, ?_⟩, by decide⟩
      · simp [Trees.okAll, Tree.okAll, Obj.ok, Obj.encOk, Obj.sizeOk, Obj.inRange, int32Known, int32InRange]
      · simp [Trees.namesOk, Tree.namesOk, Tree.name]
  · refine ⟨?_, ?_, by decide, ?_⟩
    · simp [exFDyn, DynLeaf.cntObj, Obj.ok, Obj.encOk, Obj.sizeOk]
    · simp [exFDyn, DynLeaf.cntObj, Obj.inRange]
    · intro k hk
      simp only [exFDyn, List.mem_cons, List.mem_nil_iff, or_false] at hk
      rcases hk with rfl | rfl | rfl <;>
      · refine ⟨⟨rfl, ?_, ?_⟩, by decide⟩
        · simp [exFDynItem, Trees.okAll, Tree.okAll, Obj.ok, Obj.encOk, Obj.sizeOk, Obj.inRange, int32Known, int32InRange]
        · simp [exFDynItem, Trees.namesOk, Tree.namesOk, Tree.name]
  · refine ⟨?_, ?_, ?_, hsel.1, hsel.2, ?_, ?_⟩
    · simp [exFMux, MuxLeaf.keyObj, Obj.ok, Obj.encOk, Obj.sizeOk]
    · simp [exFMux, MuxLeaf.keyObj, Obj.isInt]
    · simp [exFMux, MuxLeaf.keyObj, Obj.inRange]
    · simp [exFMux, exFKids, Trees.okAll, Tree.okAll, Obj.ok, Obj.encOk, Obj.sizeOk, Obj.inRange, int32Known, int32InRange]
    · simp [exFMux, exFKids, Trees.namesOk, Tree.namesOk, Tree.name]
  · refine ⟨?_, ?_, by decide, ?_⟩
    · simp [exFDynEmpty, DynLeaf.cntObj, Obj.ok, Obj.encOk, Obj.sizeOk]
    · simp [exFDynEmpty, DynLeaf.cntObj, Obj.inRange]
    · intro k hk; cases hk
  · simp [FItem.ok, Item.ok, Tree.okAll, Tree.namesOk, Obj.ok, Obj.encOk, Obj.sizeOk, Obj.inRange]
example : exFMux.encSel ∧ exFMux.decSel :=
  MuxLeaf.sel_of_case exFMux [.mk "hi" 8 15 none] [.mk "z" 0 1 none] 3 rfl (by decide) (by decide) (by decide)

/-- **C01, field tier, END-OF-PDU-FIELD.** The parameters of `C01_roundtrip_fields` followed by one more VALUE
    parameter typed by an **END-OF-PDU-FIELD** over a tier-2 structure (`EopLeaf`: any number of items, each with its own
    value tree, each consuming at least one byte; MIN- and MAX-NUMBER-OF-ITEMS are not looked at by odxtools' codec). The
    encoder accepts such a field only as the *last* parameter (`is_end_of_pdu`), and the decoder reads items until the
    end of the message, so the statement needs `hend`: the position behind the last item is the end of the PDU — no
    (explicitly positioned) parameter lies behind the field's items. `(FItems.pairEop xs e).enc {}` is the pure encoder
    run from the empty message (its cursor is a function of the description and the number of items alone). Then: strict
    `Request.encode` returns a PDU without overlap warning ⇒ strict `Request.decode` returns exactly the value tree.
    Without `hend` the property fails in the model and in odxtools alike (the decoder turns the trailing bytes into
    further items) — such a description contradicts the ODX meaning of "end of PDU". -/
theorem C01_roundtrip_fields_eop (xs : List FItem) (e : EopLeaf) (hneed : FItems.need xs + e.need + 3 ≤ modelFuel)
    (hok : FItems.okAll xs) (heok : e.ok) (hn : FItems.namesOk xs) (hne : ∀ x ∈ xs, x.name ≠ e.name)
    (trig : Option Bytes) (pdu : Bytes)
    (hend : ((FItems.pairEop xs e).enc {}).cursorByte = pdu.length)
    (henc : encodeMessage none (FItems.toParamsEop xs e) (.dict (FItems.pairEop xs e).val) trig true = .ok (pdu, 0)) :
    ∃ cursor, decodeMessage none (FItems.toParamsEop xs e) pdu true = .ok (.dict (FItems.pairEop xs e).val, cursor) :=
  fitems_eop_roundtrip_msg xs e hneed hok heok hn hne trig pdu hend henc

/-! non-vacuity: [sid; DYNAMIC-LENGTH-FIELD df: count byte, 2 items {x: 8 bit}; END-OF-PDU-FIELD rec: 2 items
    {id: 8 bit; v: 16 bit}] -/
def exEItem (i v : Int) : List Tree :=
  [.int ⟨"id", none, none, none, true, 8, .uint32⟩ (.int i), .int ⟨"v", none, none, none, true, 16, .int32⟩ (.int v)]
def exEDynItem (x : Int) : List Tree := [.int ⟨"x", none, none, none, true, 8, .uint32⟩ (.int x)]
def exEDyn : DynLeaf :=
  { name := "df", bytePos := none, offset := 1, cntBp := 0, cnt := ⟨"", none, none, none, true, 8, .uint32⟩,
    shape := exEDynItem 0, items := [exEDynItem 10, exEDynItem 11] }
def exEop : EopLeaf :=
  { name := "rec", bytePos := none, minItems := none, maxItems := some 5, shape := exEItem 0 0,
    items := [exEItem 1 (-2), exEItem 2 300] }
def exEItems : List FItem :=
  [.item (.tree (.const ⟨"sid", none, none, none, true, 8, .uint32⟩ (.int 0x31))), .dfield exEDyn]

example : (FItems.pairEop exEItems exEop).val =
    [("sid", .atom (.int 0x31)), ("df", .list [.dict [("x", .atom (.int 10))], .dict [("x", .atom (.int 11))]]),
     ("rec", .list [.dict [("id", .atom (.int 1)), ("v", .atom (.int (-2)))], .dict [("id", .atom (.int 2)), ("v", .atom (.int 300))]])] := rfl
example : (encodeMessage none (FItems.toParamsEop exEItems exEop) (.dict (FItems.pairEop exEItems exEop).val) none true).toOption
    = some ([0x31, 0x02, 0x0A, 0x0B, 0x01, 0xFF, 0xFE, 0x02, 0x01, 0x2C], 0) := by decide +kernel
/-- `hend`: the pure encoder's cursor ends at byte 10 = the length of the PDU -/
example : ((FItems.pairEop exEItems exEop).enc {}).cursorByte = 10 := by decide +kernel
example : ((decodeMessage none (FItems.toParamsEop exEItems exEop) [0x31, 0x02, 0x0A, 0x0B, 0x01, 0xFF, 0xFE, 0x02, 0x01, 0x2C] true).toOption.map
    fun r => (pvalEq r.1 (.dict (FItems.pairEop exEItems exEop).val), r.2)) = some (true, 10) := by decide +kernel
example : FItems.need exEItems + exEop.need + 3 ≤ modelFuel := by decide
example : exEop.ok := by
  intro k hk
  simp only [exEop, List.mem_cons, List.mem_nil_iff, or_false] at hk
  rcases hk with rfl | rfl <;>
  · refine ⟨⟨rfl, ?_, ?_⟩, by decide⟩
    · simp [exEItem, Trees.okAll, Tree.okAll, Obj.ok, Obj.encOk, Obj.sizeOk, Obj.inRange, int32Known, int32InRange]
    · simp [exEItem, Trees.namesOk, Tree.namesOk, Tree.name]
example : FItems.okAll exEItems := by
  refine ⟨?_, ?_, trivial⟩
  · simp [FItem.ok, Item.ok, Tree.okAll, Tree.namesOk, Obj.ok, Obj.encOk, Obj.sizeOk, Obj.inRange]
  · refine ⟨?_, ?_, by decide, ?_⟩
    · simp [exEDyn, DynLeaf.cntObj, Obj.ok, Obj.encOk, Obj.sizeOk]
    · simp [exEDyn, DynLeaf.cntObj, Obj.inRange]
    · intro k hk
      simp only [exEDyn, List.mem_cons, List.mem_nil_iff, or_false] at hk
      rcases hk with rfl | rfl <;>
      · refine ⟨⟨rfl, ?_, ?_⟩, by decide⟩
        · simp [exEDynItem, Trees.okAll, Tree.okAll, Obj.ok, Obj.encOk, Obj.sizeOk, Obj.inRange]
        · simp [exEDynItem, Trees.namesOk, Tree.namesOk, Tree.name]
example : FItems.namesOk exEItems ∧ ∀ x ∈ exEItems, x.name ≠ exEop.name := by
  simp [FItems.namesOk, exEItems, FItem.name, Item.name, Tree.name, exEDyn, exEop]

end OdxVerif.Codec
