-- This module serves as the root of the `OdxVerif` library.
-- Import modules here that should be built as part of the library.
import OdxVerif.Basic
